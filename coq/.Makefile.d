theories/Spec/BV.vo theories/Spec/BV.glob theories/Spec/BV.v.beautified theories/Spec/BV.required_vo: theories/Spec/BV.v 
theories/Spec/BV.vio: theories/Spec/BV.v 
theories/Spec/BV.vos theories/Spec/BV.vok theories/Spec/BV.required_vos: theories/Spec/BV.v 
theories/Spec/Eval.vo theories/Spec/Eval.glob theories/Spec/Eval.v.beautified theories/Spec/Eval.required_vo: theories/Spec/Eval.v theories/Model/Expr.vo
theories/Spec/Eval.vio: theories/Spec/Eval.v theories/Model/Expr.vio
theories/Spec/Eval.vos theories/Spec/Eval.vok theories/Spec/Eval.required_vos: theories/Spec/Eval.v theories/Model/Expr.vos
theories/Spec/SimSpec.vo theories/Spec/SimSpec.glob theories/Spec/SimSpec.v.beautified theories/Spec/SimSpec.required_vo: theories/Spec/SimSpec.v theories/Spec/System.vo
theories/Spec/SimSpec.vio: theories/Spec/SimSpec.v theories/Spec/System.vio
theories/Spec/SimSpec.vos theories/Spec/SimSpec.vok theories/Spec/SimSpec.required_vos: theories/Spec/SimSpec.v theories/Spec/System.vos
theories/Spec/System.vo theories/Spec/System.glob theories/Spec/System.v.beautified theories/Spec/System.required_vo: theories/Spec/System.v theories/Spec/Eval.vo
theories/Spec/System.vio: theories/Spec/System.v theories/Spec/Eval.vio
theories/Spec/System.vos theories/Spec/System.vok theories/Spec/System.required_vos: theories/Spec/System.v theories/Spec/Eval.vos
theories/Model/EvalImpl.vo theories/Model/EvalImpl.glob theories/Model/EvalImpl.v.beautified theories/Model/EvalImpl.required_vo: theories/Model/EvalImpl.v theories/Spec/Eval.vo
theories/Model/EvalImpl.vio: theories/Model/EvalImpl.v theories/Spec/Eval.vio
theories/Model/EvalImpl.vos theories/Model/EvalImpl.vok theories/Model/EvalImpl.required_vos: theories/Model/EvalImpl.v theories/Spec/Eval.vos
theories/Model/Expr.vo theories/Model/Expr.glob theories/Model/Expr.v.beautified theories/Model/Expr.required_vo: theories/Model/Expr.v theories/Spec/BV.vo
theories/Model/Expr.vio: theories/Model/Expr.v theories/Spec/BV.vio
theories/Model/Expr.vos theories/Model/Expr.vok theories/Model/Expr.required_vos: theories/Model/Expr.v theories/Spec/BV.vos
theories/Model/Sim.vo theories/Model/Sim.glob theories/Model/Sim.v.beautified theories/Model/Sim.required_vo: theories/Model/Sim.v theories/Spec/SimSpec.vo theories/Model/EvalImpl.vo
theories/Model/Sim.vio: theories/Model/Sim.v theories/Spec/SimSpec.vio theories/Model/EvalImpl.vio
theories/Model/Sim.vos theories/Model/Sim.vok theories/Model/Sim.required_vos: theories/Model/Sim.v theories/Spec/SimSpec.vos theories/Model/EvalImpl.vos
theories/Proofs/BVLemmas.vo theories/Proofs/BVLemmas.glob theories/Proofs/BVLemmas.v.beautified theories/Proofs/BVLemmas.required_vo: theories/Proofs/BVLemmas.v theories/Spec/BV.vo
theories/Proofs/BVLemmas.vio: theories/Proofs/BVLemmas.v theories/Spec/BV.vio
theories/Proofs/BVLemmas.vos theories/Proofs/BVLemmas.vok theories/Proofs/BVLemmas.required_vos: theories/Proofs/BVLemmas.v theories/Spec/BV.vos
theories/Proofs/EvalImplProofs.vo theories/Proofs/EvalImplProofs.glob theories/Proofs/EvalImplProofs.v.beautified theories/Proofs/EvalImplProofs.required_vo: theories/Proofs/EvalImplProofs.v theories/Model/EvalImpl.vo theories/Proofs/ExprLemmas.vo
theories/Proofs/EvalImplProofs.vio: theories/Proofs/EvalImplProofs.v theories/Model/EvalImpl.vio theories/Proofs/ExprLemmas.vio
theories/Proofs/EvalImplProofs.vos theories/Proofs/EvalImplProofs.vok theories/Proofs/EvalImplProofs.required_vos: theories/Proofs/EvalImplProofs.v theories/Model/EvalImpl.vos theories/Proofs/ExprLemmas.vos
theories/Proofs/EvalProofs.vo theories/Proofs/EvalProofs.glob theories/Proofs/EvalProofs.v.beautified theories/Proofs/EvalProofs.required_vo: theories/Proofs/EvalProofs.v theories/Spec/Eval.vo theories/Model/EvalImpl.vo theories/Proofs/BVLemmas.vo theories/Proofs/ExprLemmas.vo
theories/Proofs/EvalProofs.vio: theories/Proofs/EvalProofs.v theories/Spec/Eval.vio theories/Model/EvalImpl.vio theories/Proofs/BVLemmas.vio theories/Proofs/ExprLemmas.vio
theories/Proofs/EvalProofs.vos theories/Proofs/EvalProofs.vok theories/Proofs/EvalProofs.required_vos: theories/Proofs/EvalProofs.v theories/Spec/Eval.vos theories/Model/EvalImpl.vos theories/Proofs/BVLemmas.vos theories/Proofs/ExprLemmas.vos
theories/Proofs/ExprLemmas.vo theories/Proofs/ExprLemmas.glob theories/Proofs/ExprLemmas.v.beautified theories/Proofs/ExprLemmas.required_vo: theories/Proofs/ExprLemmas.v theories/Model/Expr.vo
theories/Proofs/ExprLemmas.vio: theories/Proofs/ExprLemmas.v theories/Model/Expr.vio
theories/Proofs/ExprLemmas.vos theories/Proofs/ExprLemmas.vok theories/Proofs/ExprLemmas.required_vos: theories/Proofs/ExprLemmas.v theories/Model/Expr.vos
theories/Proofs/SimBasics.vo theories/Proofs/SimBasics.glob theories/Proofs/SimBasics.v.beautified theories/Proofs/SimBasics.required_vo: theories/Proofs/SimBasics.v theories/Spec/SimSpec.vo
theories/Proofs/SimBasics.vio: theories/Proofs/SimBasics.v theories/Spec/SimSpec.vio
theories/Proofs/SimBasics.vos theories/Proofs/SimBasics.vok theories/Proofs/SimBasics.required_vos: theories/Proofs/SimBasics.v theories/Spec/SimSpec.vos
theories/Proofs/SimCanonProofs.vo theories/Proofs/SimCanonProofs.glob theories/Proofs/SimCanonProofs.v.beautified theories/Proofs/SimCanonProofs.required_vo: theories/Proofs/SimCanonProofs.v theories/Model/Sim.vo theories/Proofs/SimBasics.vo theories/Proofs/SimStoreProofs.vo theories/Proofs/SimProofs.vo theories/Proofs/BVLemmas.vo theories/Proofs/EvalProofs.vo
theories/Proofs/SimCanonProofs.vio: theories/Proofs/SimCanonProofs.v theories/Model/Sim.vio theories/Proofs/SimBasics.vio theories/Proofs/SimStoreProofs.vio theories/Proofs/SimProofs.vio theories/Proofs/BVLemmas.vio theories/Proofs/EvalProofs.vio
theories/Proofs/SimCanonProofs.vos theories/Proofs/SimCanonProofs.vok theories/Proofs/SimCanonProofs.required_vos: theories/Proofs/SimCanonProofs.v theories/Model/Sim.vos theories/Proofs/SimBasics.vos theories/Proofs/SimStoreProofs.vos theories/Proofs/SimProofs.vos theories/Proofs/BVLemmas.vos theories/Proofs/EvalProofs.vos
theories/Proofs/SimExamples.vo theories/Proofs/SimExamples.glob theories/Proofs/SimExamples.v.beautified theories/Proofs/SimExamples.required_vo: theories/Proofs/SimExamples.v theories/Model/Sim.vo theories/Proofs/BVLemmas.vo theories/Proofs/SimCanonProofs.vo
theories/Proofs/SimExamples.vio: theories/Proofs/SimExamples.v theories/Model/Sim.vio theories/Proofs/BVLemmas.vio theories/Proofs/SimCanonProofs.vio
theories/Proofs/SimExamples.vos theories/Proofs/SimExamples.vok theories/Proofs/SimExamples.required_vos: theories/Proofs/SimExamples.v theories/Model/Sim.vos theories/Proofs/BVLemmas.vos theories/Proofs/SimCanonProofs.vos
theories/Proofs/SimInitProofs.vo theories/Proofs/SimInitProofs.glob theories/Proofs/SimInitProofs.v.beautified theories/Proofs/SimInitProofs.required_vo: theories/Proofs/SimInitProofs.v theories/Model/Sim.vo theories/Proofs/SimBasics.vo theories/Proofs/SimStoreProofs.vo theories/Proofs/SimProofs.vo
theories/Proofs/SimInitProofs.vio: theories/Proofs/SimInitProofs.v theories/Model/Sim.vio theories/Proofs/SimBasics.vio theories/Proofs/SimStoreProofs.vio theories/Proofs/SimProofs.vio
theories/Proofs/SimInitProofs.vos theories/Proofs/SimInitProofs.vok theories/Proofs/SimInitProofs.required_vos: theories/Proofs/SimInitProofs.v theories/Model/Sim.vos theories/Proofs/SimBasics.vos theories/Proofs/SimStoreProofs.vos theories/Proofs/SimProofs.vos
theories/Proofs/SimProofs.vo theories/Proofs/SimProofs.glob theories/Proofs/SimProofs.v.beautified theories/Proofs/SimProofs.required_vo: theories/Proofs/SimProofs.v theories/Model/Sim.vo theories/Proofs/SimBasics.vo theories/Proofs/SimStoreProofs.vo
theories/Proofs/SimProofs.vio: theories/Proofs/SimProofs.v theories/Model/Sim.vio theories/Proofs/SimBasics.vio theories/Proofs/SimStoreProofs.vio
theories/Proofs/SimProofs.vos theories/Proofs/SimProofs.vok theories/Proofs/SimProofs.required_vos: theories/Proofs/SimProofs.v theories/Model/Sim.vos theories/Proofs/SimBasics.vos theories/Proofs/SimStoreProofs.vos
theories/Proofs/SimReplayProofs.vo theories/Proofs/SimReplayProofs.glob theories/Proofs/SimReplayProofs.v.beautified theories/Proofs/SimReplayProofs.required_vo: theories/Proofs/SimReplayProofs.v theories/Model/Sim.vo
theories/Proofs/SimReplayProofs.vio: theories/Proofs/SimReplayProofs.v theories/Model/Sim.vio
theories/Proofs/SimReplayProofs.vos theories/Proofs/SimReplayProofs.vok theories/Proofs/SimReplayProofs.required_vos: theories/Proofs/SimReplayProofs.v theories/Model/Sim.vos
theories/Proofs/SimStoreProofs.vo theories/Proofs/SimStoreProofs.glob theories/Proofs/SimStoreProofs.v.beautified theories/Proofs/SimStoreProofs.required_vo: theories/Proofs/SimStoreProofs.v theories/Model/Sim.vo theories/Proofs/SimBasics.vo theories/Proofs/ExprLemmas.vo theories/Proofs/EvalImplProofs.vo
theories/Proofs/SimStoreProofs.vio: theories/Proofs/SimStoreProofs.v theories/Model/Sim.vio theories/Proofs/SimBasics.vio theories/Proofs/ExprLemmas.vio theories/Proofs/EvalImplProofs.vio
theories/Proofs/SimStoreProofs.vos theories/Proofs/SimStoreProofs.vok theories/Proofs/SimStoreProofs.required_vos: theories/Proofs/SimStoreProofs.v theories/Model/Sim.vos theories/Proofs/SimBasics.vos theories/Proofs/ExprLemmas.vos theories/Proofs/EvalImplProofs.vos
theories/Props/C06.vo theories/Props/C06.glob theories/Props/C06.v.beautified theories/Props/C06.required_vo: theories/Props/C06.v theories/Model/EvalImpl.vo theories/Proofs/EvalProofs.vo theories/Proofs/EvalImplProofs.vo
theories/Props/C06.vio: theories/Props/C06.v theories/Model/EvalImpl.vio theories/Proofs/EvalProofs.vio theories/Proofs/EvalImplProofs.vio
theories/Props/C06.vos theories/Props/C06.vok theories/Props/C06.required_vos: theories/Props/C06.v theories/Model/EvalImpl.vos theories/Proofs/EvalProofs.vos theories/Proofs/EvalImplProofs.vos
theories/Props/C07.vo theories/Props/C07.glob theories/Props/C07.v.beautified theories/Props/C07.required_vo: theories/Props/C07.v theories/Model/Sim.vo theories/Proofs/SimBasics.vo theories/Proofs/SimStoreProofs.vo theories/Proofs/SimProofs.vo theories/Proofs/SimInitProofs.vo theories/Proofs/SimReplayProofs.vo theories/Proofs/SimCanonProofs.vo theories/Proofs/SimExamples.vo
theories/Props/C07.vio: theories/Props/C07.v theories/Model/Sim.vio theories/Proofs/SimBasics.vio theories/Proofs/SimStoreProofs.vio theories/Proofs/SimProofs.vio theories/Proofs/SimInitProofs.vio theories/Proofs/SimReplayProofs.vio theories/Proofs/SimCanonProofs.vio theories/Proofs/SimExamples.vio
theories/Props/C07.vos theories/Props/C07.vok theories/Props/C07.required_vos: theories/Props/C07.v theories/Model/Sim.vos theories/Proofs/SimBasics.vos theories/Proofs/SimStoreProofs.vos theories/Proofs/SimProofs.vos theories/Proofs/SimInitProofs.vos theories/Proofs/SimReplayProofs.vos theories/Proofs/SimCanonProofs.vos theories/Proofs/SimExamples.vos
