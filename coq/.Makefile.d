theories/Spec/BV.vo theories/Spec/BV.glob theories/Spec/BV.v.beautified theories/Spec/BV.required_vo: theories/Spec/BV.v 
theories/Spec/BV.vio: theories/Spec/BV.v 
theories/Spec/BV.vos theories/Spec/BV.vok theories/Spec/BV.required_vos: theories/Spec/BV.v 
theories/Spec/Eval.vo theories/Spec/Eval.glob theories/Spec/Eval.v.beautified theories/Spec/Eval.required_vo: theories/Spec/Eval.v theories/Model/Expr.vo
theories/Spec/Eval.vio: theories/Spec/Eval.v theories/Model/Expr.vio
theories/Spec/Eval.vos theories/Spec/Eval.vok theories/Spec/Eval.required_vos: theories/Spec/Eval.v theories/Model/Expr.vos
theories/Spec/ReachFix.vo theories/Spec/ReachFix.glob theories/Spec/ReachFix.v.beautified theories/Spec/ReachFix.required_vo: theories/Spec/ReachFix.v theories/Spec/System.vo
theories/Spec/ReachFix.vio: theories/Spec/ReachFix.v theories/Spec/System.vio
theories/Spec/ReachFix.vos theories/Spec/ReachFix.vok theories/Spec/ReachFix.required_vos: theories/Spec/ReachFix.v theories/Spec/System.vos
theories/Spec/System.vo theories/Spec/System.glob theories/Spec/System.v.beautified theories/Spec/System.required_vo: theories/Spec/System.v theories/Spec/Eval.vo
theories/Spec/System.vio: theories/Spec/System.v theories/Spec/Eval.vio
theories/Spec/System.vos theories/Spec/System.vok theories/Spec/System.required_vos: theories/Spec/System.v theories/Spec/Eval.vos
theories/Model/EvalImpl.vo theories/Model/EvalImpl.glob theories/Model/EvalImpl.v.beautified theories/Model/EvalImpl.required_vo: theories/Model/EvalImpl.v theories/Spec/Eval.vo
theories/Model/EvalImpl.vio: theories/Model/EvalImpl.v theories/Spec/Eval.vio
theories/Model/EvalImpl.vos theories/Model/EvalImpl.vok theories/Model/EvalImpl.required_vos: theories/Model/EvalImpl.v theories/Spec/Eval.vos
theories/Model/Expr.vo theories/Model/Expr.glob theories/Model/Expr.v.beautified theories/Model/Expr.required_vo: theories/Model/Expr.v theories/Spec/BV.vo
theories/Model/Expr.vio: theories/Model/Expr.v theories/Spec/BV.vio
theories/Model/Expr.vos theories/Model/Expr.vok theories/Model/Expr.required_vos: theories/Model/Expr.v theories/Spec/BV.vos
theories/Model/Ic3.vo theories/Model/Ic3.glob theories/Model/Ic3.v.beautified theories/Model/Ic3.required_vo: theories/Model/Ic3.v 
theories/Model/Ic3.vio: theories/Model/Ic3.v 
theories/Model/Ic3.vos theories/Model/Ic3.vok theories/Model/Ic3.required_vos: theories/Model/Ic3.v 
theories/Model/Simplify.vo theories/Model/Simplify.glob theories/Model/Simplify.v.beautified theories/Model/Simplify.required_vo: theories/Model/Simplify.v theories/Model/EvalImpl.vo
theories/Model/Simplify.vio: theories/Model/Simplify.v theories/Model/EvalImpl.vio
theories/Model/Simplify.vos theories/Model/Simplify.vok theories/Model/Simplify.required_vos: theories/Model/Simplify.v theories/Model/EvalImpl.vos
theories/Proofs/BVLemmas.vo theories/Proofs/BVLemmas.glob theories/Proofs/BVLemmas.v.beautified theories/Proofs/BVLemmas.required_vo: theories/Proofs/BVLemmas.v theories/Spec/BV.vo
theories/Proofs/BVLemmas.vio: theories/Proofs/BVLemmas.v theories/Spec/BV.vio
theories/Proofs/BVLemmas.vos theories/Proofs/BVLemmas.vok theories/Proofs/BVLemmas.required_vos: theories/Proofs/BVLemmas.v theories/Spec/BV.vos
theories/Proofs/BfsProofs.vo theories/Proofs/BfsProofs.glob theories/Proofs/BfsProofs.v.beautified theories/Proofs/BfsProofs.required_vo: theories/Proofs/BfsProofs.v theories/Spec/ReachFix.vo
theories/Proofs/BfsProofs.vio: theories/Proofs/BfsProofs.v theories/Spec/ReachFix.vio
theories/Proofs/BfsProofs.vos theories/Proofs/BfsProofs.vok theories/Proofs/BfsProofs.required_vos: theories/Proofs/BfsProofs.v theories/Spec/ReachFix.vos
theories/Proofs/EvalImplProofs.vo theories/Proofs/EvalImplProofs.glob theories/Proofs/EvalImplProofs.v.beautified theories/Proofs/EvalImplProofs.required_vo: theories/Proofs/EvalImplProofs.v theories/Model/EvalImpl.vo theories/Proofs/ExprLemmas.vo
theories/Proofs/EvalImplProofs.vio: theories/Proofs/EvalImplProofs.v theories/Model/EvalImpl.vio theories/Proofs/ExprLemmas.vio
theories/Proofs/EvalImplProofs.vos theories/Proofs/EvalImplProofs.vok theories/Proofs/EvalImplProofs.required_vos: theories/Proofs/EvalImplProofs.v theories/Model/EvalImpl.vos theories/Proofs/ExprLemmas.vos
theories/Proofs/EvalProofs.vo theories/Proofs/EvalProofs.glob theories/Proofs/EvalProofs.v.beautified theories/Proofs/EvalProofs.required_vo: theories/Proofs/EvalProofs.v theories/Spec/Eval.vo theories/Model/EvalImpl.vo theories/Proofs/BVLemmas.vo theories/Proofs/ExprLemmas.vo
theories/Proofs/EvalProofs.vio: theories/Proofs/EvalProofs.v theories/Spec/Eval.vio theories/Model/EvalImpl.vio theories/Proofs/BVLemmas.vio theories/Proofs/ExprLemmas.vio
theories/Proofs/EvalProofs.vos theories/Proofs/EvalProofs.vok theories/Proofs/EvalProofs.required_vos: theories/Proofs/EvalProofs.v theories/Spec/Eval.vos theories/Model/EvalImpl.vos theories/Proofs/BVLemmas.vos theories/Proofs/ExprLemmas.vos
theories/Proofs/ExprLemmas.vo theories/Proofs/ExprLemmas.glob theories/Proofs/ExprLemmas.v.beautified theories/Proofs/ExprLemmas.required_vo: theories/Proofs/ExprLemmas.v theories/Model/Expr.vo
theories/Proofs/ExprLemmas.vio: theories/Proofs/ExprLemmas.v theories/Model/Expr.vio
theories/Proofs/ExprLemmas.vos theories/Proofs/ExprLemmas.vok theories/Proofs/ExprLemmas.required_vos: theories/Proofs/ExprLemmas.v theories/Model/Expr.vos
theories/Proofs/Ic3Proofs.vo theories/Proofs/Ic3Proofs.glob theories/Proofs/Ic3Proofs.v.beautified theories/Proofs/Ic3Proofs.required_vo: theories/Proofs/Ic3Proofs.v theories/Model/Ic3.vo
theories/Proofs/Ic3Proofs.vio: theories/Proofs/Ic3Proofs.v theories/Model/Ic3.vio
theories/Proofs/Ic3Proofs.vos theories/Proofs/Ic3Proofs.vok theories/Proofs/Ic3Proofs.required_vos: theories/Proofs/Ic3Proofs.v theories/Model/Ic3.vos
theories/Proofs/ReachFixProofs.vo theories/Proofs/ReachFixProofs.glob theories/Proofs/ReachFixProofs.v.beautified theories/Proofs/ReachFixProofs.required_vo: theories/Proofs/ReachFixProofs.v theories/Spec/ReachFix.vo theories/Proofs/BfsProofs.vo theories/Proofs/EvalProofs.vo
theories/Proofs/ReachFixProofs.vio: theories/Proofs/ReachFixProofs.v theories/Spec/ReachFix.vio theories/Proofs/BfsProofs.vio theories/Proofs/EvalProofs.vio
theories/Proofs/ReachFixProofs.vos theories/Proofs/ReachFixProofs.vok theories/Proofs/ReachFixProofs.required_vos: theories/Proofs/ReachFixProofs.v theories/Spec/ReachFix.vos theories/Proofs/BfsProofs.vos theories/Proofs/EvalProofs.vos
theories/Props/C06.vo theories/Props/C06.glob theories/Props/C06.v.beautified theories/Props/C06.required_vo: theories/Props/C06.v theories/Model/EvalImpl.vo theories/Proofs/EvalProofs.vo theories/Proofs/EvalImplProofs.vo
theories/Props/C06.vio: theories/Props/C06.v theories/Model/EvalImpl.vio theories/Proofs/EvalProofs.vio theories/Proofs/EvalImplProofs.vio
theories/Props/C06.vos theories/Props/C06.vok theories/Props/C06.required_vos: theories/Props/C06.v theories/Model/EvalImpl.vos theories/Proofs/EvalProofs.vos theories/Proofs/EvalImplProofs.vos
theories/Props/C10.vo theories/Props/C10.glob theories/Props/C10.v.beautified theories/Props/C10.required_vo: theories/Props/C10.v theories/Spec/ReachFix.vo theories/Proofs/BfsProofs.vo theories/Proofs/ReachFixProofs.vo theories/Model/Ic3.vo theories/Proofs/Ic3Proofs.vo
theories/Props/C10.vio: theories/Props/C10.v theories/Spec/ReachFix.vio theories/Proofs/BfsProofs.vio theories/Proofs/ReachFixProofs.vio theories/Model/Ic3.vio theories/Proofs/Ic3Proofs.vio
theories/Props/C10.vos theories/Props/C10.vok theories/Props/C10.required_vos: theories/Props/C10.v theories/Spec/ReachFix.vos theories/Proofs/BfsProofs.vos theories/Proofs/ReachFixProofs.vos theories/Model/Ic3.vos theories/Proofs/Ic3Proofs.vos
