theories/Spec/BV.vo theories/Spec/BV.glob theories/Spec/BV.v.beautified theories/Spec/BV.required_vo: theories/Spec/BV.v 
theories/Spec/BV.vio: theories/Spec/BV.v 
theories/Spec/BV.vos theories/Spec/BV.vok theories/Spec/BV.required_vos: theories/Spec/BV.v 
theories/Spec/Eval.vo theories/Spec/Eval.glob theories/Spec/Eval.v.beautified theories/Spec/Eval.required_vo: theories/Spec/Eval.v theories/Model/Expr.vo
theories/Spec/Eval.vio: theories/Spec/Eval.v theories/Model/Expr.vio
theories/Spec/Eval.vos theories/Spec/Eval.vok theories/Spec/Eval.required_vos: theories/Spec/Eval.v theories/Model/Expr.vos
theories/Spec/System.vo theories/Spec/System.glob theories/Spec/System.v.beautified theories/Spec/System.required_vo: theories/Spec/System.v theories/Spec/Eval.vo
theories/Spec/System.vio: theories/Spec/System.v theories/Spec/Eval.vio
theories/Spec/System.vos theories/Spec/System.vok theories/Spec/System.required_vos: theories/Spec/System.v theories/Spec/Eval.vos
theories/Model/Context.vo theories/Model/Context.glob theories/Model/Context.v.beautified theories/Model/Context.required_vo: theories/Model/Context.v 
theories/Model/Context.vio: theories/Model/Context.v 
theories/Model/Context.vos theories/Model/Context.vok theories/Model/Context.required_vos: theories/Model/Context.v 
theories/Model/ContextOracle.vo theories/Model/ContextOracle.glob theories/Model/ContextOracle.v.beautified theories/Model/ContextOracle.required_vo: theories/Model/ContextOracle.v theories/Model/Context.vo
theories/Model/ContextOracle.vio: theories/Model/ContextOracle.v theories/Model/Context.vio
theories/Model/ContextOracle.vos theories/Model/ContextOracle.vok theories/Model/ContextOracle.required_vos: theories/Model/ContextOracle.v theories/Model/Context.vos
theories/Model/ContextTree.vo theories/Model/ContextTree.glob theories/Model/ContextTree.v.beautified theories/Model/ContextTree.required_vo: theories/Model/ContextTree.v theories/Model/Expr.vo theories/Model/Context.vo
theories/Model/ContextTree.vio: theories/Model/ContextTree.v theories/Model/Expr.vio theories/Model/Context.vio
theories/Model/ContextTree.vos theories/Model/ContextTree.vok theories/Model/ContextTree.required_vos: theories/Model/ContextTree.v theories/Model/Expr.vos theories/Model/Context.vos
theories/Model/EvalImpl.vo theories/Model/EvalImpl.glob theories/Model/EvalImpl.v.beautified theories/Model/EvalImpl.required_vo: theories/Model/EvalImpl.v theories/Spec/Eval.vo
theories/Model/EvalImpl.vio: theories/Model/EvalImpl.v theories/Spec/Eval.vio
theories/Model/EvalImpl.vos theories/Model/EvalImpl.vok theories/Model/EvalImpl.required_vos: theories/Model/EvalImpl.v theories/Spec/Eval.vos
theories/Model/Expr.vo theories/Model/Expr.glob theories/Model/Expr.v.beautified theories/Model/Expr.required_vo: theories/Model/Expr.v theories/Spec/BV.vo
theories/Model/Expr.vio: theories/Model/Expr.v theories/Spec/BV.vio
theories/Model/Expr.vos theories/Model/Expr.vok theories/Model/Expr.required_vos: theories/Model/Expr.v theories/Spec/BV.vos
theories/Proofs/BVLemmas.vo theories/Proofs/BVLemmas.glob theories/Proofs/BVLemmas.v.beautified theories/Proofs/BVLemmas.required_vo: theories/Proofs/BVLemmas.v theories/Spec/BV.vo
theories/Proofs/BVLemmas.vio: theories/Proofs/BVLemmas.v theories/Spec/BV.vio
theories/Proofs/BVLemmas.vos theories/Proofs/BVLemmas.vok theories/Proofs/BVLemmas.required_vos: theories/Proofs/BVLemmas.v theories/Spec/BV.vos
theories/Proofs/ContextDenotesProofs.vo theories/Proofs/ContextDenotesProofs.glob theories/Proofs/ContextDenotesProofs.v.beautified theories/Proofs/ContextDenotesProofs.required_vo: theories/Proofs/ContextDenotesProofs.v theories/Model/Context.vo theories/Model/ContextOracle.vo theories/Proofs/ContextProofs.vo theories/Proofs/ContextOracleProofs.vo
theories/Proofs/ContextDenotesProofs.vio: theories/Proofs/ContextDenotesProofs.v theories/Model/Context.vio theories/Model/ContextOracle.vio theories/Proofs/ContextProofs.vio theories/Proofs/ContextOracleProofs.vio
theories/Proofs/ContextDenotesProofs.vos theories/Proofs/ContextDenotesProofs.vok theories/Proofs/ContextDenotesProofs.required_vos: theories/Proofs/ContextDenotesProofs.v theories/Model/Context.vos theories/Model/ContextOracle.vos theories/Proofs/ContextProofs.vos theories/Proofs/ContextOracleProofs.vos
theories/Proofs/ContextOracleProofs.vo theories/Proofs/ContextOracleProofs.glob theories/Proofs/ContextOracleProofs.v.beautified theories/Proofs/ContextOracleProofs.required_vo: theories/Proofs/ContextOracleProofs.v theories/Model/Context.vo theories/Model/ContextOracle.vo theories/Proofs/ContextProofs.vo
theories/Proofs/ContextOracleProofs.vio: theories/Proofs/ContextOracleProofs.v theories/Model/Context.vio theories/Model/ContextOracle.vio theories/Proofs/ContextProofs.vio
theories/Proofs/ContextOracleProofs.vos theories/Proofs/ContextOracleProofs.vok theories/Proofs/ContextOracleProofs.required_vos: theories/Proofs/ContextOracleProofs.v theories/Model/Context.vos theories/Model/ContextOracle.vos theories/Proofs/ContextProofs.vos
theories/Proofs/ContextProofs.vo theories/Proofs/ContextProofs.glob theories/Proofs/ContextProofs.v.beautified theories/Proofs/ContextProofs.required_vo: theories/Proofs/ContextProofs.v theories/Model/Context.vo
theories/Proofs/ContextProofs.vio: theories/Proofs/ContextProofs.v theories/Model/Context.vio
theories/Proofs/ContextProofs.vos theories/Proofs/ContextProofs.vok theories/Proofs/ContextProofs.required_vos: theories/Proofs/ContextProofs.v theories/Model/Context.vos
theories/Proofs/ContextTreeProofs.vo theories/Proofs/ContextTreeProofs.glob theories/Proofs/ContextTreeProofs.v.beautified theories/Proofs/ContextTreeProofs.required_vo: theories/Proofs/ContextTreeProofs.v theories/Model/Expr.vo theories/Model/Context.vo theories/Model/ContextTree.vo theories/Proofs/ContextProofs.vo
theories/Proofs/ContextTreeProofs.vio: theories/Proofs/ContextTreeProofs.v theories/Model/Expr.vio theories/Model/Context.vio theories/Model/ContextTree.vio theories/Proofs/ContextProofs.vio
theories/Proofs/ContextTreeProofs.vos theories/Proofs/ContextTreeProofs.vok theories/Proofs/ContextTreeProofs.required_vos: theories/Proofs/ContextTreeProofs.v theories/Model/Expr.vos theories/Model/Context.vos theories/Model/ContextTree.vos theories/Proofs/ContextProofs.vos
theories/Proofs/EvalImplProofs.vo theories/Proofs/EvalImplProofs.glob theories/Proofs/EvalImplProofs.v.beautified theories/Proofs/EvalImplProofs.required_vo: theories/Proofs/EvalImplProofs.v theories/Model/EvalImpl.vo theories/Proofs/ExprLemmas.vo
theories/Proofs/EvalImplProofs.vio: theories/Proofs/EvalImplProofs.v theories/Model/EvalImpl.vio theories/Proofs/ExprLemmas.vio
theories/Proofs/EvalImplProofs.vos theories/Proofs/EvalImplProofs.vok theories/Proofs/EvalImplProofs.required_vos: theories/Proofs/EvalImplProofs.v theories/Model/EvalImpl.vos theories/Proofs/ExprLemmas.vos
theories/Proofs/EvalProofs.vo theories/Proofs/EvalProofs.glob theories/Proofs/EvalProofs.v.beautified theories/Proofs/EvalProofs.required_vo: theories/Proofs/EvalProofs.v theories/Spec/Eval.vo theories/Model/EvalImpl.vo theories/Proofs/BVLemmas.vo theories/Proofs/ExprLemmas.vo
theories/Proofs/EvalProofs.vio: theories/Proofs/EvalProofs.v theories/Spec/Eval.vio theories/Model/EvalImpl.vio theories/Proofs/BVLemmas.vio theories/Proofs/ExprLemmas.vio
theories/Proofs/EvalProofs.vos theories/Proofs/EvalProofs.vok theories/Proofs/EvalProofs.required_vos: theories/Proofs/EvalProofs.v theories/Spec/Eval.vos theories/Model/EvalImpl.vos theories/Proofs/BVLemmas.vos theories/Proofs/ExprLemmas.vos
theories/Proofs/ExprLemmas.vo theories/Proofs/ExprLemmas.glob theories/Proofs/ExprLemmas.v.beautified theories/Proofs/ExprLemmas.required_vo: theories/Proofs/ExprLemmas.v theories/Model/Expr.vo
theories/Proofs/ExprLemmas.vio: theories/Proofs/ExprLemmas.v theories/Model/Expr.vio
theories/Proofs/ExprLemmas.vos theories/Proofs/ExprLemmas.vok theories/Proofs/ExprLemmas.required_vos: theories/Proofs/ExprLemmas.v theories/Model/Expr.vos
theories/Props/C06.vo theories/Props/C06.glob theories/Props/C06.v.beautified theories/Props/C06.required_vo: theories/Props/C06.v theories/Model/EvalImpl.vo theories/Proofs/EvalProofs.vo theories/Proofs/EvalImplProofs.vo
theories/Props/C06.vio: theories/Props/C06.v theories/Model/EvalImpl.vio theories/Proofs/EvalProofs.vio theories/Proofs/EvalImplProofs.vio
theories/Props/C06.vos theories/Props/C06.vok theories/Props/C06.required_vos: theories/Props/C06.v theories/Model/EvalImpl.vos theories/Proofs/EvalProofs.vos theories/Proofs/EvalImplProofs.vos
theories/Props/C12.vo theories/Props/C12.glob theories/Props/C12.v.beautified theories/Props/C12.required_vo: theories/Props/C12.v theories/Model/Expr.vo theories/Model/Context.vo theories/Model/ContextOracle.vo theories/Model/ContextTree.vo theories/Proofs/ContextProofs.vo theories/Proofs/ContextOracleProofs.vo theories/Proofs/ContextDenotesProofs.vo theories/Proofs/ContextTreeProofs.vo
theories/Props/C12.vio: theories/Props/C12.v theories/Model/Expr.vio theories/Model/Context.vio theories/Model/ContextOracle.vio theories/Model/ContextTree.vio theories/Proofs/ContextProofs.vio theories/Proofs/ContextOracleProofs.vio theories/Proofs/ContextDenotesProofs.vio theories/Proofs/ContextTreeProofs.vio
theories/Props/C12.vos theories/Props/C12.vok theories/Props/C12.required_vos: theories/Props/C12.v theories/Model/Expr.vos theories/Model/Context.vos theories/Model/ContextOracle.vos theories/Model/ContextTree.vos theories/Proofs/ContextProofs.vos theories/Proofs/ContextOracleProofs.vos theories/Proofs/ContextDenotesProofs.vos theories/Proofs/ContextTreeProofs.vos
