theories/Spec/BV.vo theories/Spec/BV.glob theories/Spec/BV.v.beautified theories/Spec/BV.required_vo: theories/Spec/BV.v 
theories/Spec/BV.vio: theories/Spec/BV.v 
theories/Spec/BV.vos theories/Spec/BV.vok theories/Spec/BV.required_vos: theories/Spec/BV.v 
theories/Spec/Eval.vo theories/Spec/Eval.glob theories/Spec/Eval.v.beautified theories/Spec/Eval.required_vo: theories/Spec/Eval.v theories/Model/Expr.vo
theories/Spec/Eval.vio: theories/Spec/Eval.v theories/Model/Expr.vio
theories/Spec/Eval.vos theories/Spec/Eval.vok theories/Spec/Eval.required_vos: theories/Spec/Eval.v theories/Model/Expr.vos
theories/Spec/Smt.vo theories/Spec/Smt.glob theories/Spec/Smt.v.beautified theories/Spec/Smt.required_vo: theories/Spec/Smt.v theories/Spec/BV.vo
theories/Spec/Smt.vio: theories/Spec/Smt.v theories/Spec/BV.vio
theories/Spec/Smt.vos theories/Spec/Smt.vok theories/Spec/Smt.required_vos: theories/Spec/Smt.v theories/Spec/BV.vos
theories/Spec/System.vo theories/Spec/System.glob theories/Spec/System.v.beautified theories/Spec/System.required_vo: theories/Spec/System.v theories/Spec/Eval.vo
theories/Spec/System.vio: theories/Spec/System.v theories/Spec/Eval.vio
theories/Spec/System.vos theories/Spec/System.vok theories/Spec/System.required_vos: theories/Spec/System.v theories/Spec/Eval.vos
theories/Model/EvalImpl.vo theories/Model/EvalImpl.glob theories/Model/EvalImpl.v.beautified theories/Model/EvalImpl.required_vo: theories/Model/EvalImpl.v theories/Spec/Eval.vo
theories/Model/EvalImpl.vio: theories/Model/EvalImpl.v theories/Spec/Eval.vio
theories/Model/EvalImpl.vos theories/Model/EvalImpl.vok theories/Model/EvalImpl.required_vos: theories/Model/EvalImpl.v theories/Spec/Eval.vos
theories/Model/Expr.vo theories/Model/Expr.glob theories/Model/Expr.v.beautified theories/Model/Expr.required_vo: theories/Model/Expr.v theories/Spec/BV.vo
theories/Model/Expr.vio: theories/Model/Expr.v theories/Spec/BV.vio
theories/Model/Expr.vos theories/Model/Expr.vok theories/Model/Expr.required_vos: theories/Model/Expr.v theories/Spec/BV.vos
theories/Model/Simplify.vo theories/Model/Simplify.glob theories/Model/Simplify.v.beautified theories/Model/Simplify.required_vo: theories/Model/Simplify.v theories/Model/EvalImpl.vo
theories/Model/Simplify.vio: theories/Model/Simplify.v theories/Model/EvalImpl.vio
theories/Model/Simplify.vos theories/Model/Simplify.vok theories/Model/Simplify.required_vos: theories/Model/Simplify.v theories/Model/EvalImpl.vos
theories/Model/SmtLex.vo theories/Model/SmtLex.glob theories/Model/SmtLex.v.beautified theories/Model/SmtLex.required_vo: theories/Model/SmtLex.v theories/Spec/Smt.vo
theories/Model/SmtLex.vio: theories/Model/SmtLex.v theories/Spec/Smt.vio
theories/Model/SmtLex.vos theories/Model/SmtLex.vok theories/Model/SmtLex.required_vos: theories/Model/SmtLex.v theories/Spec/Smt.vos
theories/Model/SmtParse.vo theories/Model/SmtParse.glob theories/Model/SmtParse.v.beautified theories/Model/SmtParse.required_vo: theories/Model/SmtParse.v theories/Model/Expr.vo theories/Model/SmtLex.vo theories/Model/SmtSer.vo
theories/Model/SmtParse.vio: theories/Model/SmtParse.v theories/Model/Expr.vio theories/Model/SmtLex.vio theories/Model/SmtSer.vio
theories/Model/SmtParse.vos theories/Model/SmtParse.vok theories/Model/SmtParse.required_vos: theories/Model/SmtParse.v theories/Model/Expr.vos theories/Model/SmtLex.vos theories/Model/SmtSer.vos
theories/Model/SmtSer.vo theories/Model/SmtSer.glob theories/Model/SmtSer.v.beautified theories/Model/SmtSer.required_vo: theories/Model/SmtSer.v theories/Model/Expr.vo theories/Spec/Smt.vo theories/Model/EvalImpl.vo
theories/Model/SmtSer.vio: theories/Model/SmtSer.v theories/Model/Expr.vio theories/Spec/Smt.vio theories/Model/EvalImpl.vio
theories/Model/SmtSer.vos theories/Model/SmtSer.vok theories/Model/SmtSer.required_vos: theories/Model/SmtSer.v theories/Model/Expr.vos theories/Spec/Smt.vos theories/Model/EvalImpl.vos
theories/Proofs/BVLemmas.vo theories/Proofs/BVLemmas.glob theories/Proofs/BVLemmas.v.beautified theories/Proofs/BVLemmas.required_vo: theories/Proofs/BVLemmas.v theories/Spec/BV.vo
theories/Proofs/BVLemmas.vio: theories/Proofs/BVLemmas.v theories/Spec/BV.vio
theories/Proofs/BVLemmas.vos theories/Proofs/BVLemmas.vok theories/Proofs/BVLemmas.required_vos: theories/Proofs/BVLemmas.v theories/Spec/BV.vos
theories/Proofs/EvalImplProofs.vo theories/Proofs/EvalImplProofs.glob theories/Proofs/EvalImplProofs.v.beautified theories/Proofs/EvalImplProofs.required_vo: theories/Proofs/EvalImplProofs.v theories/Model/EvalImpl.vo theories/Proofs/ExprLemmas.vo
theories/Proofs/EvalImplProofs.vio: theories/Proofs/EvalImplProofs.v theories/Model/EvalImpl.vio theories/Proofs/ExprLemmas.vio
theories/Proofs/EvalImplProofs.vos theories/Proofs/EvalImplProofs.vok theories/Proofs/EvalImplProofs.required_vos: theories/Proofs/EvalImplProofs.v theories/Model/EvalImpl.vos theories/Proofs/ExprLemmas.vos
theories/Proofs/EvalProofs.vo theories/Proofs/EvalProofs.glob theories/Proofs/EvalProofs.v.beautified theories/Proofs/EvalProofs.required_vo: theories/Proofs/EvalProofs.v theories/Spec/Eval.vo theories/Model/EvalImpl.vo theories/Proofs/BVLemmas.vo theories/Proofs/ExprLemmas.vo
theories/Proofs/EvalProofs.vio: theories/Proofs/EvalProofs.v theories/Spec/Eval.vio theories/Model/EvalImpl.vio theories/Proofs/BVLemmas.vio theories/Proofs/ExprLemmas.vio
theories/Proofs/EvalProofs.vos theories/Proofs/EvalProofs.vok theories/Proofs/EvalProofs.required_vos: theories/Proofs/EvalProofs.v theories/Spec/Eval.vos theories/Model/EvalImpl.vos theories/Proofs/BVLemmas.vos theories/Proofs/ExprLemmas.vos
theories/Proofs/ExprLemmas.vo theories/Proofs/ExprLemmas.glob theories/Proofs/ExprLemmas.v.beautified theories/Proofs/ExprLemmas.required_vo: theories/Proofs/ExprLemmas.v theories/Model/Expr.vo
theories/Proofs/ExprLemmas.vio: theories/Proofs/ExprLemmas.v theories/Model/Expr.vio
theories/Proofs/ExprLemmas.vos theories/Proofs/ExprLemmas.vok theories/Proofs/ExprLemmas.required_vos: theories/Proofs/ExprLemmas.v theories/Model/Expr.vos
theories/Proofs/SmtCharLemmas.vo theories/Proofs/SmtCharLemmas.glob theories/Proofs/SmtCharLemmas.v.beautified theories/Proofs/SmtCharLemmas.required_vo: theories/Proofs/SmtCharLemmas.v theories/Model/SmtSer.vo
theories/Proofs/SmtCharLemmas.vio: theories/Proofs/SmtCharLemmas.v theories/Model/SmtSer.vio
theories/Proofs/SmtCharLemmas.vos theories/Proofs/SmtCharLemmas.vok theories/Proofs/SmtCharLemmas.required_vos: theories/Proofs/SmtCharLemmas.v theories/Model/SmtSer.vos
theories/Proofs/SmtCmdProofs.vo theories/Proofs/SmtCmdProofs.glob theories/Proofs/SmtCmdProofs.v.beautified theories/Proofs/SmtCmdProofs.required_vo: theories/Proofs/SmtCmdProofs.v theories/Model/SmtSer.vo theories/Proofs/BVLemmas.vo theories/Proofs/ExprLemmas.vo theories/Proofs/EvalProofs.vo theories/Proofs/SmtCharLemmas.vo theories/Proofs/SmtSerLemmas.vo theories/Proofs/SmtSemLemmas.vo theories/Proofs/SmtSerProofs.vo
theories/Proofs/SmtCmdProofs.vio: theories/Proofs/SmtCmdProofs.v theories/Model/SmtSer.vio theories/Proofs/BVLemmas.vio theories/Proofs/ExprLemmas.vio theories/Proofs/EvalProofs.vio theories/Proofs/SmtCharLemmas.vio theories/Proofs/SmtSerLemmas.vio theories/Proofs/SmtSemLemmas.vio theories/Proofs/SmtSerProofs.vio
theories/Proofs/SmtCmdProofs.vos theories/Proofs/SmtCmdProofs.vok theories/Proofs/SmtCmdProofs.required_vos: theories/Proofs/SmtCmdProofs.v theories/Model/SmtSer.vos theories/Proofs/BVLemmas.vos theories/Proofs/ExprLemmas.vos theories/Proofs/EvalProofs.vos theories/Proofs/SmtCharLemmas.vos theories/Proofs/SmtSerLemmas.vos theories/Proofs/SmtSemLemmas.vos theories/Proofs/SmtSerProofs.vos
theories/Proofs/SmtSemLemmas.vo theories/Proofs/SmtSemLemmas.glob theories/Proofs/SmtSemLemmas.v.beautified theories/Proofs/SmtSemLemmas.required_vo: theories/Proofs/SmtSemLemmas.v theories/Model/SmtSer.vo theories/Proofs/BVLemmas.vo theories/Proofs/SmtSerLemmas.vo
theories/Proofs/SmtSemLemmas.vio: theories/Proofs/SmtSemLemmas.v theories/Model/SmtSer.vio theories/Proofs/BVLemmas.vio theories/Proofs/SmtSerLemmas.vio
theories/Proofs/SmtSemLemmas.vos theories/Proofs/SmtSemLemmas.vok theories/Proofs/SmtSemLemmas.required_vos: theories/Proofs/SmtSemLemmas.v theories/Model/SmtSer.vos theories/Proofs/BVLemmas.vos theories/Proofs/SmtSerLemmas.vos
theories/Proofs/SmtSerLemmas.vo theories/Proofs/SmtSerLemmas.glob theories/Proofs/SmtSerLemmas.v.beautified theories/Proofs/SmtSerLemmas.required_vo: theories/Proofs/SmtSerLemmas.v theories/Model/SmtSer.vo theories/Proofs/BVLemmas.vo theories/Proofs/SmtCharLemmas.vo
theories/Proofs/SmtSerLemmas.vio: theories/Proofs/SmtSerLemmas.v theories/Model/SmtSer.vio theories/Proofs/BVLemmas.vio theories/Proofs/SmtCharLemmas.vio
theories/Proofs/SmtSerLemmas.vos theories/Proofs/SmtSerLemmas.vok theories/Proofs/SmtSerLemmas.required_vos: theories/Proofs/SmtSerLemmas.v theories/Model/SmtSer.vos theories/Proofs/BVLemmas.vos theories/Proofs/SmtCharLemmas.vos
theories/Proofs/SmtSerProofs.vo theories/Proofs/SmtSerProofs.glob theories/Proofs/SmtSerProofs.v.beautified theories/Proofs/SmtSerProofs.required_vo: theories/Proofs/SmtSerProofs.v theories/Model/SmtSer.vo theories/Proofs/BVLemmas.vo theories/Proofs/ExprLemmas.vo theories/Proofs/EvalProofs.vo theories/Proofs/SmtCharLemmas.vo theories/Proofs/SmtSerLemmas.vo theories/Proofs/SmtSemLemmas.vo
theories/Proofs/SmtSerProofs.vio: theories/Proofs/SmtSerProofs.v theories/Model/SmtSer.vio theories/Proofs/BVLemmas.vio theories/Proofs/ExprLemmas.vio theories/Proofs/EvalProofs.vio theories/Proofs/SmtCharLemmas.vio theories/Proofs/SmtSerLemmas.vio theories/Proofs/SmtSemLemmas.vio
theories/Proofs/SmtSerProofs.vos theories/Proofs/SmtSerProofs.vok theories/Proofs/SmtSerProofs.required_vos: theories/Proofs/SmtSerProofs.v theories/Model/SmtSer.vos theories/Proofs/BVLemmas.vos theories/Proofs/ExprLemmas.vos theories/Proofs/EvalProofs.vos theories/Proofs/SmtCharLemmas.vos theories/Proofs/SmtSerLemmas.vos theories/Proofs/SmtSemLemmas.vos
theories/Props/C05.vo theories/Props/C05.glob theories/Props/C05.v.beautified theories/Props/C05.required_vo: theories/Props/C05.v theories/Model/SmtSer.vo theories/Proofs/SmtSerLemmas.vo theories/Proofs/SmtSemLemmas.vo theories/Proofs/SmtSerProofs.vo theories/Proofs/SmtCmdProofs.vo
theories/Props/C05.vio: theories/Props/C05.v theories/Model/SmtSer.vio theories/Proofs/SmtSerLemmas.vio theories/Proofs/SmtSemLemmas.vio theories/Proofs/SmtSerProofs.vio theories/Proofs/SmtCmdProofs.vio
theories/Props/C05.vos theories/Props/C05.vok theories/Props/C05.required_vos: theories/Props/C05.v theories/Model/SmtSer.vos theories/Proofs/SmtSerLemmas.vos theories/Proofs/SmtSemLemmas.vos theories/Proofs/SmtSerProofs.vos theories/Proofs/SmtCmdProofs.vos
theories/Props/C06.vo theories/Props/C06.glob theories/Props/C06.v.beautified theories/Props/C06.required_vo: theories/Props/C06.v theories/Model/EvalImpl.vo theories/Proofs/EvalProofs.vo theories/Proofs/EvalImplProofs.vo
theories/Props/C06.vio: theories/Props/C06.v theories/Model/EvalImpl.vio theories/Proofs/EvalProofs.vio theories/Proofs/EvalImplProofs.vio
theories/Props/C06.vos theories/Props/C06.vok theories/Props/C06.required_vos: theories/Props/C06.v theories/Model/EvalImpl.vos theories/Proofs/EvalProofs.vos theories/Proofs/EvalImplProofs.vos
