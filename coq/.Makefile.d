theories/Spec/BV.vo theories/Spec/BV.glob theories/Spec/BV.v.beautified theories/Spec/BV.required_vo: theories/Spec/BV.v 
theories/Spec/BV.vio: theories/Spec/BV.v 
theories/Spec/BV.vos theories/Spec/BV.vok theories/Spec/BV.required_vos: theories/Spec/BV.v 
theories/Spec/Eval.vo theories/Spec/Eval.glob theories/Spec/Eval.v.beautified theories/Spec/Eval.required_vo: theories/Spec/Eval.v theories/Model/Expr.vo
theories/Spec/Eval.vio: theories/Spec/Eval.v theories/Model/Expr.vio
theories/Spec/Eval.vos theories/Spec/Eval.vok theories/Spec/Eval.required_vos: theories/Spec/Eval.v theories/Model/Expr.vos
theories/Spec/GuardSem.vo theories/Spec/GuardSem.glob theories/Spec/GuardSem.v.beautified theories/Spec/GuardSem.required_vo: theories/Spec/GuardSem.v theories/Model/ValueSummary.vo
theories/Spec/GuardSem.vio: theories/Spec/GuardSem.v theories/Model/ValueSummary.vio
theories/Spec/GuardSem.vos theories/Spec/GuardSem.vok theories/Spec/GuardSem.required_vos: theories/Spec/GuardSem.v theories/Model/ValueSummary.vos
theories/Spec/System.vo theories/Spec/System.glob theories/Spec/System.v.beautified theories/Spec/System.required_vo: theories/Spec/System.v theories/Spec/Eval.vo
theories/Spec/System.vio: theories/Spec/System.v theories/Spec/Eval.vio
theories/Spec/System.vos theories/Spec/System.vok theories/Spec/System.required_vos: theories/Spec/System.v theories/Spec/Eval.vos
theories/Model/EvalImpl.vo theories/Model/EvalImpl.glob theories/Model/EvalImpl.v.beautified theories/Model/EvalImpl.required_vo: theories/Model/EvalImpl.v theories/Spec/Eval.vo
theories/Model/EvalImpl.vio: theories/Model/EvalImpl.v theories/Spec/Eval.vio
theories/Model/EvalImpl.vos theories/Model/EvalImpl.vok theories/Model/EvalImpl.required_vos: theories/Model/EvalImpl.v theories/Spec/Eval.vos
theories/Model/Expr.vo theories/Model/Expr.glob theories/Model/Expr.v.beautified theories/Model/Expr.required_vo: theories/Model/Expr.v theories/Spec/BV.vo
theories/Model/Expr.vio: theories/Model/Expr.v theories/Spec/BV.vio
theories/Model/Expr.vos theories/Model/Expr.vok theories/Model/Expr.required_vos: theories/Model/Expr.v theories/Spec/BV.vos
theories/Model/ValueSummary.vo theories/Model/ValueSummary.glob theories/Model/ValueSummary.v.beautified theories/Model/ValueSummary.required_vo: theories/Model/ValueSummary.v theories/Spec/Eval.vo theories/Model/EvalImpl.vo
theories/Model/ValueSummary.vio: theories/Model/ValueSummary.v theories/Spec/Eval.vio theories/Model/EvalImpl.vio
theories/Model/ValueSummary.vos theories/Model/ValueSummary.vok theories/Model/ValueSummary.required_vos: theories/Model/ValueSummary.v theories/Spec/Eval.vos theories/Model/EvalImpl.vos
theories/Proofs/BVLemmas.vo theories/Proofs/BVLemmas.glob theories/Proofs/BVLemmas.v.beautified theories/Proofs/BVLemmas.required_vo: theories/Proofs/BVLemmas.v theories/Spec/BV.vo
theories/Proofs/BVLemmas.vio: theories/Proofs/BVLemmas.v theories/Spec/BV.vio
theories/Proofs/BVLemmas.vos theories/Proofs/BVLemmas.vok theories/Proofs/BVLemmas.required_vos: theories/Proofs/BVLemmas.v theories/Spec/BV.vos
theories/Proofs/BddCanonProofs.vo theories/Proofs/BddCanonProofs.glob theories/Proofs/BddCanonProofs.v.beautified theories/Proofs/BddCanonProofs.required_vo: theories/Proofs/BddCanonProofs.v theories/Spec/GuardSem.vo theories/Proofs/BddProofs.vo theories/Proofs/GuardProofs.vo theories/Proofs/SummaryProofs.vo theories/Proofs/CoalesceProofs.vo theories/Proofs/IteImportProofs.vo theories/Proofs/HistoryProofs.vo
theories/Proofs/BddCanonProofs.vio: theories/Proofs/BddCanonProofs.v theories/Spec/GuardSem.vio theories/Proofs/BddProofs.vio theories/Proofs/GuardProofs.vio theories/Proofs/SummaryProofs.vio theories/Proofs/CoalesceProofs.vio theories/Proofs/IteImportProofs.vio theories/Proofs/HistoryProofs.vio
theories/Proofs/BddCanonProofs.vos theories/Proofs/BddCanonProofs.vok theories/Proofs/BddCanonProofs.required_vos: theories/Proofs/BddCanonProofs.v theories/Spec/GuardSem.vos theories/Proofs/BddProofs.vos theories/Proofs/GuardProofs.vos theories/Proofs/SummaryProofs.vos theories/Proofs/CoalesceProofs.vos theories/Proofs/IteImportProofs.vos theories/Proofs/HistoryProofs.vos
theories/Proofs/BddProofs.vo theories/Proofs/BddProofs.glob theories/Proofs/BddProofs.v.beautified theories/Proofs/BddProofs.required_vo: theories/Proofs/BddProofs.v theories/Spec/GuardSem.vo
theories/Proofs/BddProofs.vio: theories/Proofs/BddProofs.v theories/Spec/GuardSem.vio
theories/Proofs/BddProofs.vos theories/Proofs/BddProofs.vok theories/Proofs/BddProofs.required_vos: theories/Proofs/BddProofs.v theories/Spec/GuardSem.vos
theories/Proofs/CoalesceProofs.vo theories/Proofs/CoalesceProofs.glob theories/Proofs/CoalesceProofs.v.beautified theories/Proofs/CoalesceProofs.required_vo: theories/Proofs/CoalesceProofs.v theories/Spec/GuardSem.vo theories/Proofs/BddProofs.vo theories/Proofs/GuardProofs.vo theories/Proofs/SummaryProofs.vo
theories/Proofs/CoalesceProofs.vio: theories/Proofs/CoalesceProofs.v theories/Spec/GuardSem.vio theories/Proofs/BddProofs.vio theories/Proofs/GuardProofs.vio theories/Proofs/SummaryProofs.vio
theories/Proofs/CoalesceProofs.vos theories/Proofs/CoalesceProofs.vok theories/Proofs/CoalesceProofs.required_vos: theories/Proofs/CoalesceProofs.v theories/Spec/GuardSem.vos theories/Proofs/BddProofs.vos theories/Proofs/GuardProofs.vos theories/Proofs/SummaryProofs.vos
theories/Proofs/EvalImplProofs.vo theories/Proofs/EvalImplProofs.glob theories/Proofs/EvalImplProofs.v.beautified theories/Proofs/EvalImplProofs.required_vo: theories/Proofs/EvalImplProofs.v theories/Model/EvalImpl.vo theories/Proofs/ExprLemmas.vo
theories/Proofs/EvalImplProofs.vio: theories/Proofs/EvalImplProofs.v theories/Model/EvalImpl.vio theories/Proofs/ExprLemmas.vio
theories/Proofs/EvalImplProofs.vos theories/Proofs/EvalImplProofs.vok theories/Proofs/EvalImplProofs.required_vos: theories/Proofs/EvalImplProofs.v theories/Model/EvalImpl.vos theories/Proofs/ExprLemmas.vos
theories/Proofs/EvalProofs.vo theories/Proofs/EvalProofs.glob theories/Proofs/EvalProofs.v.beautified theories/Proofs/EvalProofs.required_vo: theories/Proofs/EvalProofs.v theories/Spec/Eval.vo theories/Model/EvalImpl.vo theories/Proofs/BVLemmas.vo theories/Proofs/ExprLemmas.vo
theories/Proofs/EvalProofs.vio: theories/Proofs/EvalProofs.v theories/Spec/Eval.vio theories/Model/EvalImpl.vio theories/Proofs/BVLemmas.vio theories/Proofs/ExprLemmas.vio
theories/Proofs/EvalProofs.vos theories/Proofs/EvalProofs.vok theories/Proofs/EvalProofs.required_vos: theories/Proofs/EvalProofs.v theories/Spec/Eval.vos theories/Model/EvalImpl.vos theories/Proofs/BVLemmas.vos theories/Proofs/ExprLemmas.vos
theories/Proofs/ExprLemmas.vo theories/Proofs/ExprLemmas.glob theories/Proofs/ExprLemmas.v.beautified theories/Proofs/ExprLemmas.required_vo: theories/Proofs/ExprLemmas.v theories/Model/Expr.vo
theories/Proofs/ExprLemmas.vio: theories/Proofs/ExprLemmas.v theories/Model/Expr.vio
theories/Proofs/ExprLemmas.vos theories/Proofs/ExprLemmas.vok theories/Proofs/ExprLemmas.required_vos: theories/Proofs/ExprLemmas.v theories/Model/Expr.vos
theories/Proofs/GuardProofs.vo theories/Proofs/GuardProofs.glob theories/Proofs/GuardProofs.v.beautified theories/Proofs/GuardProofs.required_vo: theories/Proofs/GuardProofs.v theories/Spec/GuardSem.vo theories/Proofs/BddProofs.vo theories/Proofs/BVLemmas.vo theories/Proofs/ExprLemmas.vo theories/Proofs/EvalProofs.vo
theories/Proofs/GuardProofs.vio: theories/Proofs/GuardProofs.v theories/Spec/GuardSem.vio theories/Proofs/BddProofs.vio theories/Proofs/BVLemmas.vio theories/Proofs/ExprLemmas.vio theories/Proofs/EvalProofs.vio
theories/Proofs/GuardProofs.vos theories/Proofs/GuardProofs.vok theories/Proofs/GuardProofs.required_vos: theories/Proofs/GuardProofs.v theories/Spec/GuardSem.vos theories/Proofs/BddProofs.vos theories/Proofs/BVLemmas.vos theories/Proofs/ExprLemmas.vos theories/Proofs/EvalProofs.vos
theories/Proofs/HistoryProofs.vo theories/Proofs/HistoryProofs.glob theories/Proofs/HistoryProofs.v.beautified theories/Proofs/HistoryProofs.required_vo: theories/Proofs/HistoryProofs.v theories/Spec/GuardSem.vo theories/Proofs/BddProofs.vo theories/Proofs/GuardProofs.vo theories/Proofs/SummaryProofs.vo theories/Proofs/CoalesceProofs.vo theories/Proofs/IteImportProofs.vo
theories/Proofs/HistoryProofs.vio: theories/Proofs/HistoryProofs.v theories/Spec/GuardSem.vio theories/Proofs/BddProofs.vio theories/Proofs/GuardProofs.vio theories/Proofs/SummaryProofs.vio theories/Proofs/CoalesceProofs.vio theories/Proofs/IteImportProofs.vio
theories/Proofs/HistoryProofs.vos theories/Proofs/HistoryProofs.vok theories/Proofs/HistoryProofs.required_vos: theories/Proofs/HistoryProofs.v theories/Spec/GuardSem.vos theories/Proofs/BddProofs.vos theories/Proofs/GuardProofs.vos theories/Proofs/SummaryProofs.vos theories/Proofs/CoalesceProofs.vos theories/Proofs/IteImportProofs.vos
theories/Proofs/IteImportProofs.vo theories/Proofs/IteImportProofs.glob theories/Proofs/IteImportProofs.v.beautified theories/Proofs/IteImportProofs.required_vo: theories/Proofs/IteImportProofs.v theories/Spec/GuardSem.vo theories/Proofs/BddProofs.vo theories/Proofs/GuardProofs.vo theories/Proofs/SummaryProofs.vo
theories/Proofs/IteImportProofs.vio: theories/Proofs/IteImportProofs.v theories/Spec/GuardSem.vio theories/Proofs/BddProofs.vio theories/Proofs/GuardProofs.vio theories/Proofs/SummaryProofs.vio
theories/Proofs/IteImportProofs.vos theories/Proofs/IteImportProofs.vok theories/Proofs/IteImportProofs.required_vos: theories/Proofs/IteImportProofs.v theories/Spec/GuardSem.vos theories/Proofs/BddProofs.vos theories/Proofs/GuardProofs.vos theories/Proofs/SummaryProofs.vos
theories/Proofs/SummaryProofs.vo theories/Proofs/SummaryProofs.glob theories/Proofs/SummaryProofs.v.beautified theories/Proofs/SummaryProofs.required_vo: theories/Proofs/SummaryProofs.v theories/Spec/GuardSem.vo theories/Proofs/BddProofs.vo theories/Proofs/GuardProofs.vo
theories/Proofs/SummaryProofs.vio: theories/Proofs/SummaryProofs.v theories/Spec/GuardSem.vio theories/Proofs/BddProofs.vio theories/Proofs/GuardProofs.vio
theories/Proofs/SummaryProofs.vos theories/Proofs/SummaryProofs.vok theories/Proofs/SummaryProofs.required_vos: theories/Proofs/SummaryProofs.v theories/Spec/GuardSem.vos theories/Proofs/BddProofs.vos theories/Proofs/GuardProofs.vos
theories/Props/C06.vo theories/Props/C06.glob theories/Props/C06.v.beautified theories/Props/C06.required_vo: theories/Props/C06.v theories/Model/EvalImpl.vo theories/Proofs/EvalProofs.vo theories/Proofs/EvalImplProofs.vo
theories/Props/C06.vio: theories/Props/C06.v theories/Model/EvalImpl.vio theories/Proofs/EvalProofs.vio theories/Proofs/EvalImplProofs.vio
theories/Props/C06.vos theories/Props/C06.vok theories/Props/C06.required_vos: theories/Props/C06.v theories/Model/EvalImpl.vos theories/Proofs/EvalProofs.vos theories/Proofs/EvalImplProofs.vos
theories/Props/C20.vo theories/Props/C20.glob theories/Props/C20.v.beautified theories/Props/C20.required_vo: theories/Props/C20.v theories/Spec/GuardSem.vo theories/Proofs/BddProofs.vo theories/Proofs/GuardProofs.vo theories/Proofs/SummaryProofs.vo theories/Proofs/CoalesceProofs.vo theories/Proofs/IteImportProofs.vo theories/Proofs/HistoryProofs.vo theories/Proofs/BddCanonProofs.vo
theories/Props/C20.vio: theories/Props/C20.v theories/Spec/GuardSem.vio theories/Proofs/BddProofs.vio theories/Proofs/GuardProofs.vio theories/Proofs/SummaryProofs.vio theories/Proofs/CoalesceProofs.vio theories/Proofs/IteImportProofs.vio theories/Proofs/HistoryProofs.vio theories/Proofs/BddCanonProofs.vio
theories/Props/C20.vos theories/Props/C20.vok theories/Props/C20.required_vos: theories/Props/C20.v theories/Spec/GuardSem.vos theories/Proofs/BddProofs.vos theories/Proofs/GuardProofs.vos theories/Proofs/SummaryProofs.vos theories/Proofs/CoalesceProofs.vos theories/Proofs/IteImportProofs.vos theories/Proofs/HistoryProofs.vos theories/Proofs/BddCanonProofs.vos
