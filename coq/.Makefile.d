theories/Spec/BV.vo theories/Spec/BV.glob theories/Spec/BV.v.beautified theories/Spec/BV.required_vo: theories/Spec/BV.v 
theories/Spec/BV.vio: theories/Spec/BV.v 
theories/Spec/BV.vos theories/Spec/BV.vok theories/Spec/BV.required_vos: theories/Spec/BV.v 
theories/Spec/Btor2Sem.vo theories/Spec/Btor2Sem.glob theories/Spec/Btor2Sem.v.beautified theories/Spec/Btor2Sem.required_vo: theories/Spec/Btor2Sem.v theories/Spec/Eval.vo theories/Model/Btor2Parse.vo
theories/Spec/Btor2Sem.vio: theories/Spec/Btor2Sem.v theories/Spec/Eval.vio theories/Model/Btor2Parse.vio
theories/Spec/Btor2Sem.vos theories/Spec/Btor2Sem.vok theories/Spec/Btor2Sem.required_vos: theories/Spec/Btor2Sem.v theories/Spec/Eval.vos theories/Model/Btor2Parse.vos
theories/Spec/Eval.vo theories/Spec/Eval.glob theories/Spec/Eval.v.beautified theories/Spec/Eval.required_vo: theories/Spec/Eval.v theories/Model/Expr.vo
theories/Spec/Eval.vio: theories/Spec/Eval.v theories/Model/Expr.vio
theories/Spec/Eval.vos theories/Spec/Eval.vok theories/Spec/Eval.required_vos: theories/Spec/Eval.v theories/Model/Expr.vos
theories/Spec/SysClosed.vo theories/Spec/SysClosed.glob theories/Spec/SysClosed.v.beautified theories/Spec/SysClosed.required_vo: theories/Spec/SysClosed.v theories/Spec/System.vo
theories/Spec/SysClosed.vio: theories/Spec/SysClosed.v theories/Spec/System.vio
theories/Spec/SysClosed.vos theories/Spec/SysClosed.vok theories/Spec/SysClosed.required_vos: theories/Spec/SysClosed.v theories/Spec/System.vos
theories/Spec/System.vo theories/Spec/System.glob theories/Spec/System.v.beautified theories/Spec/System.required_vo: theories/Spec/System.v theories/Spec/Eval.vo
theories/Spec/System.vio: theories/Spec/System.v theories/Spec/Eval.vio
theories/Spec/System.vos theories/Spec/System.vok theories/Spec/System.required_vos: theories/Spec/System.v theories/Spec/Eval.vos
theories/Model/Btor2Parse.vo theories/Model/Btor2Parse.glob theories/Model/Btor2Parse.v.beautified theories/Model/Btor2Parse.required_vo: theories/Model/Btor2Parse.v theories/Spec/System.vo
theories/Model/Btor2Parse.vio: theories/Model/Btor2Parse.v theories/Spec/System.vio
theories/Model/Btor2Parse.vos theories/Model/Btor2Parse.vok theories/Model/Btor2Parse.required_vos: theories/Model/Btor2Parse.v theories/Spec/System.vos
theories/Model/EvalImpl.vo theories/Model/EvalImpl.glob theories/Model/EvalImpl.v.beautified theories/Model/EvalImpl.required_vo: theories/Model/EvalImpl.v theories/Spec/Eval.vo
theories/Model/EvalImpl.vio: theories/Model/EvalImpl.v theories/Spec/Eval.vio
theories/Model/EvalImpl.vos theories/Model/EvalImpl.vok theories/Model/EvalImpl.required_vos: theories/Model/EvalImpl.v theories/Spec/Eval.vos
theories/Model/Expr.vo theories/Model/Expr.glob theories/Model/Expr.v.beautified theories/Model/Expr.required_vo: theories/Model/Expr.v theories/Spec/BV.vo
theories/Model/Expr.vio: theories/Model/Expr.v theories/Spec/BV.vio
theories/Model/Expr.vos theories/Model/Expr.vok theories/Model/Expr.required_vos: theories/Model/Expr.v theories/Spec/BV.vos
theories/Model/Simplify.vo theories/Model/Simplify.glob theories/Model/Simplify.v.beautified theories/Model/Simplify.required_vo: theories/Model/Simplify.v theories/Model/EvalImpl.vo
theories/Model/Simplify.vio: theories/Model/Simplify.v theories/Model/EvalImpl.vio
theories/Model/Simplify.vos theories/Model/Simplify.vok theories/Model/Simplify.required_vos: theories/Model/Simplify.v theories/Model/EvalImpl.vos
theories/Proofs/BVLemmas.vo theories/Proofs/BVLemmas.glob theories/Proofs/BVLemmas.v.beautified theories/Proofs/BVLemmas.required_vo: theories/Proofs/BVLemmas.v theories/Spec/BV.vo
theories/Proofs/BVLemmas.vio: theories/Proofs/BVLemmas.v theories/Spec/BV.vio
theories/Proofs/BVLemmas.vos theories/Proofs/BVLemmas.vok theories/Proofs/BVLemmas.required_vos: theories/Proofs/BVLemmas.v theories/Spec/BV.vos
theories/Proofs/Btor2ExprFacts.vo theories/Proofs/Btor2ExprFacts.glob theories/Proofs/Btor2ExprFacts.v.beautified theories/Proofs/Btor2ExprFacts.required_vo: theories/Proofs/Btor2ExprFacts.v theories/Model/Expr.vo theories/Proofs/ExprLemmas.vo theories/Spec/SysClosed.vo theories/Model/Btor2Parse.vo
theories/Proofs/Btor2ExprFacts.vio: theories/Proofs/Btor2ExprFacts.v theories/Model/Expr.vio theories/Proofs/ExprLemmas.vio theories/Spec/SysClosed.vio theories/Model/Btor2Parse.vio
theories/Proofs/Btor2ExprFacts.vos theories/Proofs/Btor2ExprFacts.vok theories/Proofs/Btor2ExprFacts.required_vos: theories/Proofs/Btor2ExprFacts.v theories/Model/Expr.vos theories/Proofs/ExprLemmas.vos theories/Spec/SysClosed.vos theories/Model/Btor2Parse.vos
theories/Proofs/Btor2NoCrash.vo theories/Proofs/Btor2NoCrash.glob theories/Proofs/Btor2NoCrash.v.beautified theories/Proofs/Btor2NoCrash.required_vo: theories/Proofs/Btor2NoCrash.v theories/Model/Expr.vo theories/Proofs/ExprLemmas.vo theories/Spec/SysClosed.vo theories/Model/Btor2Parse.vo theories/Proofs/Btor2ExprFacts.vo theories/Proofs/Btor2ParseProofs.vo theories/Proofs/Btor2Refine.vo
theories/Proofs/Btor2NoCrash.vio: theories/Proofs/Btor2NoCrash.v theories/Model/Expr.vio theories/Proofs/ExprLemmas.vio theories/Spec/SysClosed.vio theories/Model/Btor2Parse.vio theories/Proofs/Btor2ExprFacts.vio theories/Proofs/Btor2ParseProofs.vio theories/Proofs/Btor2Refine.vio
theories/Proofs/Btor2NoCrash.vos theories/Proofs/Btor2NoCrash.vok theories/Proofs/Btor2NoCrash.required_vos: theories/Proofs/Btor2NoCrash.v theories/Model/Expr.vos theories/Proofs/ExprLemmas.vos theories/Spec/SysClosed.vos theories/Model/Btor2Parse.vos theories/Proofs/Btor2ExprFacts.vos theories/Proofs/Btor2ParseProofs.vos theories/Proofs/Btor2Refine.vos
theories/Proofs/Btor2ParseProofs.vo theories/Proofs/Btor2ParseProofs.glob theories/Proofs/Btor2ParseProofs.v.beautified theories/Proofs/Btor2ParseProofs.required_vo: theories/Proofs/Btor2ParseProofs.v theories/Model/Expr.vo theories/Proofs/ExprLemmas.vo theories/Spec/SysClosed.vo theories/Model/Btor2Parse.vo theories/Proofs/Btor2ExprFacts.vo
theories/Proofs/Btor2ParseProofs.vio: theories/Proofs/Btor2ParseProofs.v theories/Model/Expr.vio theories/Proofs/ExprLemmas.vio theories/Spec/SysClosed.vio theories/Model/Btor2Parse.vio theories/Proofs/Btor2ExprFacts.vio
theories/Proofs/Btor2ParseProofs.vos theories/Proofs/Btor2ParseProofs.vok theories/Proofs/Btor2ParseProofs.required_vos: theories/Proofs/Btor2ParseProofs.v theories/Model/Expr.vos theories/Proofs/ExprLemmas.vos theories/Spec/SysClosed.vos theories/Model/Btor2Parse.vos theories/Proofs/Btor2ExprFacts.vos
theories/Proofs/Btor2Refine.vo theories/Proofs/Btor2Refine.glob theories/Proofs/Btor2Refine.v.beautified theories/Proofs/Btor2Refine.required_vo: theories/Proofs/Btor2Refine.v theories/Model/Expr.vo theories/Model/Btor2Parse.vo
theories/Proofs/Btor2Refine.vio: theories/Proofs/Btor2Refine.v theories/Model/Expr.vio theories/Model/Btor2Parse.vio
theories/Proofs/Btor2Refine.vos theories/Proofs/Btor2Refine.vok theories/Proofs/Btor2Refine.required_vos: theories/Proofs/Btor2Refine.v theories/Model/Expr.vos theories/Model/Btor2Parse.vos
theories/Proofs/Btor2SemWitness.vo theories/Proofs/Btor2SemWitness.glob theories/Proofs/Btor2SemWitness.v.beautified theories/Proofs/Btor2SemWitness.required_vo: theories/Proofs/Btor2SemWitness.v theories/Model/Btor2Parse.vo theories/Spec/Btor2Sem.vo theories/Proofs/Btor2Witness.vo
theories/Proofs/Btor2SemWitness.vio: theories/Proofs/Btor2SemWitness.v theories/Model/Btor2Parse.vio theories/Spec/Btor2Sem.vio theories/Proofs/Btor2Witness.vio
theories/Proofs/Btor2SemWitness.vos theories/Proofs/Btor2SemWitness.vok theories/Proofs/Btor2SemWitness.required_vos: theories/Proofs/Btor2SemWitness.v theories/Model/Btor2Parse.vos theories/Spec/Btor2Sem.vos theories/Proofs/Btor2Witness.vos
theories/Proofs/Btor2Witness.vo theories/Proofs/Btor2Witness.glob theories/Proofs/Btor2Witness.v.beautified theories/Proofs/Btor2Witness.required_vo: theories/Proofs/Btor2Witness.v theories/Model/Btor2Parse.vo
theories/Proofs/Btor2Witness.vio: theories/Proofs/Btor2Witness.v theories/Model/Btor2Parse.vio
theories/Proofs/Btor2Witness.vos theories/Proofs/Btor2Witness.vok theories/Proofs/Btor2Witness.required_vos: theories/Proofs/Btor2Witness.v theories/Model/Btor2Parse.vos
theories/Proofs/EvalImplProofs.vo theories/Proofs/EvalImplProofs.glob theories/Proofs/EvalImplProofs.v.beautified theories/Proofs/EvalImplProofs.required_vo: theories/Proofs/EvalImplProofs.v theories/Model/EvalImpl.vo theories/Proofs/ExprLemmas.vo
theories/Proofs/EvalImplProofs.vio: theories/Proofs/EvalImplProofs.v theories/Model/EvalImpl.vio theories/Proofs/ExprLemmas.vio
theories/Proofs/EvalImplProofs.vos theories/Proofs/EvalImplProofs.vok theories/Proofs/EvalImplProofs.required_vos: theories/Proofs/EvalImplProofs.v theories/Model/EvalImpl.vos theories/Proofs/ExprLemmas.vos
theories/Proofs/EvalProofs.vo theories/Proofs/EvalProofs.glob theories/Proofs/EvalProofs.v.beautified theories/Proofs/EvalProofs.required_vo: theories/Proofs/EvalProofs.v theories/Spec/Eval.vo theories/Model/EvalImpl.vo theories/Proofs/BVLemmas.vo theories/Proofs/ExprLemmas.vo
theories/Proofs/EvalProofs.vio: theories/Proofs/EvalProofs.v theories/Spec/Eval.vio theories/Model/EvalImpl.vio theories/Proofs/BVLemmas.vio theories/Proofs/ExprLemmas.vio
theories/Proofs/EvalProofs.vos theories/Proofs/EvalProofs.vok theories/Proofs/EvalProofs.required_vos: theories/Proofs/EvalProofs.v theories/Spec/Eval.vos theories/Model/EvalImpl.vos theories/Proofs/BVLemmas.vos theories/Proofs/ExprLemmas.vos
theories/Proofs/ExprLemmas.vo theories/Proofs/ExprLemmas.glob theories/Proofs/ExprLemmas.v.beautified theories/Proofs/ExprLemmas.required_vo: theories/Proofs/ExprLemmas.v theories/Model/Expr.vo
theories/Proofs/ExprLemmas.vio: theories/Proofs/ExprLemmas.v theories/Model/Expr.vio
theories/Proofs/ExprLemmas.vos theories/Proofs/ExprLemmas.vok theories/Proofs/ExprLemmas.required_vos: theories/Proofs/ExprLemmas.v theories/Model/Expr.vos
theories/Props/C06.vo theories/Props/C06.glob theories/Props/C06.v.beautified theories/Props/C06.required_vo: theories/Props/C06.v theories/Model/EvalImpl.vo theories/Proofs/EvalProofs.vo theories/Proofs/EvalImplProofs.vo
theories/Props/C06.vio: theories/Props/C06.v theories/Model/EvalImpl.vio theories/Proofs/EvalProofs.vio theories/Proofs/EvalImplProofs.vio
theories/Props/C06.vos theories/Props/C06.vok theories/Props/C06.required_vos: theories/Props/C06.v theories/Model/EvalImpl.vos theories/Proofs/EvalProofs.vos theories/Proofs/EvalImplProofs.vos
theories/Props/C08.vo theories/Props/C08.glob theories/Props/C08.v.beautified theories/Props/C08.required_vo: theories/Props/C08.v theories/Spec/SysClosed.vo theories/Model/Btor2Parse.vo theories/Spec/Btor2Sem.vo theories/Proofs/Btor2Witness.vo theories/Proofs/Btor2SemWitness.vo
theories/Props/C08.vio: theories/Props/C08.v theories/Spec/SysClosed.vio theories/Model/Btor2Parse.vio theories/Spec/Btor2Sem.vio theories/Proofs/Btor2Witness.vio theories/Proofs/Btor2SemWitness.vio
theories/Props/C08.vos theories/Props/C08.vok theories/Props/C08.required_vos: theories/Props/C08.v theories/Spec/SysClosed.vos theories/Model/Btor2Parse.vos theories/Spec/Btor2Sem.vos theories/Proofs/Btor2Witness.vos theories/Proofs/Btor2SemWitness.vos
theories/Props/C18.vo theories/Props/C18.glob theories/Props/C18.v.beautified theories/Props/C18.required_vo: theories/Props/C18.v theories/Spec/SysClosed.vo theories/Model/Btor2Parse.vo theories/Proofs/Btor2Witness.vo theories/Proofs/Btor2ParseProofs.vo theories/Proofs/Btor2Refine.vo theories/Proofs/Btor2NoCrash.vo
theories/Props/C18.vio: theories/Props/C18.v theories/Spec/SysClosed.vio theories/Model/Btor2Parse.vio theories/Proofs/Btor2Witness.vio theories/Proofs/Btor2ParseProofs.vio theories/Proofs/Btor2Refine.vio theories/Proofs/Btor2NoCrash.vio
theories/Props/C18.vos theories/Props/C18.vok theories/Props/C18.required_vos: theories/Props/C18.v theories/Spec/SysClosed.vos theories/Model/Btor2Parse.vos theories/Proofs/Btor2Witness.vos theories/Proofs/Btor2ParseProofs.vos theories/Proofs/Btor2Refine.vos theories/Proofs/Btor2NoCrash.vos
