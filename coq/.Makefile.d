theories/Spec/BV.vo theories/Spec/BV.glob theories/Spec/BV.v.beautified theories/Spec/BV.required_vo: theories/Spec/BV.v 
theories/Spec/BV.vio: theories/Spec/BV.v 
theories/Spec/BV.vos theories/Spec/BV.vok theories/Spec/BV.required_vos: theories/Spec/BV.v 
theories/Spec/Eval.vo theories/Spec/Eval.glob theories/Spec/Eval.v.beautified theories/Spec/Eval.required_vo: theories/Spec/Eval.v theories/Model/Expr.vo
theories/Spec/Eval.vio: theories/Spec/Eval.v theories/Model/Expr.vio
theories/Spec/Eval.vos theories/Spec/Eval.vok theories/Spec/Eval.required_vos: theories/Spec/Eval.v theories/Model/Expr.vos
theories/Spec/ReachBmc.vo theories/Spec/ReachBmc.glob theories/Spec/ReachBmc.v.beautified theories/Spec/ReachBmc.required_vo: theories/Spec/ReachBmc.v theories/Spec/SysExec.vo
theories/Spec/ReachBmc.vio: theories/Spec/ReachBmc.v theories/Spec/SysExec.vio
theories/Spec/ReachBmc.vos theories/Spec/ReachBmc.vok theories/Spec/ReachBmc.required_vos: theories/Spec/ReachBmc.v theories/Spec/SysExec.vos
theories/Spec/Script.vo theories/Spec/Script.glob theories/Spec/Script.v.beautified theories/Spec/Script.required_vo: theories/Spec/Script.v theories/Spec/System.vo
theories/Spec/Script.vio: theories/Spec/Script.v theories/Spec/System.vio
theories/Spec/Script.vos theories/Spec/Script.vok theories/Spec/Script.required_vos: theories/Spec/Script.v theories/Spec/System.vos
theories/Spec/SysExec.vo theories/Spec/SysExec.glob theories/Spec/SysExec.v.beautified theories/Spec/SysExec.required_vo: theories/Spec/SysExec.v theories/Spec/System.vo
theories/Spec/SysExec.vio: theories/Spec/SysExec.v theories/Spec/System.vio
theories/Spec/SysExec.vos theories/Spec/SysExec.vok theories/Spec/SysExec.required_vos: theories/Spec/SysExec.v theories/Spec/System.vos
theories/Spec/System.vo theories/Spec/System.glob theories/Spec/System.v.beautified theories/Spec/System.required_vo: theories/Spec/System.v theories/Spec/Eval.vo
theories/Spec/System.vio: theories/Spec/System.v theories/Spec/Eval.vio
theories/Spec/System.vos theories/Spec/System.vok theories/Spec/System.required_vos: theories/Spec/System.v theories/Spec/Eval.vos
theories/Spec/Witness.vo theories/Spec/Witness.glob theories/Spec/Witness.v.beautified theories/Spec/Witness.required_vo: theories/Spec/Witness.v theories/Spec/ReachBmc.vo
theories/Spec/Witness.vio: theories/Spec/Witness.v theories/Spec/ReachBmc.vio
theories/Spec/Witness.vos theories/Spec/Witness.vok theories/Spec/Witness.required_vos: theories/Spec/Witness.v theories/Spec/ReachBmc.vos
theories/Model/Analysis.vo theories/Model/Analysis.glob theories/Model/Analysis.v.beautified theories/Model/Analysis.required_vo: theories/Model/Analysis.v theories/Spec/System.vo
theories/Model/Analysis.vio: theories/Model/Analysis.v theories/Spec/System.vio
theories/Model/Analysis.vos theories/Model/Analysis.vok theories/Model/Analysis.required_vos: theories/Model/Analysis.v theories/Spec/System.vos
theories/Model/Encoding.vo theories/Model/Encoding.glob theories/Model/Encoding.v.beautified theories/Model/Encoding.required_vo: theories/Model/Encoding.v theories/Model/Analysis.vo theories/Spec/Script.vo
theories/Model/Encoding.vio: theories/Model/Encoding.v theories/Model/Analysis.vio theories/Spec/Script.vio
theories/Model/Encoding.vos theories/Model/Encoding.vok theories/Model/Encoding.required_vos: theories/Model/Encoding.v theories/Model/Analysis.vos theories/Spec/Script.vos
theories/Model/EvalImpl.vo theories/Model/EvalImpl.glob theories/Model/EvalImpl.v.beautified theories/Model/EvalImpl.required_vo: theories/Model/EvalImpl.v theories/Spec/Eval.vo
theories/Model/EvalImpl.vio: theories/Model/EvalImpl.v theories/Spec/Eval.vio
theories/Model/EvalImpl.vos theories/Model/EvalImpl.vok theories/Model/EvalImpl.required_vos: theories/Model/EvalImpl.v theories/Spec/Eval.vos
theories/Model/Expr.vo theories/Model/Expr.glob theories/Model/Expr.v.beautified theories/Model/Expr.required_vo: theories/Model/Expr.v theories/Spec/BV.vo
theories/Model/Expr.vio: theories/Model/Expr.v theories/Spec/BV.vio
theories/Model/Expr.vos theories/Model/Expr.vok theories/Model/Expr.required_vos: theories/Model/Expr.v theories/Spec/BV.vos
theories/Model/Simplify.vo theories/Model/Simplify.glob theories/Model/Simplify.v.beautified theories/Model/Simplify.required_vo: theories/Model/Simplify.v theories/Model/EvalImpl.vo
theories/Model/Simplify.vio: theories/Model/Simplify.v theories/Model/EvalImpl.vio
theories/Model/Simplify.vos theories/Model/Simplify.vok theories/Model/Simplify.required_vos: theories/Model/Simplify.v theories/Model/EvalImpl.vos
theories/Proofs/BVLemmas.vo theories/Proofs/BVLemmas.glob theories/Proofs/BVLemmas.v.beautified theories/Proofs/BVLemmas.required_vo: theories/Proofs/BVLemmas.v theories/Spec/BV.vo
theories/Proofs/BVLemmas.vio: theories/Proofs/BVLemmas.v theories/Spec/BV.vio
theories/Proofs/BVLemmas.vos theories/Proofs/BVLemmas.vok theories/Proofs/BVLemmas.required_vos: theories/Proofs/BVLemmas.v theories/Spec/BV.vos
theories/Proofs/EncodingBasics.vo theories/Proofs/EncodingBasics.glob theories/Proofs/EncodingBasics.v.beautified theories/Proofs/EncodingBasics.required_vo: theories/Proofs/EncodingBasics.v theories/Model/EvalImpl.vo theories/Model/Encoding.vo theories/Spec/SysExec.vo theories/Proofs/ExprLemmas.vo theories/Proofs/McBasics.vo theories/Proofs/ScriptProofs.vo
theories/Proofs/EncodingBasics.vio: theories/Proofs/EncodingBasics.v theories/Model/EvalImpl.vio theories/Model/Encoding.vio theories/Spec/SysExec.vio theories/Proofs/ExprLemmas.vio theories/Proofs/McBasics.vio theories/Proofs/ScriptProofs.vio
theories/Proofs/EncodingBasics.vos theories/Proofs/EncodingBasics.vok theories/Proofs/EncodingBasics.required_vos: theories/Proofs/EncodingBasics.v theories/Model/EvalImpl.vos theories/Model/Encoding.vos theories/Spec/SysExec.vos theories/Proofs/ExprLemmas.vos theories/Proofs/McBasics.vos theories/Proofs/ScriptProofs.vos
theories/Proofs/EncodingExamples.vo theories/Proofs/EncodingExamples.glob theories/Proofs/EncodingExamples.v.beautified theories/Proofs/EncodingExamples.required_vo: theories/Proofs/EncodingExamples.v theories/Model/Encoding.vo
theories/Proofs/EncodingExamples.vio: theories/Proofs/EncodingExamples.v theories/Model/Encoding.vio
theories/Proofs/EncodingExamples.vos theories/Proofs/EncodingExamples.vok theories/Proofs/EncodingExamples.required_vos: theories/Proofs/EncodingExamples.v theories/Model/Encoding.vos
theories/Proofs/EncodingFaithful.vo theories/Proofs/EncodingFaithful.glob theories/Proofs/EncodingFaithful.v.beautified theories/Proofs/EncodingFaithful.required_vo: theories/Proofs/EncodingFaithful.v theories/Model/EvalImpl.vo theories/Model/Encoding.vo theories/Spec/SysExec.vo theories/Spec/ReachBmc.vo theories/Proofs/ExprLemmas.vo theories/Proofs/McBasics.vo theories/Proofs/ScriptProofs.vo theories/Proofs/EncodingBasics.vo
theories/Proofs/EncodingFaithful.vio: theories/Proofs/EncodingFaithful.v theories/Model/EvalImpl.vio theories/Model/Encoding.vio theories/Spec/SysExec.vio theories/Spec/ReachBmc.vio theories/Proofs/ExprLemmas.vio theories/Proofs/McBasics.vio theories/Proofs/ScriptProofs.vio theories/Proofs/EncodingBasics.vio
theories/Proofs/EncodingFaithful.vos theories/Proofs/EncodingFaithful.vok theories/Proofs/EncodingFaithful.required_vos: theories/Proofs/EncodingFaithful.v theories/Model/EvalImpl.vos theories/Model/Encoding.vos theories/Spec/SysExec.vos theories/Spec/ReachBmc.vos theories/Proofs/ExprLemmas.vos theories/Proofs/McBasics.vos theories/Proofs/ScriptProofs.vos theories/Proofs/EncodingBasics.vos
theories/Proofs/EncodingWf.vo theories/Proofs/EncodingWf.glob theories/Proofs/EncodingWf.v.beautified theories/Proofs/EncodingWf.required_vo: theories/Proofs/EncodingWf.v theories/Model/EvalImpl.vo theories/Model/Encoding.vo theories/Spec/SysExec.vo theories/Spec/ReachBmc.vo theories/Proofs/ExprLemmas.vo theories/Proofs/McBasics.vo theories/Proofs/ScriptProofs.vo theories/Proofs/EncodingBasics.vo theories/Proofs/EncodingFaithful.vo
theories/Proofs/EncodingWf.vio: theories/Proofs/EncodingWf.v theories/Model/EvalImpl.vio theories/Model/Encoding.vio theories/Spec/SysExec.vio theories/Spec/ReachBmc.vio theories/Proofs/ExprLemmas.vio theories/Proofs/McBasics.vio theories/Proofs/ScriptProofs.vio theories/Proofs/EncodingBasics.vio theories/Proofs/EncodingFaithful.vio
theories/Proofs/EncodingWf.vos theories/Proofs/EncodingWf.vok theories/Proofs/EncodingWf.required_vos: theories/Proofs/EncodingWf.v theories/Model/EvalImpl.vos theories/Model/Encoding.vos theories/Spec/SysExec.vos theories/Spec/ReachBmc.vos theories/Proofs/ExprLemmas.vos theories/Proofs/McBasics.vos theories/Proofs/ScriptProofs.vos theories/Proofs/EncodingBasics.vos theories/Proofs/EncodingFaithful.vos
theories/Proofs/EvalImplProofs.vo theories/Proofs/EvalImplProofs.glob theories/Proofs/EvalImplProofs.v.beautified theories/Proofs/EvalImplProofs.required_vo: theories/Proofs/EvalImplProofs.v theories/Model/EvalImpl.vo theories/Proofs/ExprLemmas.vo
theories/Proofs/EvalImplProofs.vio: theories/Proofs/EvalImplProofs.v theories/Model/EvalImpl.vio theories/Proofs/ExprLemmas.vio
theories/Proofs/EvalImplProofs.vos theories/Proofs/EvalImplProofs.vok theories/Proofs/EvalImplProofs.required_vos: theories/Proofs/EvalImplProofs.v theories/Model/EvalImpl.vos theories/Proofs/ExprLemmas.vos
theories/Proofs/EvalProofs.vo theories/Proofs/EvalProofs.glob theories/Proofs/EvalProofs.v.beautified theories/Proofs/EvalProofs.required_vo: theories/Proofs/EvalProofs.v theories/Spec/Eval.vo theories/Model/EvalImpl.vo theories/Proofs/BVLemmas.vo theories/Proofs/ExprLemmas.vo
theories/Proofs/EvalProofs.vio: theories/Proofs/EvalProofs.v theories/Spec/Eval.vio theories/Model/EvalImpl.vio theories/Proofs/BVLemmas.vio theories/Proofs/ExprLemmas.vio
theories/Proofs/EvalProofs.vos theories/Proofs/EvalProofs.vok theories/Proofs/EvalProofs.required_vos: theories/Proofs/EvalProofs.v theories/Spec/Eval.vos theories/Model/EvalImpl.vos theories/Proofs/BVLemmas.vos theories/Proofs/ExprLemmas.vos
theories/Proofs/ExprLemmas.vo theories/Proofs/ExprLemmas.glob theories/Proofs/ExprLemmas.v.beautified theories/Proofs/ExprLemmas.required_vo: theories/Proofs/ExprLemmas.v theories/Model/Expr.vo
theories/Proofs/ExprLemmas.vio: theories/Proofs/ExprLemmas.v theories/Model/Expr.vio
theories/Proofs/ExprLemmas.vos theories/Proofs/ExprLemmas.vok theories/Proofs/ExprLemmas.required_vos: theories/Proofs/ExprLemmas.v theories/Model/Expr.vos
theories/Proofs/McBasics.vo theories/Proofs/McBasics.glob theories/Proofs/McBasics.v.beautified theories/Proofs/McBasics.required_vo: theories/Proofs/McBasics.v theories/Spec/SysExec.vo theories/Model/Analysis.vo
theories/Proofs/McBasics.vio: theories/Proofs/McBasics.v theories/Spec/SysExec.vio theories/Model/Analysis.vio
theories/Proofs/McBasics.vos theories/Proofs/McBasics.vok theories/Proofs/McBasics.required_vos: theories/Proofs/McBasics.v theories/Spec/SysExec.vos theories/Model/Analysis.vos
theories/Proofs/ScriptProofs.vo theories/Proofs/ScriptProofs.glob theories/Proofs/ScriptProofs.v.beautified theories/Proofs/ScriptProofs.required_vo: theories/Proofs/ScriptProofs.v theories/Spec/Script.vo theories/Spec/SysExec.vo theories/Model/Analysis.vo theories/Proofs/McBasics.vo
theories/Proofs/ScriptProofs.vio: theories/Proofs/ScriptProofs.v theories/Spec/Script.vio theories/Spec/SysExec.vio theories/Model/Analysis.vio theories/Proofs/McBasics.vio
theories/Proofs/ScriptProofs.vos theories/Proofs/ScriptProofs.vok theories/Proofs/ScriptProofs.required_vos: theories/Proofs/ScriptProofs.v theories/Spec/Script.vos theories/Spec/SysExec.vos theories/Model/Analysis.vos theories/Proofs/McBasics.vos
theories/Props/C04.vo theories/Props/C04.glob theories/Props/C04.v.beautified theories/Props/C04.required_vo: theories/Props/C04.v theories/Model/Encoding.vo theories/Proofs/EncodingExamples.vo
theories/Props/C04.vio: theories/Props/C04.v theories/Model/Encoding.vio theories/Proofs/EncodingExamples.vio
theories/Props/C04.vos theories/Props/C04.vok theories/Props/C04.required_vos: theories/Props/C04.v theories/Model/Encoding.vos theories/Proofs/EncodingExamples.vos
theories/Props/C06.vo theories/Props/C06.glob theories/Props/C06.v.beautified theories/Props/C06.required_vo: theories/Props/C06.v theories/Model/EvalImpl.vo theories/Proofs/EvalProofs.vo theories/Proofs/EvalImplProofs.vo
theories/Props/C06.vio: theories/Props/C06.v theories/Model/EvalImpl.vio theories/Proofs/EvalProofs.vio theories/Proofs/EvalImplProofs.vio
theories/Props/C06.vos theories/Props/C06.vok theories/Props/C06.required_vos: theories/Props/C06.v theories/Model/EvalImpl.vos theories/Proofs/EvalProofs.vos theories/Proofs/EvalImplProofs.vos
