// Detects optional verification hooks in the patronus checkout this harness is built against and
// turns them into cfg flags, so that the harness builds with and without them.
//   c10_pdr_trace : patronus::mc::pdr_verif_trace (patches/0002-hook-pdr-trace.diff of the C10 work)
use std::path::PathBuf;

fn main() {
    println!("cargo:rustc-check-cfg=cfg(c10_pdr_trace)");
    println!("cargo:rerun-if-changed=Cargo.toml");
    let manifest = PathBuf::from(std::env::var("CARGO_MANIFEST_DIR").unwrap()).join("Cargo.toml");
    let text = std::fs::read_to_string(&manifest).unwrap_or_default();
    // patronus = { path = "..." }
    let mut dir = None;
    for line in text.lines() {
        let l = line.trim();
        if l.starts_with("patronus ") || l.starts_with("patronus=") {
            if let Some(i) = l.find("path") {
                let rest = &l[i..];
                if let Some(a) = rest.find('"') {
                    if let Some(b) = rest[a + 1..].find('"') {
                        dir = Some(PathBuf::from(&rest[a + 1..a + 1 + b]));
                    }
                }
            }
        }
    }
    if let Some(d) = dir {
        let mc = d.join("src/mc.rs");
        println!("cargo:rerun-if-changed={}", mc.display());
        if std::fs::read_to_string(&mc).map(|t| t.contains("pdr_verif_trace")).unwrap_or(false) {
            println!("cargo:rustc-cfg=c10_pdr_trace");
        }
    }
}
