//! C13: termination, idempotence and cache transparency of the simplifier.
//! One case = a batch of expressions sharing sub-terms, fed in a random order to ONE Simplifier
//! instance (sparse cache) and to one with a dense cache; each result is compared with a fresh
//! simplifier's result (reference equality) and re-simplified.  A watchdog detects hangs.
//! (case ID (exprs E..) (order i..) (shared R..) (dense same|R..) (fresh same|R..) (again same|R..) (timeout no|yes))
use crate::c01::{gen_directed, gen_random};
use crate::dump::*;
use crate::exprgen::*;
use crate::rng::Rng;
use crate::sexp::{build_expr, read_cases};
use crate::util::*;
use patronus::expr::*;
use std::io::Write;
use std::sync::atomic::{AtomicU64, Ordering};
use std::sync::{Arc, Mutex};

pub fn run(args: &Args) {
    // stream "containers" (and replay files holding its cases): operation histories on the containers of meta.rs
    let container_replay = args.get("cases-in").map(|p| read_cases(p).first().map(crate::c13meta::is_container_case).unwrap_or(false)).unwrap_or(false);
    if args.get("mode") == Some("containers") || container_replay {
        return crate::c13meta::run(args);
    }
    let args = args.clone();
    let progress = Arc::new(AtomicU64::new(0));
    let current = Arc::new(Mutex::new(String::new()));
    let done = Arc::new(AtomicU64::new(0));
    let (p2, c2, d2, a2) = (progress.clone(), current.clone(), done.clone(), args.clone());
    let worker = std::thread::spawn(move || {
        silence_panics();
        worker_run(&a2, p2, c2);
        d2.store(1, Ordering::SeqCst);
    });
    // watchdog: no progress for `watchdog_s` seconds => report a hang for the current case
    let limit_ms = args.get_u64("watchdog_s", 20) * 1000;
    let mut last = 0u64;
    let mut idle = 0u64;
    loop {
        std::thread::sleep(std::time::Duration::from_millis(50));
        if done.load(Ordering::SeqCst) == 1 {
            break;
        }
        let p = progress.load(Ordering::SeqCst);
        if p != last {
            last = p;
            idle = 0;
        } else {
            idle += 50;
            if idle >= limit_ms {
                let cur = current.lock().unwrap().clone();
                let mut f = std::fs::OpenOptions::new().append(true).open(&args.out).expect("out");
                writeln!(f, "{cur} (timeout yes))").unwrap();
                let mut stats = Stats::default();
                stats.inc("timeouts");
                stats.notes.push("watchdog fired: the remaining cases of this stream were not run".to_string());
                stats.write(&args.out);
                std::process::exit(0);
            }
        }
    }
    worker.join().ok();
}

fn sub_terms(ctx: &Context, root: ExprRef) -> std::collections::HashSet<ExprRef> {
    let mut out = std::collections::HashSet::new();
    let mut todo = vec![root];
    while let Some(e) = todo.pop() {
        if out.insert(e) {
            let mut cs = vec![];
            ctx[e].collect_children(&mut cs);
            todo.extend(cs);
        }
    }
    out
}

fn worker_run(args: &Args, progress: Arc<AtomicU64>, current: Arc<Mutex<String>>) {
    let mut rng = Rng::new(args.seed);
    let mut out = std::fs::File::create(&args.out).expect("out file");
    let mut stats = Stats::default();
    let mut distinct = std::collections::HashSet::new();
    let mut run_one = |id: String, mut ctx: Context, exprs: Vec<ExprRef>, order: Vec<usize>, stats: &mut Stats, out: &mut std::fs::File| {
        let exprs_txt: Vec<String> = exprs.iter().map(|e| dump_expr(&ctx, *e)).collect();
        let head = format!(
            "(case {id} (exprs {}) (order {})",
            exprs_txt.join(" "),
            order.iter().map(|i| i.to_string()).collect::<Vec<_>>().join(" ")
        );
        *current.lock().unwrap() = head.clone();
        progress.fetch_add(1, Ordering::SeqCst);
        // shared simplifier instances
        // the cache of each instance after the whole history (hook verif_cache_entries), compared entry by entry
        // with the cache of the extracted memoising driver model
        let shared_all: Result<(Vec<ExprRef>, Vec<(ExprRef, ExprRef)>), String> = guarded(|| {
            let mut s = Simplifier::new(SparseExprMap::default());
            let mut res = vec![exprs[0]; exprs.len()];
            for &i in order.iter() {
                res[i] = s.simplify(&mut ctx, exprs[i]);
            }
            (res, s.verif_cache_entries())
        });
        let dense_all: Result<(Vec<ExprRef>, Vec<(ExprRef, ExprRef)>), String> = guarded(|| {
            let mut s = Simplifier::new(DenseExprMetaData::default());
            let mut res = vec![exprs[0]; exprs.len()];
            for &i in order.iter().rev() {
                res[i] = s.simplify(&mut ctx, exprs[i]);
            }
            (res, s.verif_cache_entries())
        });
        let dump_cache = |name: &str, entries: &Vec<(ExprRef, ExprRef)>, ctx: &Context| -> String {
            let total: usize = entries.iter().map(|(k, v)| tree_size(ctx, *k, 4000) + tree_size(ctx, *v, 4000)).sum();
            if total > 6000 {
                format!("({name} skipped)")
            } else {
                format!("({name} {})", entries.iter().map(|(k, v)| format!("({} {})", dump_expr(ctx, *k), dump_expr(ctx, *v))).collect::<Vec<_>>().join(" "))
            }
        };
        let caches_txt = match (&shared_all, &dense_all) {
            (Ok((_, cs)), Ok((_, cd))) => format!("{} {}", dump_cache("cache-sparse", cs, &ctx), dump_cache("cache-dense", cd, &ctx)),
            _ => String::new(),
        };
        let shared: Result<Vec<ExprRef>, String> = shared_all.map(|x| x.0);
        let dense: Result<Vec<ExprRef>, String> = dense_all.map(|x| x.0);
        let fresh: Result<Vec<ExprRef>, String> = guarded(|| exprs.iter().map(|e| simplify_single_expression(&mut ctx, *e)).collect());
        let line = match (&shared, &dense, &fresh) {
            (Ok(s), Ok(d), Ok(f)) => {
                let again: Result<Vec<ExprRef>, String> = guarded(|| s.iter().map(|e| simplify_single_expression(&mut ctx, *e)).collect());
                let cmp = |name: &str, other: &Vec<ExprRef>, ctx: &Context| -> String {
                    if other == s { format!("({name} same)") } else { format!("({name} {})", other.iter().map(|e| dump_expr(ctx, *e)).collect::<Vec<_>>().join(" ")) }
                };
                let again_txt = match &again {
                    Ok(a) => cmp("again", a, &ctx),
                    Err(_) => "(again (panic))".to_string(),
                };
                format!(
                    "{head} (shared {}) {} {} {} {} (timeout no))",
                    s.iter().map(|e| dump_expr(&ctx, *e)).collect::<Vec<_>>().join(" "),
                    cmp("dense", d, &ctx),
                    cmp("fresh", f, &ctx),
                    again_txt,
                    caches_txt
                )
            }
            _ => {
                stats.inc("impl_panics");
                format!("{head} (shared (panic)) (panicloc {}) (timeout no))", quote(&last_panic_loc()))
            }
        };
        stats.sample(&line, 2);
        writeln!(out, "{line}").unwrap();
    };
    if let Some(path) = args.get("cases-in") {
        for c in read_cases(path).iter() {
            let mut ctx = Context::default();
            let exprs: Vec<ExprRef> = c.field("exprs").unwrap().iter().map(|e| build_expr(&mut ctx, e)).collect();
            let order: Vec<usize> = c.field("order").unwrap().iter().map(|i| i.num() as usize).collect();
            run_one(c.list()[1].atom().to_string(), ctx, exprs, order, &mut stats, &mut out);
        }
    }
    for id in 0..args.count {
        let mut r = rng.fork();
        let mut ctx = Context::default();
        let mut cfg = GenCfg::default();
        cfg.max_depth = 1 + r.below(3) as u32;
        cfg.div_rem = r.chance(1, 8);
        cfg.mul_max_width = 128;
        cfg.syms_per_type = 2;
        // a narrow width pool makes sub-terms collide across the batch
        let pool: Vec<WidthInt> = (0..3).map(|_| *r.pick(WIDTH_POOL)).collect();
        cfg.widths = pool;
        let k = 2 + r.below(6) as usize;
        let mut exprs: Vec<ExprRef> = vec![];
        {
            let mut g = ExprGen::new(&mut ctx, &mut r, cfg.clone());
            for _ in 0..k {
                let e = if g.rng.chance(1, 2) { gen_directed(&mut g) } else { gen_random(&mut g) };
                exprs.push(e);
            }
            // families: a parent over two rule-directed children (both likely to be rewritten, the second
            // often through a multi-step chain); children and parent are all members
            if g.rng.chance(1, 2) {
                let c1 = gen_directed(&mut g);
                let mut c2 = gen_directed(&mut g);
                for _ in 0..8 {
                    if c1.get_type(g.ctx) == c2.get_type(g.ctx) {
                        break;
                    }
                    c2 = gen_directed(&mut g);
                }
                if let (Some(w1), Some(w2)) = (c1.get_bv_type(g.ctx), c2.get_bv_type(g.ctx)) {
                    let parent = if w1 == w2 {
                        match g.rng.below(6) {
                            0 => g.ctx.equal(c1, c2),
                            1 => g.ctx.and(c1, c2),
                            2 => g.ctx.or(c1, c2),
                            3 => g.ctx.xor(c1, c2),
                            4 => g.ctx.add(c1, c2),
                            _ => g.ctx.greater_or_equal(c1, c2),
                        }
                    } else {
                        g.ctx.concat(c1, c2)
                    };
                    exprs.push(c1);
                    exprs.push(c2);
                    exprs.push(parent);
                }
            }
            let k = exprs.len();
            // explicit sharing: combine earlier members into later ones
            for j in 1..k {
                if g.rng.chance(1, 2) {
                    let i = g.rng.below(j as u64) as usize;
                    if let (Some(wi), Some(wj)) = (exprs[i].get_bv_type(g.ctx), exprs[j].get_bv_type(g.ctx)) {
                        if wi == wj {
                            exprs[j] = match g.rng.below(3) {
                                0 => g.ctx.and(exprs[i], exprs[j]),
                                1 => g.ctx.xor(exprs[j], exprs[i]),
                                _ => g.ctx.add(exprs[i], exprs[j]),
                            };
                        }
                    }
                }
            }
        }
        // cache-history sensitivity: sub-terms of members become members of their own, so that (depending on
        // the order) a parent is simplified after its children already went through the same instance
        let roots = exprs.clone();
        for e in roots.iter() {
            if r.chance(1, 2) {
                let mut cs = vec![];
                ctx[*e].collect_children(&mut cs);
                for c in cs {
                    if !ctx[c].is_symbol() && !exprs.contains(&c) && exprs.len() < 14 {
                        exprs.push(c);
                        let mut gcs = vec![];
                        ctx[c].collect_children(&mut gcs);
                        for gc in gcs {
                            if !ctx[gc].is_symbol() && !exprs.contains(&gc) && exprs.len() < 14 && r.chance(1, 2) {
                                exprs.push(gc);
                            }
                        }
                    }
                }
            }
        }
        // stale-entry sensitivity: INTERMEDIATE results of a member (nodes the driver rewrote on the way to the
        // member's result, read from a scratch instance's cache) become members too, so that one of the two
        // histories asks for an expression that already is a non-final key of the cache
        if r.chance(1, 2) {
            let roots = exprs.clone();
            for e in roots.iter() {
                if !r.chance(1, 2) || exprs.len() >= 16 {
                    continue;
                }
                let e = *e;
                let entries: Result<Vec<(ExprRef, ExprRef)>, String> = guarded(|| {
                    let mut s = Simplifier::new(SparseExprMap::default());
                    s.simplify(&mut ctx, e);
                    s.verif_cache_entries()
                });
                if let Ok(mut entries) = entries {
                    entries.sort();
                    let mut cands: Vec<ExprRef> = entries
                        .iter()
                        .filter(|(k, v)| k != v && !ctx[*k].is_symbol() && !exprs.contains(k) && tree_size(&ctx, *k, 400) < 400)
                        .map(|(k, _)| *k)
                        .collect();
                    // prefer nodes that are not sub-terms of the member (i.e. genuine intermediates)
                    let subs = sub_terms(&ctx, e);
                    cands.sort_by_key(|c| subs.contains(c));
                    let n_inter = cands.iter().filter(|c| !subs.contains(c)).count();
                    stats.bump("intermediates_available", &format!("{}", n_inter.min(5)));
                    for c in cands.into_iter().take(2) {
                        if exprs.len() < 16 {
                            exprs.push(c);
                            stats.inc("intermediate_members");
                        }
                    }
                }
            }
        }
        let k = exprs.len();
        if exprs.iter().any(|e| tree_size(&ctx, *e, 2000) >= 2000) {
            stats.inc("skipped_huge");
            continue;
        }
        let mut order: Vec<usize> = (0..k).collect();
        for i in (1..k).rev() {
            let j = r.below(i as u64 + 1) as usize;
            order.swap(i, j);
        }
        stats.bump("batch_size", &format!("{k}"));
        distinct.insert(exprs.iter().map(|e| dump_expr(&ctx, *e)).collect::<Vec<_>>().join(" "));
        run_one(format!("{id}"), ctx, exprs, order, &mut stats, &mut out);
    }
    stats.add("distinct_cases", distinct.len() as u64);
    stats.write(&args.out);
}
