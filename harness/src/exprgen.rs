//! Typed random expression generator shared by the expression-level properties.
//! Structured and mostly valid: every produced expression type-checks. Width pool and literal
//! pool follow DESIGN.md section 4.
use crate::rng::Rng;
use baa::{BitVecOps, BitVecValue};
use patronus::expr::*;
use std::collections::BTreeMap;

pub const WIDTH_POOL: &[WidthInt] = &[1, 1, 1, 2, 3, 4, 5, 6, 7, 8, 8, 16, 31, 32, 33, 63, 64, 65, 127, 128, 129];
pub const SMALL_WIDTHS: &[WidthInt] = &[1, 1, 2, 3, 4, 5, 8];

#[derive(Clone)]
pub struct GenCfg {
    pub max_depth: u32,
    pub arrays: bool,
    pub div_rem: bool,
    pub array_eq: bool,
    /// widths used for fresh operands (comparison operands, slice sources, ...)
    pub widths: Vec<WidthInt>,
    /// max index width of generated arrays
    pub max_index_width: WidthInt,
    /// how many distinct symbols per type to draw from
    pub syms_per_type: u64,
    pub mul_max_width: WidthInt,
}

impl Default for GenCfg {
    fn default() -> Self {
        GenCfg {
            max_depth: 4,
            arrays: true,
            div_rem: false,
            array_eq: true,
            widths: WIDTH_POOL.to_vec(),
            max_index_width: 6,
            syms_per_type: 2,
            mul_max_width: 128,
        }
    }
}

pub fn bits_value(bits: &str) -> BitVecValue {
    BitVecValue::from_bit_str(bits).unwrap()
}

/// A literal of width `w` from the shape pool.
pub fn lit_value(rng: &mut Rng, w: WidthInt) -> BitVecValue {
    let wz = w as usize;
    let mut bits = vec![b'0'; wz];
    match rng.below(10) {
        0 => {}
        1 => bits[wz - 1] = b'1',
        2 => bits.iter_mut().for_each(|b| *b = b'1'),
        3 => bits[rng.below(w as u64) as usize] = b'1', // one-hot
        4 => bits[0] = b'1',                             // msb only
        5 => {
            // low mask
            let k = rng.below(w as u64 + 1) as usize;
            for i in 0..k {
                bits[wz - 1 - i] = b'1';
            }
        }
        6 => {
            // high mask
            let k = rng.below(w as u64 + 1) as usize;
            for b in bits.iter_mut().take(k) {
                *b = b'1';
            }
        }
        7 => {
            for (i, b) in bits.iter_mut().enumerate() {
                if i % 2 == 0 {
                    *b = b'1';
                }
            }
        }
        _ => {
            for b in bits.iter_mut() {
                if rng.chance(1, 2) {
                    *b = b'1';
                }
            }
        }
    }
    bits_value(std::str::from_utf8(&bits).unwrap())
}

/// A shift amount of width `w`: below / at / above the width, >= 2^32, >= 2^64 where representable.
pub fn shift_amount(rng: &mut Rng, w: WidthInt) -> BitVecValue {
    // values of three and more words: every second amount is a whole-word shift (192, 320, .. are the amounts that are
    // multiples of 64 without being powers of two; seeded change C06-m7)
    let choice = if w > 129 && rng.chance(1, 2) { 6 } else { rng.below(8) };
    let small = |v: u64| -> Option<BitVecValue> {
        if w >= 64 || v < (1u64 << w) { Some(BitVecValue::from_u64(v, w)) } else { None }
    };
    let r = match choice {
        0 => small(rng.below(w as u64)),
        1 => small(w as u64),
        2 => small(w as u64 + 1 + rng.below(3)),
        3 => {
            if w > 33 {
                let mut v = BitVecValue::zero(w);
                baa::BitVecMutOps::set_bit(&mut v, 32);
                if rng.chance(1, 2) {
                    baa::BitVecMutOps::set_bit(&mut v, rng.below(6) as WidthInt);
                }
                Some(v)
            } else {
                None
            }
        }
        4 => {
            if w > 65 {
                let mut v = BitVecValue::zero(w);
                baa::BitVecMutOps::set_bit(&mut v, 64 + rng.below((w - 64) as u64) as WidthInt);
                if rng.chance(1, 2) {
                    baa::BitVecMutOps::set_bit(&mut v, rng.below(6) as WidthInt);
                }
                Some(v)
            } else {
                None
            }
        }
        5 => small(0),
        // whole-word shifts (multiples of 64 below the width)
        6 => {
            if w > 64 {
                let k = 1 + rng.below(((w - 1) / 64) as u64);
                small(64 * k)
            } else {
                None
            }
        }
        _ => None,
    };
    r.unwrap_or_else(|| lit_value(rng, w))
}

pub struct ExprGen<'a> {
    pub ctx: &'a mut Context,
    pub rng: &'a mut Rng,
    pub cfg: GenCfg,
    /// histogram of generated operators
    pub ops: BTreeMap<&'static str, u64>,
    /// prefix for symbol names
    pub prefix: String,
    /// when set, only these symbols are used as leaves (systems: declared inputs and states)
    pub pool: Option<Vec<ExprRef>>,
}

impl<'a> ExprGen<'a> {
    pub fn new(ctx: &'a mut Context, rng: &'a mut Rng, cfg: GenCfg) -> Self {
        ExprGen { ctx, rng, cfg, ops: BTreeMap::new(), prefix: String::new(), pool: None }
    }

    fn count(&mut self, op: &'static str) {
        *self.ops.entry(op).or_insert(0) += 1;
    }

    pub fn pick_width(&mut self) -> WidthInt {
        if let Some(pool) = &self.pool {
            let ws: Vec<WidthInt> = pool.iter().filter_map(|s| s.get_bv_type(self.ctx)).collect();
            if !ws.is_empty() && self.rng.chance(3, 4) {
                return *self.rng.pick(&ws);
            }
        }
        let ws = self.cfg.widths.clone();
        *self.rng.pick(&ws)
    }

    pub fn bv_sym(&mut self, w: WidthInt) -> ExprRef {
        if let Some(pool) = &self.pool {
            let cands: Vec<ExprRef> = pool.iter().copied().filter(|s| s.get_type(self.ctx) == Type::BV(w)).collect();
            if cands.is_empty() {
                let v = lit_value(self.rng, w);
                return self.ctx.bv_lit(&v);
            }
            return *self.rng.pick(&cands);
        }
        let k = self.rng.below(self.cfg.syms_per_type);
        let name = format!("{}x{}_{}", self.prefix, w, k);
        self.ctx.bv_symbol(&name, w)
    }

    pub fn arr_sym(&mut self, iw: WidthInt, dw: WidthInt) -> ExprRef {
        if let Some(pool) = &self.pool {
            let t = Type::Array(ArrayType { index_width: iw, data_width: dw });
            let cands: Vec<ExprRef> = pool.iter().copied().filter(|s| s.get_type(self.ctx) == t).collect();
            if cands.is_empty() {
                let v = lit_value(self.rng, dw);
                let e = self.ctx.bv_lit(&v);
                return self.ctx.array_const(e, iw);
            }
            return *self.rng.pick(&cands);
        }
        let k = self.rng.below(self.cfg.syms_per_type);
        let name = format!("{}m{}_{}_{}", self.prefix, iw, dw, k);
        self.ctx.array_symbol(&name, iw, dw)
    }

    pub fn leaf(&mut self, w: WidthInt) -> ExprRef {
        if self.rng.chance(3, 5) {
            self.count("sym");
            self.bv_sym(w)
        } else {
            self.count("lit");
            let v = lit_value(self.rng, w);
            self.ctx.bv_lit(&v)
        }
    }

    pub fn gen_bv(&mut self, w: WidthInt, depth: u32) -> ExprRef {
        if depth == 0 || self.rng.chance(1, 8) {
            return self.leaf(w);
        }
        let d = depth - 1;
        loop {
            let choice = self.rng.below(30);
            match choice {
                0 => {
                    self.count("not");
                    let a = self.gen_bv(w, d);
                    return self.ctx.not(a);
                }
                1 => {
                    self.count("neg");
                    let a = self.gen_bv(w, d);
                    return self.ctx.negate(a);
                }
                2..=4 => {
                    let a = self.gen_bv(w, d);
                    let b = self.gen_bv(w, d);
                    return match choice {
                        2 => {
                            self.count("and");
                            self.ctx.and(a, b)
                        }
                        3 => {
                            self.count("or");
                            self.ctx.or(a, b)
                        }
                        _ => {
                            self.count("xor");
                            self.ctx.xor(a, b)
                        }
                    };
                }
                5 | 6 => {
                    let a = self.gen_bv(w, d);
                    let b = self.gen_bv(w, d);
                    return if choice == 5 {
                        self.count("add");
                        self.ctx.add(a, b)
                    } else {
                        self.count("sub");
                        self.ctx.sub(a, b)
                    };
                }
                7 => {
                    if w > self.cfg.mul_max_width {
                        continue;
                    }
                    self.count("mul");
                    let a = self.gen_bv(w, d);
                    let b = self.gen_bv(w, d);
                    return self.ctx.mul(a, b);
                }
                8..=10 => {
                    let a = self.gen_bv(w, d);
                    // shift amounts: mostly literals with interesting magnitudes
                    let b = if self.rng.chance(2, 3) {
                        let v = shift_amount(self.rng, w);
                        self.ctx.bv_lit(&v)
                    } else {
                        self.gen_bv(w, d)
                    };
                    return match choice {
                        8 => {
                            self.count("shl");
                            self.ctx.shift_left(a, b)
                        }
                        9 => {
                            self.count("lshr");
                            self.ctx.shift_right(a, b)
                        }
                        _ => {
                            self.count("ashr");
                            self.ctx.arithmetic_shift_right(a, b)
                        }
                    };
                }
                11 | 12 => {
                    if w < 2 {
                        continue;
                    }
                    self.count("concat");
                    let wa = self.rng.range(1, w as u64 - 1) as WidthInt;
                    let a = self.gen_bv(wa, d);
                    let b = self.gen_bv(w - wa, d);
                    return self.ctx.concat(a, b);
                }
                13 | 14 => {
                    // slice of a wider (or equal) source
                    let src_w = if self.rng.chance(1, 2) {
                        w + self.rng.below(9) as WidthInt
                    } else {
                        let pw = self.pick_width();
                        if pw < w { w } else { pw }
                    };
                    let lo = self.rng.below((src_w - w) as u64 + 1) as WidthInt;
                    let hi = lo + w - 1;
                    self.count("slice");
                    let a = self.gen_bv(src_w, d);
                    return self.ctx.slice(a, hi, lo);
                }
                15 | 16 => {
                    if w < 2 {
                        continue;
                    }
                    let by = self.rng.range(1, w as u64 - 1) as WidthInt;
                    let a = self.gen_bv(w - by, d);
                    return if choice == 15 {
                        self.count("zext");
                        self.ctx.zero_extend(a, by)
                    } else {
                        self.count("sext");
                        self.ctx.sign_extend(a, by)
                    };
                }
                17 | 18 => {
                    self.count("ite");
                    let c = self.gen_bv(1, d);
                    let t = self.gen_bv(w, d);
                    let f = self.gen_bv(w, d);
                    return self.ctx.ite(c, t, f);
                }
                19 => {
                    if !self.cfg.arrays {
                        continue;
                    }
                    self.count("read");
                    let iw = self.rng.range(1, self.cfg.max_index_width as u64) as WidthInt;
                    let arr = self.gen_array(iw, w, d);
                    let idx = self.gen_bv(iw, d);
                    return self.ctx.array_read(arr, idx);
                }
                20..=25 => {
                    if w != 1 {
                        continue;
                    }
                    let ow = self.pick_width();
                    let a = self.gen_bv(ow, d);
                    // make equal operands reasonably likely
                    let b = if self.rng.chance(1, 6) { a } else { self.gen_bv(ow, d) };
                    return match choice {
                        20 => {
                            self.count("eq");
                            self.ctx.equal(a, b)
                        }
                        21 => {
                            self.count("ugt");
                            self.ctx.greater(a, b)
                        }
                        22 => {
                            self.count("uge");
                            self.ctx.greater_or_equal(a, b)
                        }
                        23 => {
                            self.count("sgt");
                            self.ctx.greater_signed(a, b)
                        }
                        24 => {
                            self.count("sge");
                            self.ctx.greater_or_equal_signed(a, b)
                        }
                        _ => {
                            self.count("eq");
                            self.ctx.equal(a, b)
                        }
                    };
                }
                26 => {
                    if w != 1 {
                        continue;
                    }
                    self.count("implies");
                    let a = self.gen_bv(1, d);
                    let b = self.gen_bv(1, d);
                    return self.ctx.implies(a, b);
                }
                27 => {
                    if w != 1 || !self.cfg.arrays || !self.cfg.array_eq {
                        continue;
                    }
                    self.count("aeq");
                    let iw = self.rng.range(1, 3) as WidthInt;
                    let dws = [1, 2, 3, 8, 65];
                    let dw = *self.rng.pick(&dws);
                    let a = self.gen_array(iw, dw, d);
                    let b = if self.rng.chance(1, 5) { a } else { self.gen_array(iw, dw, d) };
                    return self.ctx.equal(a, b);
                }
                28 => {
                    if !self.cfg.div_rem {
                        continue;
                    }
                    let a = self.gen_bv(w, d);
                    let b = self.gen_bv(w, d);
                    return match self.rng.below(5) {
                        0 => {
                            self.count("udiv");
                            self.ctx.div(a, b)
                        }
                        1 => {
                            self.count("sdiv");
                            self.ctx.signed_div(a, b)
                        }
                        2 => {
                            self.count("urem");
                            self.ctx.remainder(a, b)
                        }
                        3 => {
                            self.count("srem");
                            self.ctx.signed_remainder(a, b)
                        }
                        _ => {
                            self.count("smod");
                            self.ctx.signed_mod(a, b)
                        }
                    };
                }
                _ => return self.leaf(w),
            }
        }
    }

    pub fn gen_array(&mut self, iw: WidthInt, dw: WidthInt, depth: u32) -> ExprRef {
        if depth == 0 || self.rng.chance(1, 4) {
            return if self.rng.chance(1, 2) {
                self.count("asym");
                self.arr_sym(iw, dw)
            } else {
                self.count("aconst");
                let e = self.leaf(dw);
                self.ctx.array_const(e, iw)
            };
        }
        let d = depth - 1;
        match self.rng.below(6) {
            0 => {
                self.count("aconst");
                let e = self.gen_bv(dw, d);
                self.ctx.array_const(e, iw)
            }
            1..=3 => {
                self.count("store");
                let a = self.gen_array(iw, dw, d);
                let i = self.gen_bv(iw, d);
                let v = self.gen_bv(dw, d);
                self.ctx.array_store(a, i, v)
            }
            4 => {
                self.count("aite");
                let c = self.gen_bv(1, d);
                let t = self.gen_array(iw, dw, d);
                let f = self.gen_array(iw, dw, d);
                self.ctx.ite(c, t, f)
            }
            _ => {
                self.count("asym");
                self.arr_sym(iw, dw)
            }
        }
    }
}

/// all symbols (bit-vector and array) reachable from `e`, in first-visit order
pub fn collect_symbols(ctx: &Context, e: ExprRef) -> Vec<ExprRef> {
    let mut seen = std::collections::HashSet::new();
    let mut out = vec![];
    let mut todo = vec![e];
    while let Some(x) = todo.pop() {
        if !seen.insert(x) {
            continue;
        }
        if ctx[x].is_symbol() {
            out.push(x);
        }
        let mut cs = vec![];
        ctx[x].collect_children(&mut cs);
        for c in cs.into_iter().rev() {
            todo.push(c);
        }
    }
    out
}

/// all distinct nodes reachable from `e`
pub fn collect_nodes(ctx: &Context, e: ExprRef) -> Vec<ExprRef> {
    let mut seen = std::collections::HashSet::new();
    let mut out = vec![];
    let mut todo = vec![e];
    while let Some(x) = todo.pop() {
        if !seen.insert(x) {
            continue;
        }
        out.push(x);
        let mut cs = vec![];
        ctx[x].collect_children(&mut cs);
        for c in cs.into_iter().rev() {
            todo.push(c);
        }
    }
    out
}
