//! C12: expression references are canonical and stable (patronus::expr::Context).
//!
//! One case = one construction history on one fresh `Context::default()`:
//! `(case ID (ops OP..) (res R..) (obs O..) (final O..) (strings "s"..) (tf0 T F) (tf T F) (shadow V..))`
//!   OP    one public builder call with concrete references (zero based indices), see `dump_op`
//!   R     `(e N)` ExprRef returned, `(s N)` StringRef returned, `(p "file:line")` panic
//!   O     `(NODE TYPE EXTRA)`: `ctx[r]` as the harness' own dump, `r.get_type(ctx)`, and the resolved
//!         symbol name (`ctx.get_symbol_name`) or literal value (`BVLitValue::get`) + is_true/is_false/is_zero
//!         (`obs`: at the moment the call returned; `final`: every table entry 0..n at the end)
//!   shadow  violations found by the harness' own shadow structural map (same structure <-> same reference)
//! Interner indices and string indices are read off the `Debug` output (the fields are private).
use crate::dump::quote;
use crate::exprgen::lit_value;
use crate::rng::Rng;
use crate::sexp::{Sexp, read_cases};
use crate::util::*;
use baa::{ArrayMutOps, ArrayOps, ArrayValue, BitVecMutOps, BitVecOps, BitVecValue, BitVecValueRef, SparseArrayValue, Value};
use patronus::expr::*;
use std::collections::{BTreeMap, HashMap, HashSet};
use std::io::Write;

const BINOPS: [&str; 14] = ["and", "or", "xor", "shl", "ashr", "lshr", "add", "mul", "sdiv", "udiv", "smod", "srem", "urem", "sub"];
const WIDTHS: [u32; 24] = [1, 1, 2, 3, 4, 5, 7, 8, 8, 16, 31, 32, 33, 63, 64, 65, 100, 127, 128, 129, 192, 193, 256, 300];
const FORGED_BASE: usize = 1 << 31;

type Words = Vec<u64>;

#[derive(Clone, Debug)]
enum Op {
    Str(String),
    BvSym(String, u32),
    ArrSym(String, u32, u32),
    SymBv(usize, u32),
    SymArr(usize, u32, u32),
    /// bv_lit / lit(Value::BitVec): width, words of the value as handed over, how it was produced, which entry point
    Lit { w: u32, words: Words, route: String, api: u8, via: Option<(String, Words, u64)> },
    BitVecVal(u128, u32),
    Zero(u32),
    One(u32),
    Ones(u32),
    ZeroArr(u32, u32),
    /// lit(Value::Array): the value (dense table or sparse default+entries)
    LitArr { iw: u32, dw: u32, dense: Option<Vec<Words>>, default: Words, entries: Vec<(Words, Words)> },
    True,
    False,
    Distinct(usize, usize),
    Equal(usize, usize),
    Ite(usize, usize, usize),
    Implies(usize, usize),
    Gt(usize, usize),
    Sgt(usize, usize),
    Ge(usize, usize),
    Sge(usize, usize),
    Not(usize),
    Neg(usize),
    Bin(usize, usize, usize),
    Xor3(usize, usize, usize),
    Maj(usize, usize, usize),
    Concat(usize, usize),
    Slice(usize, u32, u32),
    Zext(usize, u32),
    Sext(usize, u32),
    Ext(usize, u32, bool),
    Store(usize, usize, usize),
    AConst(usize, u32),
    Read(usize, usize),
}

#[derive(Clone, Debug, PartialEq)]
enum Out {
    E(usize),
    S(usize),
    P(String),
}

fn words_str(ws: &[u64]) -> String {
    format!("({})", ws.iter().map(|w| w.to_string()).collect::<Vec<_>>().join(" "))
}

fn value_of(w: u32, words: &[u64]) -> BitVecValue {
    BitVecValue::from(BitVecValueRef::new(words, w))
}

fn op_name(op: &Op) -> &'static str {
    match op {
        Op::Str(_) => "string",
        Op::BvSym(..) => "bv_symbol",
        Op::ArrSym(..) => "array_symbol",
        Op::SymBv(..) => "symbol(bv)",
        Op::SymArr(..) => "symbol(array)",
        Op::Lit { .. } => "bv_lit",
        Op::BitVecVal(..) => "bit_vec_val",
        Op::Zero(_) => "zero",
        Op::One(_) => "one",
        Op::Ones(_) => "ones",
        Op::ZeroArr(..) => "zero_array",
        Op::LitArr { .. } => "lit(array)",
        Op::True => "get_true",
        Op::False => "get_false",
        Op::Distinct(..) => "distinct",
        Op::Equal(..) => "equal",
        Op::Ite(..) => "ite",
        Op::Implies(..) => "implies",
        Op::Gt(..) => "greater",
        Op::Sgt(..) => "greater_signed",
        Op::Ge(..) => "greater_or_equal",
        Op::Sge(..) => "greater_or_equal_signed",
        Op::Not(_) => "not",
        Op::Neg(_) => "negate",
        Op::Bin(k, ..) => BINOPS[*k],
        Op::Xor3(..) => "xor3",
        Op::Maj(..) => "majority",
        Op::Concat(..) => "concat",
        Op::Slice(..) => "slice",
        Op::Zext(..) => "zero_extend",
        Op::Sext(..) => "sign_extend",
        Op::Ext(..) => "extend",
        Op::Store(..) => "array_store",
        Op::AConst(..) => "array_const",
        Op::Read(..) => "array_read",
    }
}

/// `observed`: for lit(array) the (default, entries) in the order the implementation stored them
fn dump_op(op: &Op, bld: bool, observed: Option<&(Words, Vec<(Words, Words)>)>) -> String {
    let s = match op {
        Op::Str(s) => format!("(str {})", quote(s)),
        Op::BvSym(s, w) => format!("(bvsym {} {w})", quote(s)),
        Op::ArrSym(s, iw, dw) => format!("(arrsym {} {iw} {dw})", quote(s)),
        Op::SymBv(n, w) => format!("(symbv {n} {w})"),
        Op::SymArr(n, iw, dw) => format!("(symarr {n} {iw} {dw})"),
        Op::Lit { w, words, route, api, via } => match via {
            Some((kind, src, k)) => format!("(lit {w} {} {route} {api} (via {kind} {} {k}))", words_str(words), words_str(src)),
            None => format!("(lit {w} {} {route} {api})", words_str(words)),
        },
        Op::BitVecVal(v, w) => format!("(bitvecval {v} {w})"),
        Op::Zero(w) => format!("(zero {w})"),
        Op::One(w) => format!("(one {w})"),
        Op::Ones(w) => format!("(ones {w})"),
        Op::ZeroArr(iw, dw) => format!("(zeroarr {iw} {dw})"),
        Op::LitArr { iw, dw, dense, default, entries } => {
            let input = match dense {
                Some(t) => format!("(dense {})", t.iter().map(|v| words_str(v)).collect::<Vec<_>>().join(" ")),
                None => format!(
                    "(sparse {} {})",
                    words_str(default),
                    entries.iter().map(|(i, d)| format!("({} {})", words_str(i), words_str(d))).collect::<Vec<_>>().join(" ")
                ),
            };
            let obs = match observed {
                Some((d, es)) => format!(
                    "(order {} {})",
                    words_str(d),
                    es.iter().map(|(i, d)| format!("({} {})", words_str(i), words_str(d))).collect::<Vec<_>>().join(" ")
                ),
                None => "(order)".to_string(),
            };
            format!("(litarr {iw} {dw} {input} {obs})")
        }
        Op::True => "(true)".into(),
        Op::False => "(false)".into(),
        Op::Distinct(a, b) => format!("(distinct {a} {b})"),
        Op::Equal(a, b) => format!("(equal {a} {b})"),
        Op::Ite(c, t, f) => format!("(ite {c} {t} {f})"),
        Op::Implies(a, b) => format!("(implies {a} {b})"),
        Op::Gt(a, b) => format!("(gt {a} {b})"),
        Op::Sgt(a, b) => format!("(sgt {a} {b})"),
        Op::Ge(a, b) => format!("(ge {a} {b})"),
        Op::Sge(a, b) => format!("(sge {a} {b})"),
        Op::Not(e) => format!("(not {e})"),
        Op::Neg(e) => format!("(neg {e})"),
        Op::Bin(k, a, b) => format!("(bin {} {a} {b})", BINOPS[*k]),
        Op::Xor3(a, b, c) => format!("(xor3 {a} {b} {c})"),
        Op::Maj(a, b, c) => format!("(maj {a} {b} {c})"),
        Op::Concat(a, b) => format!("(concat {a} {b})"),
        Op::Slice(e, hi, lo) => format!("(slice {e} {hi} {lo})"),
        Op::Zext(e, by) => format!("(zext {e} {by})"),
        Op::Sext(e, by) => format!("(sext {e} {by})"),
        Op::Ext(e, by, s) => format!("(ext {e} {by} {})", *s as u8),
        Op::Store(a, i, d) => format!("(store {a} {i} {d})"),
        Op::AConst(e, iw) => format!("(aconst {e} {iw})"),
        Op::Read(a, i) => format!("(read {a} {i})"),
    };
    if bld { format!("(bld {s})") } else { s }
}

fn parse_words(x: &Sexp) -> Words {
    x.list().iter().map(|a| a.atom().parse::<u64>().expect("word")).collect()
}

fn parse_op(x: &Sexp) -> (Op, bool) {
    let l = x.list();
    let tag = l[0].atom();
    if tag == "bld" {
        return (parse_op(&l[1]).0, true);
    }
    let u = |i: usize| l[i].atom().parse::<usize>().expect("ref");
    let w = |i: usize| l[i].atom().parse::<u32>().expect("width");
    let op = match tag {
        "str" => Op::Str(l[1].atom().to_string()),
        "bvsym" => Op::BvSym(l[1].atom().to_string(), w(2)),
        "arrsym" => Op::ArrSym(l[1].atom().to_string(), w(2), w(3)),
        "symbv" => Op::SymBv(u(1), w(2)),
        "symarr" => Op::SymArr(u(1), w(2), w(3)),
        "lit" => {
            let via = l.get(5).map(|v| {
                let v = v.list();
                (v[1].atom().to_string(), parse_words(&v[2]), v[3].atom().parse::<u64>().unwrap())
            });
            let mut words = parse_words(&l[2]);
            if let Some((kind, src, k)) = &via {
                // the value is recomputed by patronus itself on every replay
                if let Ok(Some(v)) = guarded(|| patronus_shl(kind, w(1), src, *k)) {
                    words = v.words().to_vec();
                }
            }
            Op::Lit { w: w(1), words, route: l[3].atom().to_string(), api: l[4].atom().parse().unwrap(), via }
        }
        "bitvecval" => Op::BitVecVal(l[1].atom().parse().unwrap(), w(2)),
        "zero" => Op::Zero(w(1)),
        "one" => Op::One(w(1)),
        "ones" => Op::Ones(w(1)),
        "zeroarr" => Op::ZeroArr(w(1), w(2)),
        "litarr" => {
            let input = l[3].list();
            match input[0].atom() {
                "dense" => Op::LitArr { iw: w(1), dw: w(2), dense: Some(input[1..].iter().map(parse_words).collect()), default: vec![], entries: vec![] },
                _ => Op::LitArr {
                    iw: w(1),
                    dw: w(2),
                    dense: None,
                    default: parse_words(&input[1]),
                    entries: input[2..].iter().map(|p| (parse_words(&p.list()[0]), parse_words(&p.list()[1]))).collect(),
                },
            }
        }
        "true" => Op::True,
        "false" => Op::False,
        "distinct" => Op::Distinct(u(1), u(2)),
        "equal" => Op::Equal(u(1), u(2)),
        "ite" => Op::Ite(u(1), u(2), u(3)),
        "implies" => Op::Implies(u(1), u(2)),
        "gt" => Op::Gt(u(1), u(2)),
        "sgt" => Op::Sgt(u(1), u(2)),
        "ge" => Op::Ge(u(1), u(2)),
        "sge" => Op::Sge(u(1), u(2)),
        "not" => Op::Not(u(1)),
        "neg" => Op::Neg(u(1)),
        "bin" => Op::Bin(BINOPS.iter().position(|b| *b == l[1].atom()).expect("binop"), u(2), u(3)),
        "xor3" => Op::Xor3(u(1), u(2), u(3)),
        "maj" => Op::Maj(u(1), u(2), u(3)),
        "concat" => Op::Concat(u(1), u(2)),
        "slice" => Op::Slice(u(1), w(2), w(3)),
        "zext" => Op::Zext(u(1), w(2)),
        "sext" => Op::Sext(u(1), w(2)),
        "ext" => Op::Ext(u(1), w(2), l[3].atom() == "1"),
        "store" => Op::Store(u(1), u(2), u(3)),
        "aconst" => Op::AConst(u(1), w(2)),
        "read" => Op::Read(u(1), u(2)),
        other => panic!("unknown op {other}"),
    };
    (op, false)
}

// ------------------------------------------------------------------ observation
fn sref_index(r: StringRef) -> usize {
    let d = format!("{:?}", r); // StringRef(N)
    d[d.find('(').unwrap() + 1..d.len() - 1].parse().expect("StringRef debug format")
}

fn lit_index(e: &Expr) -> u64 {
    let d = format!("{:?}", e); // BVLiteral(BVLitValue(BitVecValueIndex { width: W, index: I }))
    let i = d.find("index: ").expect("BitVecValueIndex debug format") + 7;
    let rest = &d[i..];
    let end = rest.find(|c: char| !c.is_ascii_digit()).unwrap_or(rest.len());
    rest[..end].parse().unwrap()
}

fn x(e: &ExprRef) -> usize {
    usize::from(*e)
}

/// (node dump mirroring `Expr`, name reference if any)
fn node_dump(ctx: &Context, r: ExprRef) -> String {
    match &ctx[r] {
        Expr::BVSymbol { name, width } => format!("(bvsym {} {width})", sref_index(*name)),
        e @ Expr::BVLiteral(v) => format!("(lit {} {})", lit_index(e), v.width()),
        Expr::BVZeroExt { e, by, width } => format!("(zext {} {by} {width})", x(e)),
        Expr::BVSignExt { e, by, width } => format!("(sext {} {by} {width})", x(e)),
        Expr::BVSlice { e, hi, lo } => format!("(slice {} {hi} {lo})", x(e)),
        Expr::BVNot(e, w) => format!("(not {} {w})", x(e)),
        Expr::BVNegate(e, w) => format!("(neg {} {w})", x(e)),
        Expr::BVEqual(a, b) => format!("(eq {} {})", x(a), x(b)),
        Expr::BVImplies(a, b) => format!("(implies {} {})", x(a), x(b)),
        Expr::BVGreater(a, b) => format!("(ugt {} {})", x(a), x(b)),
        Expr::BVGreaterSigned(a, b, w) => format!("(sgt {} {} {w})", x(a), x(b)),
        Expr::BVGreaterEqual(a, b) => format!("(uge {} {})", x(a), x(b)),
        Expr::BVGreaterEqualSigned(a, b, w) => format!("(sge {} {} {w})", x(a), x(b)),
        Expr::BVConcat(a, b, w) => format!("(concat {} {} {w})", x(a), x(b)),
        Expr::BVAnd(a, b, w) => format!("(bin and {} {} {w})", x(a), x(b)),
        Expr::BVOr(a, b, w) => format!("(bin or {} {} {w})", x(a), x(b)),
        Expr::BVXor(a, b, w) => format!("(bin xor {} {} {w})", x(a), x(b)),
        Expr::BVShiftLeft(a, b, w) => format!("(bin shl {} {} {w})", x(a), x(b)),
        Expr::BVArithmeticShiftRight(a, b, w) => format!("(bin ashr {} {} {w})", x(a), x(b)),
        Expr::BVShiftRight(a, b, w) => format!("(bin lshr {} {} {w})", x(a), x(b)),
        Expr::BVAdd(a, b, w) => format!("(bin add {} {} {w})", x(a), x(b)),
        Expr::BVMul(a, b, w) => format!("(bin mul {} {} {w})", x(a), x(b)),
        Expr::BVSignedDiv(a, b, w) => format!("(bin sdiv {} {} {w})", x(a), x(b)),
        Expr::BVUnsignedDiv(a, b, w) => format!("(bin udiv {} {} {w})", x(a), x(b)),
        Expr::BVSignedMod(a, b, w) => format!("(bin smod {} {} {w})", x(a), x(b)),
        Expr::BVSignedRem(a, b, w) => format!("(bin srem {} {} {w})", x(a), x(b)),
        Expr::BVUnsignedRem(a, b, w) => format!("(bin urem {} {} {w})", x(a), x(b)),
        Expr::BVSub(a, b, w) => format!("(bin sub {} {} {w})", x(a), x(b)),
        Expr::BVArrayRead { array, index, width } => format!("(read {} {} {width})", x(array), x(index)),
        Expr::BVIte { cond, tru, fals } => format!("(ite {} {} {})", x(cond), x(tru), x(fals)),
        Expr::ArraySymbol { name, index_width, data_width } => format!("(arrsym {} {index_width} {data_width})", sref_index(*name)),
        Expr::ArrayConstant { e, index_width, data_width } => format!("(aconst {} {index_width} {data_width})", x(e)),
        Expr::ArrayEqual(a, b) => format!("(aeq {} {})", x(a), x(b)),
        Expr::ArrayStore { array, index, data } => format!("(store {} {} {})", x(array), x(index), x(data)),
        Expr::ArrayIte { cond, tru, fals } => format!("(aite {} {} {})", x(cond), x(tru), x(fals)),
    }
}

fn type_dump(ctx: &Context, r: ExprRef) -> String {
    match guarded(|| r.get_type(ctx)) {
        Ok(Type::BV(w)) => format!("(bv {w})"),
        Ok(Type::Array(a)) => format!("(arr {} {})", a.index_width, a.data_width),
        Err(_) => "(p)".to_string(),
    }
}

fn extra_dump(ctx: &Context, r: ExprRef) -> String {
    match &ctx[r] {
        Expr::BVSymbol { .. } | Expr::ArraySymbol { .. } => match ctx.get_symbol_name(r) {
            Some(n) => format!("(name {})", quote(n)),
            None => "(noname)".into(),
        },
        e @ Expr::BVLiteral(v) => {
            let val = v.get(ctx);
            format!("(val {} {} {} {} {})", val.width(), words_str(val.words()), e.is_true() as u8, e.is_false() as u8, ctx.is_zero(r) as u8)
        }
        _ => "-".into(),
    }
}

fn observe(ctx: &Context, r: ExprRef) -> String {
    format!("({} {} {})", node_dump(ctx, r), type_dump(ctx, r), extra_dump(ctx, r))
}

/// the structural key of the property text: operator, operand references, widths, literal VALUE, symbol NAME and type
fn structural_key(ctx: &Context, r: ExprRef) -> String {
    match &ctx[r] {
        Expr::BVSymbol { width, .. } => format!("(bvsym {} {width})", quote(ctx.get_symbol_name(r).unwrap_or("?"))),
        Expr::ArraySymbol { index_width, data_width, .. } => {
            format!("(arrsym {} {index_width} {data_width})", quote(ctx.get_symbol_name(r).unwrap_or("?")))
        }
        Expr::BVLiteral(v) => format!("(lit {} b{})", v.width(), v.get(ctx).to_bit_str()),
        _ => node_dump(ctx, r),
    }
}

// ------------------------------------------------------------------ running one history
struct Run {
    ctx: Context,
    srefs: Vec<Option<StringRef>>,
    strings: Vec<Option<String>>,
    shadow_by_key: HashMap<String, usize>,
    shadow_by_ref: HashMap<usize, String>,
    violations: Vec<String>,
    ops_txt: Vec<String>,
    res_txt: Vec<String>,
    obs_txt: Vec<String>,
    /// number of table entries (lower bound: highest index seen + 1)
    known_len: usize,
}

impl Run {
    fn new() -> Run {
        Run {
            ctx: Context::default(),
            srefs: vec![],
            strings: vec![],
            shadow_by_key: HashMap::new(),
            shadow_by_ref: HashMap::new(),
            violations: vec![],
            ops_txt: vec![],
            res_txt: vec![],
            obs_txt: vec![],
            known_len: 2,
        }
    }

    fn note_sref(&mut self, r: StringRef) {
        let i = sref_index(r);
        if self.srefs.len() <= i {
            self.srefs.resize(i + 1, None);
            self.strings.resize(i + 1, None);
        }
        self.srefs[i] = Some(r);
        let s = self.ctx[r].clone();
        match &self.strings[i] {
            Some(old) if *old != s => self.violations.push(format!("(string-changed {i} {} {})", quote(old), quote(&s))),
            _ => {}
        }
        self.strings[i] = Some(s);
    }

    fn shadow_check(&mut self, r: usize) {
        let key = structural_key(&self.ctx, ExprRef::from(r));
        match self.shadow_by_key.get(&key) {
            Some(&r0) if r0 != r => self.violations.push(format!("(same-structure-two-refs {} {r0} {r})", quote(&key))),
            Some(_) => {}
            None => {
                self.shadow_by_key.insert(key.clone(), r);
            }
        }
        match self.shadow_by_ref.get(&r) {
            Some(k0) if *k0 != key => self.violations.push(format!("(ref-changed-structure {r} {} {})", quote(k0), quote(&key))),
            Some(_) => {}
            None => {
                self.shadow_by_ref.insert(r, key);
            }
        }
    }

    fn step(&mut self, op: &Op, bld: bool) -> Out {
        let srefs = self.srefs.clone();
        let ctx = &mut self.ctx;
        let r = guarded(|| apply(ctx, op, bld, &srefs));
        let out = match r {
            Ok(Ok(e)) => Out::E(usize::from(e)),
            Ok(Err(s)) => {
                let i = sref_index(s);
                Out::S(i)
            }
            Err(_) => Out::P(last_panic_loc()),
        };
        let mut observed = None;
        match &out {
            Out::E(r) if {
                // zero_extend(e, 0) & co. hand back their argument unchecked: the result can be a dangling reference
                let ctx = &self.ctx;
                let er = ExprRef::from(*r);
                guarded(|| {
                    let _ = &ctx[er];
                })
                .is_err()
            } =>
            {
                self.obs_txt.push("dangling".into());
            }
            Out::E(r) => {
                self.known_len = self.known_len.max(r + 1);
                let er = ExprRef::from(*r);
                self.obs_txt.push(observe(&self.ctx, er));
                self.shadow_check(*r);
                if let Some(Expr::BVSymbol { name, .. } | Expr::ArraySymbol { name, .. }) = Some(&self.ctx[er]) {
                    let n = *name;
                    self.note_sref(n);
                }
                if let Op::LitArr { .. } = op {
                    observed = Some(read_back_array(&self.ctx, er));
                }
            }
            Out::S(i) => {
                // a StringRef can only come from `string`
                if let Ok(Err(s)) = r {
                    self.note_sref(s);
                }
                let _ = i;
                self.obs_txt.push("-".into());
            }
            Out::P(_) => self.obs_txt.push("-".into()),
        }
        self.ops_txt.push(dump_op(op, bld, observed.as_ref()));
        self.res_txt.push(match &out {
            Out::E(r) => format!("(e {r})"),
            Out::S(r) => format!("(s {r})"),
            Out::P(l) => format!("(p {})", quote(l)),
        });
        out
    }

    fn table_len(&mut self) -> usize {
        // there is no public len(): probe until `ctx[r]` panics
        let mut n = self.known_len;
        loop {
            let ctx = &self.ctx;
            if guarded(|| {
                let _ = &ctx[ExprRef::from(n)];
            })
            .is_err()
            {
                break;
            }
            n += 1;
        }
        self.known_len = n;
        n
    }

    fn finish(mut self, id: &str, tf0: (usize, usize)) -> String {
        let n = self.table_len();
        let mut fin = Vec::with_capacity(n);
        for r in 0..n {
            let er = ExprRef::from(r);
            fin.push(observe(&self.ctx, er));
            self.shadow_check(r);
            if let Expr::BVSymbol { name, .. } | Expr::ArraySymbol { name, .. } = &self.ctx[er] {
                let nm = *name;
                self.note_sref(nm);
            }
        }
        // strings: re-read every known reference at the end
        let mut strs = vec![];
        for i in 0..self.srefs.len() {
            match self.srefs[i] {
                Some(r) => {
                    let now = self.ctx[r].clone();
                    if let Some(old) = &self.strings[i] {
                        if *old != now {
                            self.violations.push(format!("(string-changed {i} {} {})", quote(old), quote(&now)));
                        }
                    }
                    strs.push(quote(&now));
                }
                None => strs.push("?".into()),
            }
        }
        let t = usize::from(self.ctx.get_true());
        let f = usize::from(self.ctx.get_false());
        // a few references unfolded into trees by the shared tree dumper (sharing expanded; small trees only)
        let mut trees = vec![];
        let step = (n / 24).max(1);
        for r in (0..n).rev().step_by(step).take(24) {
            let ctx = &self.ctx;
            let er = ExprRef::from(r);
            if let Ok(size) = guarded(|| crate::dump::tree_size(ctx, er, 300)) {
                if size <= 300 {
                    if let Ok(tree) = guarded(|| crate::dump::dump_expr(ctx, er)) {
                        trees.push(format!("({r} {tree})"));
                    }
                }
            }
        }
        format!(
            "(case {id} (ops {}) (res {}) (obs {}) (final {}) (strings {}) (tf0 {} {}) (tf {t} {f}) (trees {}) (shadow {}))",
            self.ops_txt.join(" "),
            self.res_txt.join(" "),
            self.obs_txt.join(" "),
            fin.join(" "),
            strs.join(" "),
            tf0.0,
            tf0.1,
            trees.join(" "),
            self.violations.join(" ")
        )
    }
}

/// walk a `lit(array)` result: (default words, stores in the order they were applied)
fn read_back_array(ctx: &Context, r: ExprRef) -> (Words, Vec<(Words, Words)>) {
    let lit_words = |e: ExprRef| -> Words {
        match &ctx[e] {
            Expr::BVLiteral(v) => v.get(ctx).words().to_vec(),
            _ => vec![],
        }
    };
    let mut stores = vec![];
    let mut cur = r;
    loop {
        match &ctx[cur] {
            Expr::ArrayStore { array, index, data } => {
                stores.push((lit_words(*index), lit_words(*data)));
                cur = *array;
            }
            Expr::ArrayConstant { e, .. } => {
                stores.reverse();
                return (lit_words(*e), stores);
            }
            _ => return (vec![], stores),
        }
    }
}

fn build_array(iw: u32, dw: u32, dense: &Option<Vec<Words>>, default: &Words, entries: &[(Words, Words)]) -> ArrayValue {
    match dense {
        Some(table) => {
            let mut a = ArrayValue::new_dense(iw, &value_of(dw, &table[0]));
            for (i, v) in table.iter().enumerate() {
                a.store(&BitVecValue::from_u64(i as u64, iw), &value_of(dw, v));
            }
            a
        }
        None => {
            let mut a = ArrayValue::new_sparse(iw, &value_of(dw, default));
            for (i, d) in entries.iter() {
                a.store(&value_of(iw, i), &value_of(dw, d));
            }
            a
        }
    }
}

/// Ok(Ok(expr)) | Ok(Err(string ref)); panics propagate to `guarded`
fn apply(ctx: &mut Context, op: &Op, bld: bool, srefs: &[Option<StringRef>]) -> Result<ExprRef, StringRef> {
    let e = |i: &usize| ExprRef::from(*i);
    let r = match op {
        Op::Str(s) => return Err(ctx.string(s.as_str().into())),
        Op::BvSym(s, w) => {
            if bld {
                ctx.build(|b| b.bv_symbol(s, *w))
            } else {
                ctx.bv_symbol(s, *w)
            }
        }
        Op::ArrSym(s, iw, dw) => ctx.array_symbol(s, *iw, *dw),
        Op::SymBv(n, w) => {
            let name = srefs[*n].expect("known string ref");
            if bld { ctx.build(|b| b.symbol(name, Type::BV(*w))) } else { ctx.symbol(name, Type::BV(*w)) }
        }
        Op::SymArr(n, iw, dw) => {
            let name = srefs[*n].expect("known string ref");
            ctx.symbol(name, Type::Array(ArrayType { index_width: *iw, data_width: *dw }))
        }
        Op::Lit { w, words, api, .. } => {
            let v = value_of(*w, words);
            match (api, bld) {
                (_, true) => ctx.build(|b| b.bv_lit(&v)),
                (1, _) => ctx.lit(Value::BitVec(v)),
                (2, _) => ctx.bv_lit(BitVecValueRef::new(words, *w)),
                (3, _) => ctx.lit(&Value::BitVec(v)),
                _ => ctx.bv_lit(&v),
            }
        }
        Op::BitVecVal(v, w) => {
            if bld { ctx.build(|b| b.bit_vec_val(*v, *w)) } else { ctx.bit_vec_val(*v, *w) }
        }
        Op::Zero(w) => {
            if bld { ctx.build(|b| b.zero(*w)) } else { ctx.zero(*w) }
        }
        Op::One(w) => {
            if bld { ctx.build(|b| b.one(*w)) } else { ctx.one(*w) }
        }
        Op::Ones(w) => {
            if bld { ctx.build(|b| b.ones(*w)) } else { ctx.ones(*w) }
        }
        Op::ZeroArr(iw, dw) => {
            let t = ArrayType { index_width: *iw, data_width: *dw };
            if bld { ctx.build(|b| b.zero_array(t)) } else { ctx.zero_array(t) }
        }
        Op::LitArr { iw, dw, dense, default, entries } => {
            let a = build_array(*iw, *dw, dense, default, entries);
            ctx.lit(Value::Array(a))
        }
        Op::True => {
            if bld { ctx.build(|b| b.get_true()) } else { ctx.get_true() }
        }
        Op::False => {
            if bld { ctx.build(|b| b.get_false()) } else { ctx.get_false() }
        }
        Op::Distinct(a, b) => ctx.distinct(e(a), e(b)),
        Op::Equal(a, b) => {
            if bld { ctx.build(|x| x.equal(e(a), e(b))) } else { ctx.equal(e(a), e(b)) }
        }
        Op::Ite(c, t, f) => {
            if bld { ctx.build(|x| x.ite(e(c), e(t), e(f))) } else { ctx.ite(e(c), e(t), e(f)) }
        }
        Op::Implies(a, b) => {
            if bld { ctx.build(|x| x.implies(e(a), e(b))) } else { ctx.implies(e(a), e(b)) }
        }
        Op::Gt(a, b) => {
            if bld { ctx.build(|x| x.greater(e(a), e(b))) } else { ctx.greater(e(a), e(b)) }
        }
        Op::Sgt(a, b) => {
            if bld { ctx.build(|x| x.greater_signed(e(a), e(b))) } else { ctx.greater_signed(e(a), e(b)) }
        }
        Op::Ge(a, b) => {
            if bld { ctx.build(|x| x.greater_or_equal(e(a), e(b))) } else { ctx.greater_or_equal(e(a), e(b)) }
        }
        Op::Sge(a, b) => {
            if bld {
                ctx.build(|x| x.greater_or_equal_signed(e(a), e(b)))
            } else {
                ctx.greater_or_equal_signed(e(a), e(b))
            }
        }
        Op::Not(a) => {
            if bld { ctx.build(|x| x.not(e(a))) } else { ctx.not(e(a)) }
        }
        Op::Neg(a) => {
            if bld { ctx.build(|x| x.negate(e(a))) } else { ctx.negate(e(a)) }
        }
        Op::Bin(k, a, b) => {
            let (a, b) = (e(a), e(b));
            if bld {
                ctx.build(|x| match *k {
                    0 => x.and(a, b),
                    1 => x.or(a, b),
                    2 => x.xor(a, b),
                    3 => x.shift_left(a, b),
                    4 => x.arithmetic_shift_right(a, b),
                    5 => x.shift_right(a, b),
                    6 => x.add(a, b),
                    7 => x.mul(a, b),
                    8 => x.signed_div(a, b),
                    9 => x.div(a, b),
                    10 => x.signed_mod(a, b),
                    11 => x.signed_remainder(a, b),
                    12 => x.remainder(a, b),
                    _ => x.sub(a, b),
                })
            } else {
                match *k {
                    0 => ctx.and(a, b),
                    1 => ctx.or(a, b),
                    2 => ctx.xor(a, b),
                    3 => ctx.shift_left(a, b),
                    4 => ctx.arithmetic_shift_right(a, b),
                    5 => ctx.shift_right(a, b),
                    6 => ctx.add(a, b),
                    7 => ctx.mul(a, b),
                    8 => ctx.signed_div(a, b),
                    9 => ctx.div(a, b),
                    10 => ctx.signed_mod(a, b),
                    11 => ctx.signed_remainder(a, b),
                    12 => ctx.remainder(a, b),
                    _ => ctx.sub(a, b),
                }
            }
        }
        Op::Xor3(a, b, c) => {
            if bld { ctx.build(|mut x| x.xor3(e(a), e(b), e(c))) } else { ctx.xor3(e(a), e(b), e(c)) }
        }
        Op::Maj(a, b, c) => {
            if bld { ctx.build(|mut x| x.majority(e(a), e(b), e(c))) } else { ctx.majority(e(a), e(b), e(c)) }
        }
        Op::Concat(a, b) => {
            if bld { ctx.build(|x| x.concat(e(a), e(b))) } else { ctx.concat(e(a), e(b)) }
        }
        Op::Slice(a, hi, lo) => {
            if bld { ctx.build(|x| x.slice(e(a), *hi, *lo)) } else { ctx.slice(e(a), *hi, *lo) }
        }
        Op::Zext(a, by) => {
            if bld { ctx.build(|x| x.zero_extend(e(a), *by)) } else { ctx.zero_extend(e(a), *by) }
        }
        Op::Sext(a, by) => {
            if bld { ctx.build(|x| x.sign_extend(e(a), *by)) } else { ctx.sign_extend(e(a), *by) }
        }
        Op::Ext(a, by, s) => {
            if bld { ctx.build(|mut x| x.extend(e(a), *by, *s)) } else { ctx.extend(e(a), *by, *s) }
        }
        Op::Store(a, i, d) => {
            if bld { ctx.build(|x| x.array_store(e(a), e(i), e(d))) } else { ctx.array_store(e(a), e(i), e(d)) }
        }
        Op::AConst(a, iw) => {
            if bld { ctx.build(|x| x.array_const(e(a), *iw)) } else { ctx.array_const(e(a), *iw) }
        }
        Op::Read(a, i) => {
            if bld { ctx.build(|x| x.array_read(e(a), e(i))) } else { ctx.array_read(e(a), e(i)) }
        }
    };
    Ok(r)
}

/// `src << k` at width w as patronus computes it: constant folding (`simplify_shl`) or evaluation (`eval_shl`)
fn patronus_shl(kind: &str, w: u32, src: &[u64], k: u64) -> Option<BitVecValue> {
    let mut scratch = Context::default();
    let (a, b) = (scratch.bv_lit(&value_of(w, src)), scratch.bv_lit(&BitVecValue::from_u64(k, w)));
    let e = scratch.shift_left(a, b);
    if kind == "eval_shl" {
        Some(eval_bv_expr(&scratch, &SymbolValueStore::default(), e))
    } else {
        let r = simplify_single_expression(&mut scratch, e);
        match &scratch[r] {
            Expr::BVLiteral(v) => Some(BitVecValue::from(v.get(&scratch))),
            _ => None,
        }
    }
}

// ------------------------------------------------------------------ literal values by many routes
fn from_bits(bits: &str) -> BitVecValue {
    BitVecValue::from_bit_str(bits).unwrap()
}

fn rand_bits(rng: &mut Rng, n: usize) -> String {
    (0..n).map(|_| if rng.chance(1, 2) { '1' } else { '0' }).collect()
}

const ROUTES: [&str; 33] = [
    "direct", "u64", "u128", "add", "sub", "xor", "and", "or", "not", "neg", "concat", "slice", "zext", "sext", "shl", "lshr",
    "ashr", "mul", "i64", "bytes", "array", "zero_ones", "refclone", "setbits", "hex", "slice_lo", "shl_words", "simplify_shl", "eval_shl", "eval_random", "eval_random", "simplify_random", "simplify_random",
];

/// produce the value with bit string `bits` (msb first) by the given computation; None = route not applicable
fn value_via(rng: &mut Rng, bits: &str, route: &str, label: &mut String, via: &mut Option<(String, Words, u64)>) -> Option<BitVecValue> {
    let w = bits.len() as u32;
    let target = from_bits(bits);
    let lead0 = bits.bytes().take_while(|b| *b == b'0').count();
    let lead_same = bits.bytes().take_while(|b| *b == bits.as_bytes()[0]).count();
    let trail0 = bits.bytes().rev().take_while(|b| *b == b'0').count();
    let r = match route {
        "direct" => target.clone(),
        "u64" => BitVecValue::from_u64(target.to_u64()?, w),
        "u128" => {
            if w > 128 && lead0 < (w as usize - 128) {
                return None;
            }
            let mut v: u128 = 0;
            for b in bits.bytes() {
                v = (v << 1) | (b == b'1') as u128;
            }
            BitVecValue::from_u128(v, w)
        }
        "add" => {
            let a = from_bits(&rand_bits(rng, w as usize));
            let b = target.sub(&a);
            a.add(&b)
        }
        "sub" => {
            let a = from_bits(&rand_bits(rng, w as usize));
            let b = a.sub(&target);
            a.sub(&b)
        }
        "xor" => {
            let a = from_bits(&rand_bits(rng, w as usize));
            let b = target.xor(&a);
            a.xor(&b)
        }
        "and" | "or" => {
            let m = rand_bits(rng, w as usize);
            // and: (t | m) & (t | !m) = t        or: (t & m) | (t & !m) = t
            let pick = |keep_if: u8, fill: u8| -> String {
                bits.bytes().zip(m.bytes()).map(|(t, mm)| if mm == keep_if { t as char } else { fill as char }).collect()
            };
            if route == "and" {
                from_bits(&pick(b'0', b'1')).and(&from_bits(&pick(b'1', b'1')))
            } else {
                from_bits(&pick(b'0', b'0')).or(&from_bits(&pick(b'1', b'0')))
            }
        }
        "not" => {
            let flipped: String = bits.bytes().map(|b| if b == b'1' { '0' } else { '1' }).collect();
            from_bits(&flipped).not()
        }
        "neg" => target.negate().negate(),
        "concat" => {
            if w < 2 {
                return None;
            }
            let k = rng.range(1, w as u64 - 1) as usize;
            from_bits(&bits[..k]).concat(&from_bits(&bits[k..]))
        }
        "slice" => {
            let p = rng.below(70) as usize;
            let s = rng.below(70) as usize;
            let big = format!("{}{}{}", rand_bits(rng, p), bits, rand_bits(rng, s));
            from_bits(&big).slice(s as u32 + w - 1, s as u32)
        }
        "slice_lo" => {
            let p = rng.range(1, 130) as usize;
            let big = format!("{}{}", rand_bits(rng, p), bits);
            from_bits(&big).slice(w - 1, 0)
        }
        "zext" => {
            if lead0 == 0 || w < 2 {
                return None;
            }
            let k = rng.range(1, lead0.min(w as usize - 1) as u64) as usize;
            from_bits(&bits[k..]).zero_extend(k as u32)
        }
        "sext" => {
            if lead_same < 2 {
                return None;
            }
            let k = rng.range(1, (lead_same - 1).min(w as usize - 1) as u64) as usize;
            from_bits(&bits[k..]).sign_extend(k as u32)
        }
        "shl" | "shl_words" | "simplify_shl" | "eval_shl" => {
            if trail0 == 0 || w < 2 {
                return None;
            }
            let kmax = trail0.min(w as usize - 1);
            let k = if route == "shl_words" {
                // whole-word shifts: the amount is a multiple of 64
                if kmax < 64 {
                    return None;
                }
                64 * rng.range(1, kmax as u64 / 64) as usize
            } else {
                rng.range(1, kmax as u64) as usize
            };
            if route == "shl" && k % 64 == 0 {
                return None;
            }
            if w < 64 && (k as u64) >= (1u64 << w) {
                return None;
            }
            let src = from_bits(&format!("{}{}", rand_bits(rng, k), &bits[..w as usize - k]));
            let amount = BitVecValue::from_u64(k as u64, w);
            match route {
                "simplify_shl" | "eval_shl" => {
                    // the value as patronus itself computes it (constant folding / concrete evaluation)
                    if k % 64 == 0 {
                        label.push_str("_words");
                    }
                    *via = Some((route.to_string(), src.words().to_vec(), k as u64));
                    patronus_shl(route, w, src.words(), k as u64)?
                }
                _ => src.shift_left(&amount),
            }
        }
        "lshr" | "ashr" => {
            let run = if route == "lshr" { lead0 } else { lead_same.saturating_sub(1) };
            if run == 0 || w < 2 {
                return None;
            }
            let k = rng.range(1, run.min(w as usize - 1) as u64) as usize;
            if w < 64 && (k as u64) >= (1u64 << w) {
                return None;
            }
            let src = format!("{}{}", &bits[k..], rand_bits(rng, k));
            let amount = BitVecValue::from_u64(k as u64, w);
            if route == "lshr" { from_bits(&src).shift_right(&amount) } else { from_bits(&src).arithmetic_shift_right(&amount) }
        }
        "mul" => {
            if w > 128 {
                return None;
            }
            target.mul(&BitVecValue::from_u64(1, w))
        }
        "i64" => {
            if w > 64 {
                return None;
            }
            let u = target.to_u64()?;
            let signed = if w == 64 { u as i64 } else if (u >> (w - 1)) & 1 == 1 { (u as i64) - (1i64 << w) } else { u as i64 };
            BitVecValue::from_i64(signed, w)
        }
        "bytes" => BitVecValue::from_bytes_le(&target.to_bytes_le(), w),
        "array" => {
            let mut a = ArrayValue::new_sparse(3, &BitVecValue::zero(w));
            let i = BitVecValue::from_u64(rng.below(8), 3);
            a.store(&i, &target);
            a.select(&i)
        }
        "zero_ones" => {
            if bits.bytes().all(|b| b == b'0') {
                BitVecValue::zero(w)
            } else if bits.bytes().all(|b| b == b'1') {
                BitVecValue::ones(w)
            } else {
                return None;
            }
        }
        "eval_random" | "simplify_random" => {
            // an arbitrary value of width w: a random operator applied to random literals, computed by
            // patronus' evaluator or constant folder (the target bits are ignored)
            let mut scratch = Context::default();
            let lit = |c: &mut Context, rng: &mut Rng, w: u32| {
                let v = lit_value(rng, w);
                c.bv_lit(&v)
            };
            let opk = rng.below(16);
            let e = match opk {
                0..=8 => {
                    let a = lit(&mut scratch, rng, w);
                    let mut whole_words = false;
                    let b = if (3..=5).contains(&opk) {
                        let v = if w > 64 && rng.chance(1, 4) {
                            BitVecValue::from_u64(64 * rng.range(1, (w as u64 - 1) / 64), w)
                        } else {
                            crate::exprgen::shift_amount(rng, w)
                        };
                        whole_words = matches!(v.to_u64(), Some(k) if k > 0 && k % 64 == 0 && k < w as u64);
                        scratch.bv_lit(&v)
                    } else {
                        lit(&mut scratch, rng, w)
                    };
                    label.push_str(["_add", "_sub", "_xor", "_shl", "_lshr", "_ashr", "_and", "_or", "_mul"][opk as usize]);
                    if whole_words {
                        label.push_str("_words");
                    }
                    match opk {
                        0 => scratch.add(a, b),
                        1 => scratch.sub(a, b),
                        2 => scratch.xor(a, b),
                        3 => scratch.shift_left(a, b),
                        4 => scratch.shift_right(a, b),
                        5 => scratch.arithmetic_shift_right(a, b),
                        6 => scratch.and(a, b),
                        7 => scratch.or(a, b),
                        _ => {
                            if w > 64 {
                                return None;
                            }
                            scratch.mul(a, b)
                        }
                    }
                }
                9 => {
                    label.push_str("_not");
                    let a = lit(&mut scratch, rng, w);
                    scratch.not(a)
                }
                10 => {
                    label.push_str("_neg");
                    let a = lit(&mut scratch, rng, w);
                    scratch.negate(a)
                }
                11 => {
                    if w < 2 {
                        return None;
                    }
                    label.push_str("_concat");
                    let k = rng.range(1, w as u64 - 1) as u32;
                    let (a, b) = (lit(&mut scratch, rng, k), lit(&mut scratch, rng, w - k));
                    scratch.concat(a, b)
                }
                12 => {
                    label.push_str("_slice");
                    let (p, q) = (rng.below(130) as u32, rng.below(130) as u32);
                    let a = lit(&mut scratch, rng, p + w + q);
                    scratch.slice(a, q + w - 1, q)
                }
                13 | 14 => {
                    if w < 2 {
                        return None;
                    }
                    label.push_str(if opk == 13 { "_zext" } else { "_sext" });
                    let k = rng.range(1, w as u64 - 1) as u32;
                    let a = lit(&mut scratch, rng, w - k);
                    if opk == 13 { scratch.zero_extend(a, k) } else { scratch.sign_extend(a, k) }
                }
                _ => {
                    label.push_str("_ite");
                    let c = lit(&mut scratch, rng, 1);
                    let (a, b) = (lit(&mut scratch, rng, w), lit(&mut scratch, rng, w));
                    scratch.ite(c, a, b)
                }
            };
            if route == "eval_random" {
                eval_bv_expr(&scratch, &SymbolValueStore::default(), e)
            } else {
                let r = simplify_single_expression(&mut scratch, e);
                match &scratch[r] {
                    Expr::BVLiteral(v) => BitVecValue::from(v.get(&scratch)),
                    _ => return None,
                }
            }
        }
        "refclone" => BitVecValue::from(BitVecValueRef::from(&target)),
        "setbits" => {
            let mut v = BitVecValue::ones(w);
            for (i, b) in bits.bytes().rev().enumerate() {
                if b == b'0' {
                    v.clear_bit(i as u32);
                }
            }
            v
        }
        "hex" => {
            let hex = target.to_hex_str();
            BitVecValue::from_str_radix(&hex, 16, w).ok()?
        }
        _ => return None,
    };
    Some(r)
}

// ------------------------------------------------------------------ generator
struct Gen<'a> {
    rng: &'a mut Rng,
    run: Run,
    history: Vec<(Op, bool, usize)>, // op, via builder, table size when first issued
    bv: BTreeMap<u32, Vec<usize>>,
    arr: BTreeMap<(u32, u32), Vec<usize>>,
    all: Vec<usize>,
    pooled: HashSet<usize>,
    names: Vec<String>,
    targets: BTreeMap<u32, Vec<String>>,
    fresh: u64,
    /// share (per 1000) of ill-typed / forged calls
    ill: u64,
}

impl<'a> Gen<'a> {
    fn pool(&mut self, r: usize) {
        if !self.pooled.insert(r) {
            return;
        }
        self.all.push(r);
        let ctx = &self.run.ctx;
        match guarded(|| ExprRef::from(r).get_type(ctx)) {
            Ok(Type::BV(w)) if w > 0 && w <= 600 => self.bv.entry(w).or_default().push(r),
            Ok(Type::Array(a)) if a.index_width > 0 && a.data_width > 0 && a.index_width <= 128 && a.data_width <= 600 => self.arr.entry((a.index_width, a.data_width)).or_default().push(r),
            Ok(_) => {}
            Err(_) => {}
        }
    }

    fn width(&mut self) -> u32 {
        *self.rng.pick(&WIDTHS)
    }

    fn name(&mut self) -> String {
        if !self.names.is_empty() && self.rng.chance(1, 2) {
            return self.rng.pick(&self.names).clone();
        }
        let n = match self.rng.below(12) {
            0 => "".to_string(),
            1 => "a b".to_string(),
            2 => "x\"y\\z".to_string(),
            3 => "\u{e9}\u{4e16}".to_string(),
            4 => "A".to_string(),
            5 => "a".to_string(),
            _ => {
                self.fresh += 1;
                format!("s{}", self.fresh)
            }
        };
        self.names.push(n.clone());
        n
    }

    /// a reference of bit-vector width w (creating a symbol or literal if none exists yet)
    fn bv_ref(&mut self, w: u32) -> usize {
        if let Some(v) = self.bv.get(&w) {
            if !v.is_empty() && !self.rng.chance(1, 12) {
                // prefer recent and very old entries alike
                return *self.rng.pick(v);
            }
        }
        let op = if self.rng.chance(1, 2) { Op::BvSym(self.name(), w) } else { self.lit_op(w) };
        match self.issue(op, false) {
            Out::E(r) => r,
            _ => 0,
        }
    }

    fn some_bv_width(&mut self) -> u32 {
        let ks: Vec<u32> = self.bv.keys().copied().collect();
        if ks.is_empty() || self.rng.chance(1, 8) { self.width() } else { *self.rng.pick(&ks) }
    }

    fn arr_ref(&mut self, iw: u32, dw: u32) -> usize {
        if let Some(v) = self.arr.get(&(iw, dw)) {
            if !v.is_empty() && !self.rng.chance(1, 6) {
                return *self.rng.pick(v);
            }
        }
        let op = if self.rng.chance(1, 2) {
            Op::ArrSym(self.name(), iw, dw)
        } else {
            let e = self.bv_ref(dw);
            Op::AConst(e, iw)
        };
        match self.issue(op, false) {
            Out::E(r) => r,
            _ => 0,
        }
    }

    fn some_arr_type(&mut self) -> (u32, u32) {
        let ks: Vec<(u32, u32)> = self.arr.keys().copied().collect();
        if ks.is_empty() || self.rng.chance(1, 5) {
            (self.rng.range(1, 6) as u32, self.width())
        } else {
            *self.rng.pick(&ks)
        }
    }

    fn target_bits(&mut self, w: u32) -> String {
        let pool = self.targets.entry(w).or_default();
        if !pool.is_empty() && self.rng.chance(3, 5) {
            return self.rng.pick(pool).clone();
        }
        let bits = match self.rng.below(4) {
            0 => {
                // small numbers: the `< 8` fast path and its neighbours
                let v = self.rng.below(20);
                if w >= 64 || v < (1u64 << w) { format!("{:0width$b}", v, width = w as usize) } else { lit_value(self.rng, w).to_bit_str() }
            }
            _ => lit_value(self.rng, w).to_bit_str(),
        };
        let pool = self.targets.entry(w).or_default();
        if pool.len() < 12 {
            pool.push(bits.clone());
        }
        bits
    }

    fn lit_op(&mut self, w: u32) -> Op {
        let bits = self.target_bits(w);
        match self.rng.below(12) {
            0 if bits.bytes().all(|b| b == b'0') => return Op::Zero(w),
            1 if bits.bytes().all(|b| b == b'1') => return Op::Ones(w),
            2 if w <= 128 => {
                let mut v: u128 = 0;
                for b in bits.bytes() {
                    v = (v << 1) | (b == b'1') as u128;
                }
                // from_u128 looks only at the low word when the width is at most 64: garbage above bit 63 is dropped
                if w <= 64 && self.rng.chance(1, 3) {
                    v |= (1 + self.rng.below(1000) as u128) << 64;
                }
                return Op::BitVecVal(v, w);
            }
            _ => {}
        }
        for _ in 0..6 {
            let route = *self.rng.pick(&ROUTES);
            let rng = &mut *self.rng;
            if route == "shl_words" && !rng.chance(1, 5) {
                // direct use of baa's whole-word shift (a recorded dependency defect): keep it rare
                continue;
            }
            let mut label = route.to_string();
            let mut via = None;
            let produced = guarded(|| value_via(rng, &bits, route, &mut label, &mut via));
            match produced {
                Ok(Some(v)) => {
                    if v.width() != w {
                        continue;
                    }
                    let api = self.rng.below(4) as u8;
                    let produced_bits = v.to_bit_str();
                    let pool = self.targets.entry(w).or_default();
                    if produced_bits != bits && pool.len() < 16 {
                        pool.push(produced_bits);
                    }
                    return Op::Lit { w, words: v.words().to_vec(), route: label, api, via };
                }
                Ok(None) => continue,
                Err(_) => continue, // a baa operation panicked while producing the value: not this property's business
            }
        }
        let v = from_bits(&bits);
        Op::Lit { w, words: v.words().to_vec(), route: "direct".into(), api: 0, via: None }
    }

    fn lit_arr_op(&mut self) -> Op {
        let dw = self.width();
        if self.rng.chance(1, 4) {
            // dense table: data width 1 (bit table), 2..8 (u8 table: baa's dense->sparse conversion indexes a
            // [usize; 8] by the data byte and panics for bytes >= 8, a recorded dependency defect) or > 8 (word tables)
            let iw = self.rng.range(1, 3) as u32;
            let dw = if self.rng.chance(1, 2) { 1 } else { *self.rng.pick(&[2u32, 3, 4, 8, 9, 16, 33, 64, 65, 100]) };
            // a strict majority value, so that the default chosen by baa is determined
            let n = 1usize << iw;
            let major = lit_value(self.rng, dw);
            let mut table: Vec<Words> = vec![major.words().to_vec(); n];
            let others = self.rng.below((n as u64 + 1) / 2) as usize; // < n/2 differing entries
            for k in 0..others {
                let mut v = lit_value(self.rng, dw);
                if v.words() == major.words() {
                    v = major.not();
                }
                table[(k * 2 + 1) % n] = v.words().to_vec();
            }
            // data width 1 with exactly n/2 ones is a tie: keep a strict majority
            return Op::LitArr { iw, dw, dense: Some(table), default: vec![], entries: vec![] };
        }
        let iw = *self.rng.pick(&[1u32, 2, 4, 8, 32, 64, 65, 100]);
        let default = lit_value(self.rng, dw);
        let k = match self.rng.below(10) {
            0..=3 => 0,
            4..=7 => 1,
            8 => 2,
            _ => self.rng.range(2, 5) as usize,
        };
        let mut entries: Vec<(Words, Words)> = vec![];
        for _ in 0..k {
            let i = lit_value(self.rng, iw);
            let mut d = lit_value(self.rng, dw);
            if d.words() == default.words() {
                d = default.not();
            }
            if entries.iter().all(|(j, _)| j != &i.words().to_vec()) {
                entries.push((i.words().to_vec(), d.words().to_vec()));
            }
        }
        Op::LitArr { iw, dw, dense: None, default: default.words().to_vec(), entries }
    }

    fn any_ref(&mut self) -> usize {
        if self.rng.chance(1, 4) || self.all.is_empty() {
            FORGED_BASE + self.rng.below(1000) as usize
        } else {
            *self.rng.pick(&self.all)
        }
    }

    fn gen_ill_typed(&mut self) -> Op {
        let (a, b, c) = (self.any_ref(), self.any_ref(), self.any_ref());
        match self.rng.below(24) {
            0 => Op::Equal(a, b),
            1 => Op::Ite(a, b, c),
            2 => Op::Implies(a, b),
            3 => Op::Gt(a, b),
            4 => Op::Sgt(a, b),
            5 => Op::Not(a),
            6 => Op::Neg(a),
            7 => Op::Concat(a, b),
            8 => Op::Slice(a, self.rng.below(70) as u32, self.rng.below(10) as u32),
            9 => Op::Slice(a, u32::MAX - self.rng.below(2) as u32, self.rng.below(2) as u32),
            10 => Op::Zext(a, self.rng.below(3) as u32),
            11 => Op::Sext(a, u32::MAX - self.rng.below(3) as u32),
            12 => Op::Store(a, b, c),
            13 => Op::AConst(a, self.rng.below(3) as u32),
            14 => Op::Read(a, b),
            15 => Op::BvSym(self.name(), 0),
            16 => Op::ArrSym(self.name(), self.rng.below(2) as u32, self.rng.below(2) as u32),
            17 => Op::Zero(0),
            18 => {
                let hi = if self.rng.chance(1, 2) { (self.rng.next_u64() as u128) << 64 } else { 0 };
                Op::BitVecVal(hi | self.rng.next_u64() as u128, *self.rng.pick(&[0u32, 1, 5, 8, 63, 64, 65, 100, 127, 128, 129]))
            }
            19 => Op::Xor3(a, b, c),
            20 => Op::Maj(a, b, c),
            21 => Op::Distinct(a, b),
            22 => Op::Ge(a, b),
            _ => Op::Bin(self.rng.below(14) as usize, a, b),
        }
    }

    fn gen_op(&mut self) -> (Op, bool) {
        let bld = self.rng.chance(1, 6);
        // rebuild an earlier call verbatim
        if !self.history.is_empty() && self.rng.chance(1, 4) {
            let n = self.history.len() as u64;
            let k = if self.rng.chance(1, 2) { self.rng.below(n.min(64)) } else { self.rng.below(n) } as usize;
            let (op, b, _) = self.history[k].clone();
            return (op, if self.rng.chance(1, 2) { b } else { bld });
        }
        if self.rng.below(1000) < self.ill {
            return (self.gen_ill_typed(), bld);
        }
        let op = match self.rng.below(100) {
            0..=3 => Op::Str(self.name()),
            4..=10 => Op::BvSym(self.name(), self.width()),
            11..=13 => {
                let (iw, dw) = (self.rng.range(1, 6) as u32, self.width());
                Op::ArrSym(self.name(), iw, dw)
            }
            14..=15 => {
                let known: Vec<usize> = (0..self.run.srefs.len()).filter(|i| self.run.srefs[*i].is_some()).collect();
                if known.is_empty() {
                    Op::Str(self.name())
                } else {
                    let n = *self.rng.pick(&known);
                    if self.rng.chance(2, 3) {
                        Op::SymBv(n, self.width())
                    } else {
                        Op::SymArr(n, self.rng.below(4) as u32, self.rng.below(4) as u32 * 8)
                    }
                }
            }
            16..=31 => {
                let w = self.width();
                self.lit_op(w)
            }
            32 => Op::One(self.width()),
            33 => Op::Zero(self.width()),
            34 => Op::Ones(self.width()),
            35 => Op::ZeroArr(self.rng.range(1, 5) as u32, self.width()),
            36..=37 => self.lit_arr_op(),
            38 => Op::True,
            39 => Op::False,
            40..=42 => {
                if self.rng.chance(1, 4) {
                    let (iw, dw) = self.some_arr_type();
                    Op::Equal(self.arr_ref(iw, dw), self.arr_ref(iw, dw))
                } else {
                    let w = self.some_bv_width();
                    Op::Equal(self.bv_ref(w), self.bv_ref(w))
                }
            }
            43 => {
                let w = self.some_bv_width();
                Op::Distinct(self.bv_ref(w), self.bv_ref(w))
            }
            44..=47 => {
                let c = self.bv_ref(1);
                if self.rng.chance(1, 4) {
                    let (iw, dw) = self.some_arr_type();
                    Op::Ite(c, self.arr_ref(iw, dw), self.arr_ref(iw, dw))
                } else {
                    let w = self.some_bv_width();
                    Op::Ite(c, self.bv_ref(w), self.bv_ref(w))
                }
            }
            48 => Op::Implies(self.bv_ref(1), self.bv_ref(1)),
            49..=52 => {
                let w = self.some_bv_width();
                let (a, b) = (self.bv_ref(w), self.bv_ref(w));
                match self.rng.below(4) {
                    0 => Op::Gt(a, b),
                    1 => Op::Sgt(a, b),
                    2 => Op::Ge(a, b),
                    _ => Op::Sge(a, b),
                }
            }
            53..=55 => {
                let w = self.some_bv_width();
                if self.rng.chance(1, 2) { Op::Not(self.bv_ref(w)) } else { Op::Neg(self.bv_ref(w)) }
            }
            56..=73 => {
                let w = self.some_bv_width();
                Op::Bin(self.rng.below(14) as usize, self.bv_ref(w), self.bv_ref(w))
            }
            74 => {
                let w = self.some_bv_width();
                Op::Xor3(self.bv_ref(w), self.bv_ref(w), self.bv_ref(w))
            }
            75 => {
                let w = self.some_bv_width();
                Op::Maj(self.bv_ref(w), self.bv_ref(w), self.bv_ref(w))
            }
            76..=79 => {
                let (wa, wb) = (self.some_bv_width(), self.some_bv_width());
                Op::Concat(self.bv_ref(wa), self.bv_ref(wb))
            }
            80..=85 => {
                let w = self.some_bv_width();
                let e = self.bv_ref(w);
                match self.rng.below(8) {
                    0 | 1 => Op::Slice(e, w - 1, 0), // full width: returns e
                    2 => Op::Slice(e, w - 1, self.rng.below(w as u64) as u32),
                    3 => Op::Slice(e, self.rng.below(w as u64) as u32, 0),
                    4 => Op::Slice(e, w + self.rng.below(3) as u32, self.rng.below(2) as u32), // hi beyond the width: accepted by the builder
                    _ => {
                        let lo = self.rng.below(w as u64) as u32;
                        Op::Slice(e, self.rng.range(lo as u64, w as u64 - 1) as u32, lo)
                    }
                }
            }
            86..=90 => {
                let w = self.some_bv_width();
                let e = self.bv_ref(w);
                let by = if self.rng.chance(1, 3) { 0 } else { *self.rng.pick(&[1u32, 2, 7, 31, 32, 63, 64, 65]) };
                match self.rng.below(3) {
                    0 => Op::Zext(e, by),
                    1 => Op::Sext(e, by),
                    _ => Op::Ext(e, by, self.rng.chance(1, 2)),
                }
            }
            91..=93 => {
                let (iw, dw) = self.some_arr_type();
                Op::Store(self.arr_ref(iw, dw), self.bv_ref(iw), self.bv_ref(dw))
            }
            94..=95 => {
                let w = self.some_bv_width();
                Op::AConst(self.bv_ref(w), self.rng.range(1, 6) as u32)
            }
            _ => {
                let (iw, dw) = self.some_arr_type();
                Op::Read(self.arr_ref(iw, dw), self.bv_ref(iw))
            }
        };
        (op, bld)
    }

    fn issue(&mut self, op: Op, bld: bool) -> Out {
        let before = self.run.known_len;
        let out = self.run.step(&op, bld);
        if let Out::E(r) = &out {
            if *r < FORGED_BASE {
                self.pool(*r);
            }
        }
        self.history.push((op, bld, before));
        out
    }
}

fn bucket(n: usize) -> &'static str {
    match n {
        0 => "0",
        1..=9 => "1-9",
        10..=99 => "10-99",
        100..=999 => "100-999",
        1000..=9999 => "1e3-1e4",
        10000..=99999 => "1e4-1e5",
        _ => ">=1e5",
    }
}

fn gen_history(id: &str, rng: &mut Rng, len: usize, ill: u64, stats: &mut Stats) -> String {
    let run = Run::new();
    let tf0 = (usize::from(run.ctx.get_true()), usize::from(run.ctx.get_false()));
    let mut g = Gen {
        rng,
        run,
        history: vec![],
        bv: BTreeMap::new(),
        arr: BTreeMap::new(),
        all: vec![],
        pooled: HashSet::new(),
        names: vec![],
        targets: BTreeMap::new(),
        fresh: 0,
        ill,
    };
    g.pool(0);
    g.pool(1);
    // first results of every distinct call text, to measure rebuild distances
    let mut first: HashMap<String, (String, usize)> = HashMap::new();
    while g.history.len() < len {
        let (op, bld) = g.gen_op();
        let name = op_name(&op);
        let before = g.run.known_len;
        let out = g.issue(op.clone(), bld);
        stats.bump("ops", name);
        if bld {
            stats.inc("calls_through_Builder");
        }
        let after = g.run.known_len;
        let res = format!("{:?}", out);
        let text = dump_op(&op, false, None);
        match &out {
            Out::P(loc) => stats.bump("panic_locations", loc),
            Out::E(_) => {
                stats.bump("outcome", if after > before { "new node(s)" } else { "existing reference" });
            }
            Out::S(_) => stats.bump("outcome", "string"),
        }
        if let Op::Lit { w, words, route, .. } = &op {
            stats.bump("literal_routes", route);
            stats.bump("literal_widths", &format!("{w}"));
            stats.bump(
                "interner_path",
                if words.len() == 1 {
                    if words[0] < 8 { "one word < 8" } else { "one word (small table)" }
                } else {
                    "several words (large table)"
                },
            );
        }
        if let Op::LitArr { dense, entries, .. } = &op {
            stats.bump("lit_array_shape", &if dense.is_some() { "dense".to_string() } else { format!("sparse {} entries", entries.len()) });
        }
        match first.get(&text) {
            Some((r0, size0)) => {
                if matches!(out, Out::E(_) | Out::S(_)) {
                    stats.bump("rebuild_distance(insertions between first build and rebuild)", bucket(before - size0));
                    if *r0 != res {
                        // the only calls allowed to differ: lit(array value) with >= 2 entries (store order = HashMap
                        // iteration order) and calls whose first issue panicked
                        let multi = matches!(&op, Op::LitArr { dense, entries, .. } if dense.is_some() || entries.len() >= 2);
                        stats.inc(if multi {
                            "lit_array_same_value_other_store_order"
                        } else if r0.starts_with("P(") {
                            "rebuild_after_panic"
                        } else {
                            "rebuilds_with_different_result"
                        });
                    }
                }
            }
            None => {
                first.insert(text, (res, before));
            }
        }
    }
    stats.bump("history_length", bucket(len));
    stats.bump("table_size_at_end", bucket(g.run.table_len()));
    g.run.finish(id, tf0)
}

fn replay_history(c: &Sexp) -> String {
    let id = c.list()[1].atom().to_string();
    let mut run = Run::new();
    let tf0 = (usize::from(run.ctx.get_true()), usize::from(run.ctx.get_false()));
    for o in c.field("ops").unwrap_or(&[]) {
        let (op, bld) = parse_op(o);
        // a symbol(name) call needs a StringRef the replayed history has produced
        let usable = match &op {
            Op::SymBv(n, _) | Op::SymArr(n, _, _) => run.srefs.get(*n).map(|s| s.is_some()).unwrap_or(false),
            _ => true,
        };
        if usable {
            run.step(&op, bld);
        }
    }
    run.finish(&id, tf0)
}

pub fn run(args: &Args) {
    if std::env::var("C12_DEBUG").is_ok() {
        // debugging aid: show every panic (caught ones included)
        std::panic::set_hook(Box::new(|info| {
            eprintln!("panic: {info}");
        }));
    }
    if args.get("demo").is_some() {
        demo_finding();
        return;
    }
    let mut rng = Rng::new(args.seed);
    let mut out = std::io::BufWriter::new(std::fs::File::create(&args.out).expect("out file"));
    let mut stats = Stats::default();
    let mut distinct = HashSet::new();
    if let Some(path) = args.get("cases-in") {
        for c in read_cases(path).iter() {
            let line = replay_history(c);
            distinct.insert(line[line.find("(ops").unwrap_or(0)..].to_string());
            stats.sample(&line, 3);
            writeln!(out, "{line}").unwrap();
        }
    }
    let min_len = args.get_u64("minlen", 20) as usize;
    let max_len = args.get_u64("maxlen", 400) as usize;
    let ill = args.get_u64("ill", 40);
    for id in 0..args.count {
        let mut r = rng.fork();
        let len = if max_len <= min_len { min_len } else { r.range(min_len as u64, max_len as u64) as usize };
        let line = gen_history(&format!("{id}"), &mut r, len, ill, &mut stats);
        let mut h = std::collections::hash_map::DefaultHasher::new();
        std::hash::Hash::hash(&line[line.find("(ops").unwrap_or(0)..], &mut h);
        distinct.insert(format!("{:x}", std::hash::Hasher::finish(&h)));
        stats.sample(&line, 3);
        writeln!(out, "{line}").unwrap();
    }
    stats.add("distinct_cases", distinct.len() as u64);
    stats.write(&args.out);
}

/// `verif-harness C12 --demo 1`: the recorded finding, reproduced with patronus' public API only
fn demo_finding() {
    let mut ctx = Context::default();
    let a = ctx.bv_lit(&BitVecValue::from_u64(3, 65));
    let k = ctx.bv_lit(&BitVecValue::from_u64(64, 65));
    let e = ctx.shift_left(a, k);
    let folded = simplify_single_expression(&mut ctx, e);
    let canonical = ctx.bv_lit(&from_bits(&format!("1{}", "0".repeat(64))));
    let evaluated = eval_bv_expr(&ctx, &SymbolValueStore::default(), e);
    let via_eval = ctx.bv_lit(&evaluated);
    let show = |r: ExprRef| match &ctx[r] {
        Expr::BVLiteral(v) => format!("{:?} = {:?} bits={} words={:?}", r, ctx[r], v.get(&ctx).to_bit_str(), v.get(&ctx).words()),
        other => format!("{:?} = {:?}", r, other),
    };
    println!("simplify(shift_left(65'h3, 65'd64)) -> {}", show(folded));
    println!("bv_lit(65'h1_0000000000000000)      -> {}", show(canonical));
    println!("bv_lit(eval(shift_left(..)))        -> {}", show(via_eval));
    {
        // baa's dense -> sparse conversion of the u8 table, reached through Context::lit
        let mut a = ArrayValue::new_dense(2, &BitVecValue::from_u64(9, 4));
        a.store(&BitVecValue::from_u64(1, 2), &BitVecValue::from_u64(3, 4));
        let mut c2 = Context::default();
        let r = guarded(|| c2.lit(Value::Array(a)));
        println!("lit(dense bv<2> -> bv<4> array [9,3,9,9]) -> {:?} at {}", r.map(|e| format!("{e:?}")), last_panic_loc());
    }
    println!("same reference: {}   same printed value: {}", folded == canonical, {
        let (x, y) = (show(folded), show(canonical));
        x.split("bits=").nth(1).unwrap().split(' ').next().unwrap() == y.split("bits=").nth(1).unwrap().split(' ').next().unwrap()
    });
}
