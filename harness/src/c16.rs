//! C16: btor2 witness text round trip (patronus::btor2::{witness_to_string, parse_witness, parse_witnesses}).
//!
//! One case per line, two kinds:
//!   (case ID (kind stream) (pm P) (wits W...) (impl R))     witnesses are printed one after another by the
//!         real printer, the text is read back by the real reader with parse_max = P
//!         R = (printpanic "loc") | (text "..") (parsepanic "loc") | (text "..") (ioerr) | (text "..") (parsed PW...) (single S)
//!   (case ID (kind text) (pm P) (text "..") (mut "..") (impl R))   a given (possibly malformed) text is read
//!         R = (parsepanic "loc") | (ioerr) | (parsed PW...) (reprint "..")|(reprintpanic "loc")
//!
//!   W  = (wit (failed n..) (init I..) (init_names N..) (inputs (f V..)..) (input_names N..))
//!   I  = (bv bBITS) | none | (arr IW dense|sparse (default bBITS) (stores (bI bD)..) (indices bI..))
//!   V  = (bv bBITS) | none | (arr ...)           N = "name" | none
//!   PW = (wit (failed ..) (init PI..) (init_names N..) (inputs (f PV..)..) (input_names N..))
//!   PI = (bv bBITS) | none | (parr IW DW (bI bD)..)   recorded indices sorted by value, with the selected data
//!   PV = (bv bBITS) | none | (varr IW DW)
use crate::dump::{bv_tok, quote};
use crate::rng::Rng;
use crate::sexp::{Sexp, read_cases};
use crate::util::*;
use baa::{ArrayMutOps, ArrayOps, ArrayValue, BitVecOps, BitVecValue, Value};
use patronus::btor2;
use patronus::mc::{InitValue, Witness};
use std::io::Write;

// ------------------------------------------------------------------ description of a witness
#[derive(Clone, Debug)]
struct Arr {
    iw: u32,
    dense: bool,
    default: BitVecValue,
    stores: Vec<(BitVecValue, BitVecValue)>,
    indices: Vec<BitVecValue>,
}

#[derive(Clone, Debug)]
enum Val {
    Bv(BitVecValue),
    Arr(Arr),
    None,
}

#[derive(Clone, Debug, Default)]
struct Wit {
    init: Vec<Val>,
    init_names: Vec<Option<String>>,
    inputs: Vec<Vec<Val>>,
    input_names: Vec<Option<String>>,
    failed: Vec<u32>,
}

fn build_array(a: &Arr) -> ArrayValue {
    let mut v = if a.dense { ArrayValue::new_dense(a.iw, &a.default) } else { ArrayValue::new_sparse(a.iw, &a.default) };
    for (i, d) in a.stores.iter() {
        v.store(i, d);
    }
    v
}

fn build(w: &Wit) -> Witness {
    let mut out = Witness::default();
    for v in w.init.iter() {
        out.init.push(match v {
            Val::Bv(b) => InitValue::BitVec(b.clone()),
            Val::Arr(a) => InitValue::Array(build_array(a), a.indices.clone()),
            Val::None => InitValue::None,
        });
    }
    out.init_names = w.init_names.clone();
    for f in w.inputs.iter() {
        out.inputs.push(
            f.iter()
                .map(|v| match v {
                    Val::Bv(b) => Some(Value::BitVec(b.clone())),
                    Val::Arr(a) => Some(Value::Array(build_array(a))),
                    Val::None => None,
                })
                .collect(),
        );
    }
    out.input_names = w.input_names.clone();
    out.failed_safety = w.failed.clone();
    out
}

// ------------------------------------------------------------------ dumping
fn dump_name(n: &Option<String>) -> String {
    match n {
        Some(s) => quote(s),
        None => "none".to_string(),
    }
}

fn dump_val(v: &Val) -> String {
    match v {
        Val::Bv(b) => format!("(bv {})", bv_tok(b)),
        Val::None => "none".to_string(),
        Val::Arr(a) => {
            let stores: Vec<String> = a.stores.iter().map(|(i, d)| format!("({} {})", bv_tok(i), bv_tok(d))).collect();
            let idx: Vec<String> = a.indices.iter().map(bv_tok).collect();
            format!(
                "(arr {} {} (default {}) (stores{}{}) (indices{}{}))",
                a.iw,
                if a.dense { "dense" } else { "sparse" },
                bv_tok(&a.default),
                if stores.is_empty() { "" } else { " " },
                stores.join(" "),
                if idx.is_empty() { "" } else { " " },
                idx.join(" ")
            )
        }
    }
}

fn list_of(tag: &str, items: Vec<String>) -> String {
    if items.is_empty() { format!("({tag})") } else { format!("({tag} {})", items.join(" ")) }
}

fn dump_wit(w: &Wit) -> String {
    format!(
        "(wit {} {} {} {} {})",
        list_of("failed", w.failed.iter().map(|b| b.to_string()).collect()),
        list_of("init", w.init.iter().map(dump_val).collect()),
        list_of("init_names", w.init_names.iter().map(dump_name).collect()),
        list_of("inputs", w.inputs.iter().map(|f| list_of("f", f.iter().map(dump_val).collect())).collect()),
        list_of("input_names", w.input_names.iter().map(dump_name).collect())
    )
}

/// canonical dump of a witness produced by the implementation's reader
fn dump_parsed(w: &Witness) -> String {
    let init: Vec<String> = w
        .init
        .iter()
        .map(|v| match v {
            InitValue::BitVec(b) => format!("(bv {})", bv_tok(b)),
            InitValue::None => "none".to_string(),
            InitValue::Array(a, indices) => {
                // For sparse arrays the contents are read through the entry iterator (no map lookup): baa's
                // lookup is unusable for index widths above 64 bits (see the finding in known_findings.txt).
                let lookup: Box<dyn Fn(&BitVecValue) -> BitVecValue> = if a.is_sparse() {
                    let sp = baa::SparseArrayValue::from(a);
                    let default = sp.default();
                    let entries: Vec<(BitVecValue, BitVecValue)> = sp.non_default_entries().collect();
                    Box::new(move |i: &BitVecValue| {
                        entries.iter().find(|(k, _)| k.width() == i.width() && k.is_equal(i)).map(|(_, v)| v.clone()).unwrap_or_else(|| default.clone())
                    })
                } else {
                    let a = a.clone();
                    Box::new(move |i: &BitVecValue| a.select(i))
                };
                let mut es: Vec<(String, String)> = indices.iter().map(|i| (i.to_bit_str(), lookup(i).to_bit_str())).collect();
                // same width => lexicographic order of the bit strings is the order by value
                es.sort();
                let items: Vec<String> = es.iter().map(|(i, d)| format!("(b{i} b{d})")).collect();
                format!("(parr {} {}{}{})", a.index_width(), a.data_width(), if items.is_empty() { "" } else { " " }, items.join(" "))
            }
        })
        .collect();
    let inputs: Vec<String> = w
        .inputs
        .iter()
        .map(|f| {
            list_of(
                "f",
                f.iter()
                    .map(|v| match v {
                        Some(Value::BitVec(b)) => format!("(bv {})", bv_tok(b)),
                        Some(Value::Array(a)) => format!("(varr {} {})", a.index_width(), a.data_width()),
                        None => "none".to_string(),
                    })
                    .collect(),
            )
        })
        .collect();
    format!(
        "(wit {} {} {} {} {})",
        list_of("failed", w.failed_safety.iter().map(|b| b.to_string()).collect()),
        list_of("init", init),
        list_of("init_names", w.init_names.iter().map(dump_name).collect()),
        list_of("inputs", inputs),
        list_of("input_names", w.input_names.iter().map(dump_name).collect())
    )
}

// ------------------------------------------------------------------ reading descriptions back (--cases-in)
fn parse_name(x: &Sexp) -> Option<String> {
    match x {
        Sexp::Str(s) => Some(s.clone()),
        Sexp::Atom(a) if a == "none" => None,
        other => panic!("bad name {other:?}"),
    }
}

fn parse_val(x: &Sexp) -> Val {
    match x {
        Sexp::Atom(a) if a == "none" => Val::None,
        Sexp::List(l) if l[0].atom() == "bv" => Val::Bv(l[1].bits()),
        Sexp::List(l) if l[0].atom() == "arr" => {
            let iw = l[1].num() as u32;
            let dense = l[2].atom() == "dense";
            let default = x.field("default").unwrap()[0].bits();
            let stores = x.field("stores").unwrap_or(&[]).iter().map(|p| (p.list()[0].bits(), p.list()[1].bits())).collect();
            let indices = x.field("indices").unwrap_or(&[]).iter().map(|i| i.bits()).collect();
            Val::Arr(Arr { iw, dense, default, stores, indices })
        }
        other => panic!("bad value {other:?}"),
    }
}

fn parse_wit(x: &Sexp) -> Wit {
    Wit {
        failed: x.field("failed").unwrap_or(&[]).iter().map(|n| n.num() as u32).collect(),
        init: x.field("init").unwrap_or(&[]).iter().map(parse_val).collect(),
        init_names: x.field("init_names").unwrap_or(&[]).iter().map(parse_name).collect(),
        inputs: x.field("inputs").unwrap_or(&[]).iter().map(|f| f.list()[1..].iter().map(parse_val).collect()).collect(),
        input_names: x.field("input_names").unwrap_or(&[]).iter().map(parse_name).collect(),
    }
}

// ------------------------------------------------------------------ generators
const WIDTHS: &[u32] = &[1, 2, 3, 4, 5, 6, 7, 8, 31, 32, 33, 63, 64, 65, 127, 128, 129];

fn bits_from(s: &str) -> BitVecValue {
    BitVecValue::from_bit_str(s).unwrap()
}

fn gen_bits(rng: &mut Rng, w: u32) -> BitVecValue {
    let w = w as usize;
    let s: String = match rng.below(9) {
        0 => "0".repeat(w),
        1 => format!("{}1", "0".repeat(w - 1)),
        2 => "1".repeat(w),
        3 => format!("1{}", "0".repeat(w - 1)),
        4 => {
            let k = rng.below(w as u64) as usize;
            (0..w).map(|i| if i == k { '1' } else { '0' }).collect()
        }
        5 => (0..w).map(|i| if i % 2 == 0 { '1' } else { '0' }).collect(),
        6 => {
            let k = rng.below(w as u64 + 1) as usize;
            (0..w).map(|i| if i < k { '0' } else { '1' }).collect()
        }
        _ => (0..w).map(|_| if rng.chance(1, 2) { '1' } else { '0' }).collect(),
    };
    bits_from(&s)
}

const GOOD_CHARS: &[&str] = &[
    "a", "b", "x", "Z", "_", "0", "7", ".", "[", "]", "$", "\\", "\"", "(", ")", ":", "/", "-", "+", "'", "!", "\r", "\u{e9}", "\u{3bb}", "\u{a0}",
    "\u{2003}", "\u{1f600}", "\u{b}", "\u{c}",
];
const BAD_CHARS: &[&str] = &[" ", "\t", ";", "@", "#", "\n"];

/// (name, class)
fn gen_name(rng: &mut Rng, id: usize, kind: &str, allow_bad: bool, stats: &mut Stats) -> Option<String> {
    let r = rng.below(100);
    if r < 8 {
        stats.bump("name_class", "none");
        return None;
    }
    if r < 45 {
        stats.bump("name_class", "plain");
        return Some(format!("{kind}{id}"));
    }
    if r < 55 {
        stats.bump("name_class", "hierarchical");
        return Some(format!("top.u{}.{kind}[{}]", rng.below(4), id));
    }
    if r < 58 {
        stats.bump("name_class", "empty");
        return Some(String::new());
    }
    if r < 62 {
        stats.bump("name_class", "looks-like-default");
        return Some(format!("state_{}", rng.below(4)));
    }
    if allow_bad && r < 70 {
        stats.bump("name_class", "with-forbidden-char");
        let n = rng.range(0, 3);
        let mut s = String::new();
        for _ in 0..n {
            s.push_str(*rng.pick(GOOD_CHARS));
        }
        s.push_str(*rng.pick(BAD_CHARS));
        for _ in 0..rng.range(0, 2) {
            s.push_str(*rng.pick(GOOD_CHARS));
        }
        return Some(s);
    }
    stats.bump("name_class", "odd-chars");
    let n = rng.range(1, 6);
    let mut s = String::new();
    for _ in 0..n {
        s.push_str(*rng.pick(GOOD_CHARS));
    }
    Some(s)
}

/// Index widths above 64 bits run into a `todo!()` of baa (known finding).  Whether a lookup panics depends
/// on the key being present in the map, and for absent keys on a hash collision under a randomly seeded hasher.
/// To keep every run deterministic such arrays are generated in two shapes only: an empty map (no stores),
/// or exactly one store of a non-default value at every recorded index.
fn gen_big_index_array(rng: &mut Rng, stats: &mut Stats) -> Arr {
    let iw = *rng.pick(&[65u32, 127, 128, 129]);
    let dw = *rng.pick(WIDTHS);
    let zero = bits_from(&"0".repeat(dw as usize));
    let default = if rng.chance(1, 2) { zero.clone() } else { gen_bits(rng, dw) };
    let n_idx = rng.range(1, 3);
    let mut indices: Vec<BitVecValue> = vec![];
    while indices.len() < n_idx as usize {
        let i = gen_bits(rng, iw);
        if !indices.iter().any(|j| j.is_equal(&i)) {
            indices.push(i);
        }
    }
    let mut stores = vec![];
    if rng.chance(1, 2) {
        for i in indices.iter() {
            let mut d = gen_bits(rng, dw);
            if d.is_equal(&default) {
                // flip the least significant bit
                let mut s = d.to_bit_str();
                let last = s.pop().unwrap();
                s.push(if last == '0' { '1' } else { '0' });
                d = bits_from(&s);
            }
            stores.push((i.clone(), d));
        }
        stats.bump("big_index_array", "stored-at-recorded");
    } else {
        stats.bump("big_index_array", if default.is_equal(&zero) { "empty-map-zero-default" } else { "empty-map-nonzero-default" });
    }
    stats.bump("array_index_width", &iw.to_string());
    stats.bump("array_data_width", &dw.to_string());
    stats.bump("array_recorded_indices", &indices.len().to_string());
    stats.bump("array_repr", "sparse");
    Arr { iw, dense: false, default, stores, indices }
}

/// The shape `mc::bmc::get_witness` produces: a dense array read back from the solver with every index
/// recorded, in ascending order.
fn gen_full_array(rng: &mut Rng, stats: &mut Stats) -> Arr {
    let iw = rng.range(1, 4) as u32;
    let dw = *rng.pick(WIDTHS);
    let default = gen_bits(rng, dw);
    let mut indices = vec![];
    let mut stores = vec![];
    for k in 0..(1u64 << iw) {
        let i = BitVecValue::from_u64(k, iw);
        if rng.chance(2, 3) {
            stores.push((i.clone(), gen_bits(rng, dw)));
        }
        indices.push(i);
    }
    stats.bump("array_index_width", &iw.to_string());
    stats.bump("array_data_width", &dw.to_string());
    stats.bump("array_recorded_indices", &format!("all-{}", indices.len()));
    stats.bump("array_repr", "dense-all-indices");
    Arr { iw, dense: true, default, stores, indices }
}

const SMALL_INDEX_WIDTHS: &[u32] = &[1, 2, 3, 4, 5, 6, 7, 8, 31, 32, 33, 63, 64];

fn gen_array(rng: &mut Rng, stats: &mut Stats, allow_empty: bool, big_ok: bool) -> Arr {
    if big_ok && rng.chance(1, 40) {
        return gen_big_index_array(rng, stats);
    }
    if rng.chance(1, 10) {
        return gen_full_array(rng, stats);
    }
    let iw = *rng.pick(SMALL_INDEX_WIDTHS);
    let dw = *rng.pick(WIDTHS);
    let dense = iw <= 6 && rng.chance(1, 3);
    let default = if rng.chance(1, 2) { bits_from(&"0".repeat(dw as usize)) } else { gen_bits(rng, dw) };
    let n_idx = if allow_empty && rng.chance(1, 12) { 0 } else { rng.range(1, 8) };
    // distinct index values are limited by the index width
    let mut indices: Vec<BitVecValue> = vec![];
    for _ in 0..n_idx {
        indices.push(gen_bits(rng, iw));
    }
    // sometimes repeat an index in the recorded list
    if !indices.is_empty() && rng.chance(1, 6) {
        let k = rng.below(indices.len() as u64) as usize;
        let dup = indices[k].clone();
        indices.push(dup);
        stats.inc("arrays_with_repeated_index");
    }
    let mut stores = vec![];
    let mut zero_entry = false;
    for i in indices.iter() {
        // some recorded indices are never stored (value = default), some store zero, some are overwritten
        match rng.below(8) {
            0 => {}
            1 => {
                stores.push((i.clone(), bits_from(&"0".repeat(dw as usize))));
                zero_entry = true;
            }
            2 => {
                stores.push((i.clone(), gen_bits(rng, dw)));
                stores.push((i.clone(), gen_bits(rng, dw)));
            }
            _ => stores.push((i.clone(), gen_bits(rng, dw))),
        }
    }
    // stores at indices that are not recorded
    for _ in 0..rng.below(3) {
        stores.push((gen_bits(rng, iw), gen_bits(rng, dw)));
    }
    if zero_entry {
        stats.inc("arrays_with_zero_valued_entry");
    }
    stats.bump("array_index_width", &iw.to_string());
    stats.bump("array_data_width", &dw.to_string());
    stats.bump("array_recorded_indices", &indices.len().to_string());
    stats.bump("array_repr", if dense { "dense" } else { "sparse" });
    Arr { iw, dense, default, stores, indices }
}

#[derive(Clone, Copy, PartialEq, Debug)]
enum Flavor {
    /// inside the property's domain ("complete")
    Complete,
    /// may leave the domain: missing values, no failed property, forbidden characters, length mismatches
    Wild,
}

fn gen_wit(rng: &mut Rng, stats: &mut Stats, flavor: Flavor, small: bool, big_ok: bool) -> Wit {
    let wild = flavor == Flavor::Wild;
    let n_states = if small { rng.range(0, 3) } else if rng.chance(1, 25) { rng.range(10, 13) } else { rng.range(0, 6) } as usize;
    let n_inputs = if small { rng.range(0, 2) } else { rng.range(0, 5) } as usize;
    let mut n_steps = if small { rng.range(1, 3) } else { rng.range(1, 12) } as usize;
    if (wild && rng.chance(1, 6)) || (n_states > 0 && rng.chance(1, 10)) {
        n_steps = 0;
    }
    let mut w = Wit::default();
    let n_failed = if wild && rng.chance(1, 8) { 0 } else { rng.range(1, 4) };
    for _ in 0..n_failed {
        w.failed.push(match rng.below(6) {
            0 => 0,
            1 => u32::MAX,
            2 => rng.below(1 << 31) as u32,
            _ => rng.below(20) as u32,
        });
    }
    for id in 0..n_states {
        let v = match rng.below(10) {
            0..=4 => {
                let wd = *rng.pick(WIDTHS);
                stats.bump("state_width", &wd.to_string());
                Val::Bv(gen_bits(rng, wd))
            }
            5..=7 => Val::Arr(gen_array(rng, stats, true, big_ok)),
            _ => Val::None,
        };
        stats.bump("state_kind", match &v { Val::Bv(_) => "bv", Val::Arr(_) => "array", Val::None => "none" });
        w.init.push(v);
        w.init_names.push(gen_name(rng, id, "state", wild, stats));
    }
    let in_widths: Vec<u32> = (0..n_inputs).map(|_| *rng.pick(WIDTHS)).collect();
    for id in 0..n_inputs {
        w.input_names.push(gen_name(rng, id, "in", wild, stats));
        stats.bump("input_width", &in_widths[id].to_string());
    }
    for _ in 0..n_steps {
        let mut f = vec![];
        for id in 0..n_inputs {
            let v = if wild && rng.chance(1, 12) {
                Val::None
            } else if wild && rng.chance(1, 40) {
                Val::Arr(gen_array(rng, stats, false, false))
            } else {
                Val::Bv(gen_bits(rng, in_widths[id]))
            };
            f.push(v);
        }
        w.inputs.push(f);
    }
    if wild && rng.chance(1, 25) {
        // length mismatches (assertions of the printer)
        match rng.below(3) {
            0 => w.init_names.push(None),
            1 => w.input_names.push(Some("extra".into())),
            _ => {
                if let Some(f) = w.inputs.last_mut() {
                    f.push(Val::Bv(bits_from("1")));
                }
            }
        }
        stats.inc("length_mismatch_cases");
    }
    stats.bump("n_states", &n_states.to_string());
    stats.bump("n_inputs", &n_inputs.to_string());
    stats.bump("n_steps", &n_steps.to_string());
    stats.bump("n_failed", &n_failed.to_string());
    w
}

// ------------------------------------------------------------------ malformed / varied texts
fn valid_text(rng: &mut Rng, stats: &mut Stats) -> String {
    let n = rng.range(1, 3);
    let mut t = String::new();
    let mut scratch = Stats::default();
    for _ in 0..n {
        let mut w = gen_wit(rng, &mut scratch, Flavor::Complete, true, false);
        if w.init.is_empty() && w.inputs.is_empty() {
            w.inputs.push(vec![]);
            w.input_names.clear();
        }
        // plain names only: the text generator mutates lines, not names
        for (i, n) in w.init_names.iter_mut().enumerate() {
            *n = Some(format!("s{i}"));
        }
        for (i, n) in w.input_names.iter_mut().enumerate() {
            *n = Some(format!("i{i}"));
        }
        t.push_str(&btor2::witness_to_string(&build(&w)));
    }
    let _ = stats;
    t
}

const JUNK: &[&str] = &["x", "2", "10", "[1]", "[", "]", "[]", "b", "b1", "j0", "sat", ".", "#0", "#1", "@0", "@1", "@7", "01", "012", "0b1", "1 1", "", "; c", "@", "#", "b4294967296", "18446744073709551616"];

fn mutate_text(rng: &mut Rng, base: &str, stats: &mut Stats) -> (String, String) {
    let mut lines: Vec<String> = base.lines().map(|s| s.to_string()).collect();
    let mut eol = "\n";
    let mut final_nl = true;
    let mut what = vec![];
    let n_mut = rng.range(1, 3);
    for _ in 0..n_mut {
        if lines.is_empty() {
            break;
        }
        let k = rng.below(lines.len() as u64) as usize;
        let m = rng.below(17);
        let name = match m {
            0 => {
                lines.remove(k);
                "delete-line"
            }
            1 => {
                let l = lines[k].clone();
                lines.insert(k, l);
                "duplicate-line"
            }
            2 => {
                if k + 1 < lines.len() {
                    lines.swap(k, k + 1);
                }
                "swap-lines"
            }
            3 => {
                let mut toks: Vec<String> = lines[k].split(' ').map(|s| s.to_string()).collect();
                let j = rng.below(toks.len() as u64) as usize;
                toks[j] = rng.pick(JUNK).to_string();
                lines[k] = toks.join(" ");
                "replace-token"
            }
            4 => {
                lines.insert(k, String::new());
                "blank-line"
            }
            5 => {
                lines.insert(k, "; a comment line".to_string());
                "comment-line"
            }
            6 => {
                lines[k] = format!("  \t{} \t ", lines[k]);
                "pad-line"
            }
            7 => {
                lines.truncate(k);
                "truncate"
            }
            8 => {
                // a later state frame as btormc prints it
                let j = rng.range(1, 3);
                lines.insert(k, format!("#{j}"));
                lines.insert(k + 1, format!("0 1 s0#{j}"));
                "insert-state-frame"
            }
            9 => {
                eol = "\r\n";
                "crlf"
            }
            10 => {
                final_nl = false;
                "no-final-newline"
            }
            11 => {
                lines[k] = format!("{} ; trailing comment", lines[k]);
                "trailing-comment"
            }
            12 => {
                lines[k] = lines[k].replace(' ', "  \t ");
                "wide-separators"
            }
            13 => {
                lines[k] = rng.pick(JUNK).to_string();
                "replace-line"
            }
            14 => {
                let mut toks: Vec<String> = lines[k].split(' ').map(|s| s.to_string()).collect();
                toks.push(rng.pick(JUNK).to_string());
                lines[k] = toks.join(" ");
                "extra-token"
            }
            15 => {
                // decimal with '+' or leading zeros in the id position
                if lines[k].chars().next().map(|c| c.is_ascii_digit()).unwrap_or(false) {
                    lines[k] = format!("{}{}", if rng.chance(1, 2) { "+" } else { "00" }, lines[k]);
                }
                "id-plus-or-zeros"
            }
            _ => {
                // suffix variants: btormc may write @0 for array states, names may carry more suffixes
                lines[k] = lines[k].replace("#0", if rng.chance(1, 2) { "@0" } else { "#0@3#x" });
                "suffix-variant"
            }
        };
        stats.bump("text_mutation", name);
        what.push(name);
    }
    let mut t = lines.join(eol);
    if final_nl && !lines.is_empty() {
        t.push_str(eol);
    }
    (t, what.join("+"))
}

// ------------------------------------------------------------------ witnesses of real BMC runs
/// description of a witness produced by the implementation (arrays: contents at the recorded indices)
fn wit_of_real(w: &Witness) -> Wit {
    let arr = |a: &ArrayValue, indices: &[BitVecValue]| {
        let dw = a.data_width();
        Arr {
            iw: a.index_width(),
            dense: a.is_dense(),
            default: bits_from(&"0".repeat(dw as usize)),
            stores: indices.iter().map(|i| (i.clone(), a.select(i))).collect(),
            indices: indices.to_vec(),
        }
    };
    Wit {
        init: w
            .init
            .iter()
            .map(|v| match v {
                InitValue::BitVec(b) => Val::Bv(b.clone()),
                InitValue::Array(a, idx) => Val::Arr(arr(a, idx)),
                InitValue::None => Val::None,
            })
            .collect(),
        init_names: w.init_names.clone(),
        inputs: w
            .inputs
            .iter()
            .map(|f| {
                f.iter()
                    .map(|v| match v {
                        Some(Value::BitVec(b)) => Val::Bv(b.clone()),
                        Some(Value::Array(a)) => Val::Arr(arr(a, &[])),
                        None => Val::None,
                    })
                    .collect()
            })
            .collect(),
        input_names: w.input_names.clone(),
        failed: w.failed_safety.clone(),
    }
}

/// run patronus' own BMC (z3) on small btor2 files of the repository and feed every counterexample
/// through the round trip
fn bmc_witnesses(stats: &mut Stats, max_files: usize, only: Option<&str>) -> Vec<(String, Wit)> {
    use patronus::mc::{ModelCheckResult, bmc};
    use patronus::smt::{Solver, Z3};
    let mut files: Vec<std::path::PathBuf> = vec![];
    for dir in ["/repo/inputs/chiseltest", "/repo/inputs/unittest"] {
        if let Ok(rd) = std::fs::read_dir(dir) {
            for e in rd.flatten() {
                let p = e.path();
                let small = e.metadata().map(|m| m.len() < 20_000).unwrap_or(false);
                if small && p.extension().map(|x| x == "btor" || x == "btor2").unwrap_or(false) {
                    files.push(p);
                }
            }
        }
    }
    files.sort();
    if let Some(list) = only {
        files = list.split(',').map(|f| std::path::PathBuf::from(format!("/repo/inputs/{f}"))).collect();
    }
    let mut out = vec![];
    for p in files.iter() {
        if out.len() >= max_files {
            break;
        }
        let name = p.file_name().unwrap().to_string_lossy().to_string();
        let res = guarded(|| {
            let (mut ctx, sys) = btor2::parse_file(p)?;
            if sys.bad_states.is_empty() {
                return None;
            }
            let mut solver = Z3.start(None).ok()?;
            match bmc(&mut ctx, &mut solver, &sys, false, false, 20) {
                Ok(ModelCheckResult::Fail(w)) => Some(wit_of_real(&w)),
                _ => None,
            }
        });
        match res {
            Ok(Some(w)) => {
                stats.bump("bmc_file", "counterexample");
                out.push((name, w));
            }
            Ok(None) => stats.bump("bmc_file", "no-counterexample-or-unreadable"),
            Err(_) => stats.bump("bmc_file", "panic"),
        }
    }
    out
}

// ------------------------------------------------------------------ running the implementation
fn panic_loc() -> String {
    quote(&last_panic_loc())
}

fn run_stream(id: &str, ws: &[Wit], pm: usize, stats: &mut Stats) -> String {
    let head = format!("(case {id} (kind stream) (pm {pm}) {}", list_of("wits", ws.iter().map(dump_wit).collect()));
    let built: Vec<Witness> = match guarded(|| ws.iter().map(build).collect()) {
        Ok(b) => b,
        Err(m) => {
            // constructing the value failed inside baa (not patronus code): recorded, not a case
            stats.bump("impl_outcome", "build-panic");
            stats.notes.push(format!("building case {id} panicked at {}: {m}", last_panic_loc()));
            return format!("{head} (impl (buildpanic {})))", panic_loc());
        }
    };
    let text = guarded(|| built.iter().map(btor2::witness_to_string).collect::<Vec<_>>().concat());
    let text = match text {
        Err(_) => {
            stats.bump("impl_outcome", "print-panic");
            return format!("{head} (impl (printpanic {})))", panic_loc());
        }
        Ok(t) => t,
    };
    stats.bump("text_lines", &format!("{:02}x", text.lines().count() / 10));
    let parsed = guarded(|| btor2::parse_witnesses(&mut text.as_bytes(), pm));
    let parsed = match parsed {
        Err(_) => {
            stats.bump("impl_outcome", "parse-panic");
            return format!("{head} (impl (text {}) (parsepanic {})))", quote(&text), panic_loc());
        }
        Ok(Err(_)) => {
            stats.bump("impl_outcome", "io-error");
            return format!("{head} (impl (text {}) (ioerr)))", quote(&text));
        }
        Ok(Ok(v)) => v,
    };
    stats.bump("impl_outcome", "read-back");
    stats.bump("witnesses_read_back", &parsed.len().to_string());
    // parse_witness must agree with parse_witnesses(.., 1)
    let single = match guarded(|| btor2::parse_witness(&mut text.as_bytes())) {
        Err(_) => "panic".to_string(),
        Ok(Err(_)) => "ioerr".to_string(),
        Ok(Ok(w)) => match guarded(|| btor2::parse_witnesses(&mut text.as_bytes(), 1)) {
            Ok(Ok(v)) if v.len() == 1 && dump_parsed(&v[0]) == dump_parsed(&w) => "agrees".to_string(),
            _ => "differs".to_string(),
        },
    };
    format!(
        "{head} (impl (text {}) {} (single {single})))",
        quote(&text),
        list_of("parsed", parsed.iter().map(dump_parsed).collect())
    )
}

fn run_text(id: &str, text: &str, pm: usize, what: &str, stats: &mut Stats) -> String {
    let head = format!("(case {id} (kind text) (pm {pm}) (text {}) (mut {})", quote(text), quote(what));
    let parsed = guarded(|| btor2::parse_witnesses(&mut text.as_bytes(), pm));
    let parsed = match parsed {
        Err(_) => {
            stats.bump("text_outcome", "parse-panic");
            stats.bump("text_panic_at", &last_panic_loc());
            return format!("{head} (impl (parsepanic {})))", panic_loc());
        }
        Ok(Err(_)) => {
            stats.bump("text_outcome", "io-error");
            return format!("{head} (impl (ioerr)))");
        }
        Ok(Ok(v)) => v,
    };
    stats.bump("text_outcome", &format!("read-{}", parsed.len()));
    let reprint = match guarded(|| parsed.iter().map(btor2::witness_to_string).collect::<Vec<_>>().concat()) {
        Ok(t) => format!("(reprint {})", quote(&t)),
        Err(_) => format!("(reprintpanic {})", panic_loc()),
    };
    format!("{head} (impl {} {reprint}))", list_of("parsed", parsed.iter().map(dump_parsed).collect()))
}

pub fn run(args: &Args) {
    if std::env::var("C16_DEBUG").is_ok() {
        let _ = std::panic::take_hook();
    }
    let mut rng = Rng::new(args.seed);
    let mut out = std::io::BufWriter::new(std::fs::File::create(&args.out).expect("out file"));
    let mut stats = Stats::default();
    let mut distinct = std::collections::HashSet::new();
    let key_of = |line: &str| line[line.find("(kind").unwrap_or(0)..line.find("(impl").unwrap_or(line.len())].to_string();
    if let Some(path) = args.get("cases-in") {
        for c in read_cases(path).iter() {
            let id = c.list()[1].atom().to_string();
            let pm = c.field("pm").map(|p| p[0].num() as usize).unwrap_or(1);
            let kind = c.field("kind").map(|k| k[0].atom().to_string()).unwrap_or_default();
            let line = if kind == "text" {
                let text = c.field("text").unwrap()[0].atom().to_string();
                let what = c.field("mut").map(|m| m[0].atom().to_string()).unwrap_or_default();
                run_text(&id, &text, pm, &what, &mut stats)
            } else {
                let ws: Vec<Wit> = c.field("wits").unwrap_or(&[]).iter().map(parse_wit).collect();
                run_stream(&id, &ws, pm, &mut stats)
            };
            distinct.insert(key_of(&line));
            stats.sample(&line, 3);
            writeln!(out, "{line}").unwrap();
        }
    }
    let mode = args.get("mode").unwrap_or("mix").to_string();
    if mode == "bmc" {
        let max_files = args.get_u64("files-max", 1000) as usize;
        for (name, w) in bmc_witnesses(&mut stats, max_files, args.get("files")) {
            stats.bump("kind", "stream-bmc");
            stats.bump("n_states", &w.init.len().to_string());
            stats.bump("n_steps", &w.inputs.len().to_string());
            let id: String = name.chars().map(|c| if c.is_ascii_alphanumeric() { c } else { '_' }).collect();
            let line = run_stream(&format!("bmc-{id}"), &[w.clone()], 1, &mut stats);
            distinct.insert(key_of(&line));
            stats.sample(&line, 3);
            writeln!(out, "{line}").unwrap();
            // and twice in a row, read as a stream
            let line = run_stream(&format!("bmc2-{id}"), &[w.clone(), w], 2, &mut stats);
            distinct.insert(key_of(&line));
            writeln!(out, "{line}").unwrap();
        }
        stats.add("distinct_cases", distinct.len() as u64);
        stats.write(&args.out);
        return;
    }
    for id in 0..args.count {
        let mut r = rng.fork();
        let k = r.below(100);
        let line = if mode == "text" || (mode == "mix" && k < 12) {
            // a text that is not (necessarily) printer output
            let base = valid_text(&mut r, &mut stats);
            let (text, what) = mutate_text(&mut r, &base, &mut stats);
            let pm = *r.pick(&[1usize, 1, 2, 3, 30, 0]);
            stats.bump("kind", "text");
            run_text(&id.to_string(), &text, pm, &what, &mut stats)
        } else if mode == "wild" || (mode == "mix" && k < 30) {
            // printer input that may be outside the property's domain
            let n = if r.chance(1, 4) { r.range(2, 3) } else { 1 } as usize;
            let ws: Vec<Wit> = (0..n).map(|_| gen_wit(&mut r, &mut stats, Flavor::Wild, false, true)).collect();
            let pm = if n == 1 { 1 } else { *r.pick(&[n, n + 1, 1]) };
            stats.bump("kind", "stream-wild");
            stats.bump("stream_length", &n.to_string());
            run_stream(&id.to_string(), &ws, pm, &mut stats)
        } else {
            // complete witnesses, single or several
            let big_ok = args.get("big-index").map(|v| v != "0").unwrap_or(true);
            let n = if r.chance(1, 3) { r.range(2, 5) } else { 1 } as usize;
            let ws: Vec<Wit> = (0..n)
                .map(|_| {
                    let mut w = gen_wit(&mut r, &mut stats, Flavor::Complete, false, big_ok);
                    if w.init.is_empty() && w.inputs.is_empty() {
                        w.inputs.push(vec![]);
                        w.input_names.clear();
                    }
                    w
                })
                .collect();
            let pm = if n == 1 { *r.pick(&[1usize, 1, 1, 5]) } else { *r.pick(&[n, n, n + 3, 1, n - 1, 0]) };
            stats.bump("kind", "stream-complete");
            stats.bump("stream_length", &n.to_string());
            stats.bump("parse_max_vs_length", if pm >= n { "all" } else { "prefix" });
            run_stream(&id.to_string(), &ws, pm, &mut stats)
        };
        distinct.insert(key_of(&line));
        stats.sample(&line, 3);
        writeln!(out, "{line}").unwrap();
    }
    stats.add("distinct_cases", distinct.len() as u64);
    stats.write(&args.out);
}
