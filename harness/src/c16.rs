//! C16: not implemented yet.
use crate::util::Args;

pub fn run(_args: &Args) {
    eprintln!("C16: harness module not implemented yet");
    std::process::exit(2);
}
