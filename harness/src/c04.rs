//! C04: the unrolled SMT encoding (patronus::mc::UnrollSmtEncoding).  One case per line:
//! (case ID (sys ..) (named ..) (names (E "n")..) (entry J) (unrolls N)
//!   (order (E next init other)..)                 analyze_for_serialization, as the implementation computes it
//!   (blocks (block CMD..)..)                      commands of init_at, then of every unroll, recorded by a SolverContext
//!   (signals (sig E step SYM)..)                  get_signal_at of states, inputs, constraints, bad states
//!   (z3 "ok"|"msg") (cvc5 "ok"|"msg")             the real text protocol (SmtLibSolverCtx + replay file) fed to both solvers
//!   (execs (exec (step (bvenv..) (arrenv..))..)..) random raw valuations, one per step
//!   (implerr "msg"))
//! CMD = (decl "name" TY) | (def "name" TY E);  TY = (bv w) | (arr iw dw)
#[path = "mcgen.rs"]
pub mod mcgen;

use crate::dump::*;
use crate::exprgen::*;
use crate::rng::Rng;
use crate::sexp::{Sexp, build_expr, read_cases};
use crate::sysgen::dump_sys;
use crate::util::*;
use baa::{BitVecOps, BitVecValue};
use mcgen::*;
use patronus::expr::*;
use patronus::mc::{TransitionSystemEncoding, UnrollSmtEncoding};
use patronus::smt::*;
use patronus::system::analysis::analyze_for_serialization;
use patronus::system::*;
use std::io::Write;

// ---------------------------------------------------------------- a SolverContext that records
#[derive(Clone, Debug)]
pub enum RCmd {
    SetLogic(String),
    Declare(ExprRef),
    Define(ExprRef, ExprRef),
    Assert(ExprRef),
    CheckSat,
    CheckSatAssuming(Vec<ExprRef>),
    Push,
    Pop,
    GetValue(ExprRef),
}

/// Records every call; answers `unsat` to every query.
pub struct Recorder {
    pub cmds: Vec<RCmd>,
    pub check_assuming: bool,
}

impl Recorder {
    pub fn new(check_assuming: bool) -> Self {
        Recorder { cmds: vec![], check_assuming }
    }
}

impl SolverMetaData for Recorder {
    fn name(&self) -> &str {
        "recorder"
    }
    fn supports_check_assuming(&self) -> bool {
        self.check_assuming
    }
    fn supports_uf(&self) -> bool {
        true
    }
    fn supports_const_array(&self) -> bool {
        true
    }
    fn supports_get_unsat_assumptions(&self) -> bool {
        false
    }
}

impl SolverContext for Recorder {
    fn restart(&mut self) -> Result<()> {
        Ok(())
    }
    fn set_logic(&mut self, option: Logic) -> Result<()> {
        self.cmds.push(RCmd::SetLogic(format!("{option:?}")));
        Ok(())
    }
    fn assert(&mut self, _ctx: &Context, e: ExprRef) -> Result<()> {
        self.cmds.push(RCmd::Assert(e));
        Ok(())
    }
    fn declare_const(&mut self, _ctx: &Context, symbol: ExprRef) -> Result<()> {
        self.cmds.push(RCmd::Declare(symbol));
        Ok(())
    }
    fn define_const(&mut self, _ctx: &Context, symbol: ExprRef, expr: ExprRef) -> Result<()> {
        self.cmds.push(RCmd::Define(symbol, expr));
        Ok(())
    }
    fn check_sat_assuming(&mut self, _ctx: &Context, props: impl IntoIterator<Item = ExprRef>) -> Result<CheckSatResponse> {
        self.cmds.push(RCmd::CheckSatAssuming(props.into_iter().collect()));
        Ok(CheckSatResponse::Unsat)
    }
    fn check_sat(&mut self) -> Result<CheckSatResponse> {
        self.cmds.push(RCmd::CheckSat);
        Ok(CheckSatResponse::Unsat)
    }
    fn push(&mut self) -> Result<()> {
        self.cmds.push(RCmd::Push);
        Ok(())
    }
    fn pop(&mut self) -> Result<()> {
        self.cmds.push(RCmd::Pop);
        Ok(())
    }
    fn get_value(&mut self, _ctx: &mut Context, e: ExprRef) -> Result<ExprRef> {
        self.cmds.push(RCmd::GetValue(e));
        Ok(e)
    }
    fn get_unsat_assumptions(&mut self, _ctx: &mut Context) -> Result<Vec<ExprRef>> {
        Ok(vec![])
    }
}

pub fn dump_cmd(ctx: &Context, c: &RCmd) -> String {
    match c {
        RCmd::Declare(s) => format!("(decl {} {})", quote(ctx.get_symbol_name(*s).unwrap_or("?")), dump_type(s.get_type(ctx))),
        RCmd::Define(s, e) => format!("(def {} {} {})", quote(ctx.get_symbol_name(*s).unwrap_or("?")), dump_type(s.get_type(ctx)), dump_expr(ctx, *e)),
        RCmd::Assert(e) => format!("(assert {})", dump_expr(ctx, *e)),
        RCmd::CheckSat => "(check-sat)".to_string(),
        RCmd::CheckSatAssuming(es) => format!("(check-sat-assuming {})", es.iter().map(|e| dump_expr(ctx, *e)).collect::<Vec<_>>().join(" ")),
        RCmd::Push => "(push)".to_string(),
        RCmd::Pop => "(pop)".to_string(),
        RCmd::GetValue(e) => format!("(get-value {})", dump_expr(ctx, *e)),
        RCmd::SetLogic(l) => format!("(set-logic {l})"),
    }
}

// ---------------------------------------------------------------- random valuations
pub fn dump_valuation(ctx: &Context, rng: &mut Rng, syms: &[ExprRef]) -> String {
    let mut bv = String::from("(bvenv");
    let mut arr = String::from("(arrenv");
    for s in syms {
        let name = ctx.get_symbol_name(*s).unwrap().to_string();
        match s.get_type(ctx) {
            Type::BV(w) => {
                let v = lit_value(rng, w);
                bv.push_str(&format!(" ({} {} {})", quote(&name), w, bv_tok(&v)));
            }
            Type::Array(a) => {
                let d = lit_value(rng, a.data_width);
                arr.push_str(&format!(" ({} {} {} {}", quote(&name), a.index_width, a.data_width, bv_tok(&d)));
                for _ in 0..rng.below(4) {
                    let i = lit_value(rng, a.index_width);
                    let v = lit_value(rng, a.data_width);
                    arr.push_str(&format!(" ({} {})", bv_tok(&i), bv_tok(&v)));
                }
                arr.push(')');
            }
        }
    }
    bv.push(')');
    arr.push(')');
    format!("(step {bv} {arr})")
}

// ---------------------------------------------------------------- the case
pub struct Input {
    pub ctx: Context,
    pub sys: TransitionSystem,
    pub entry: u64,
    pub unrolls: u64,
    /// pre-rendered executions (replay) or None (generate)
    pub execs: Option<String>,
    pub features: Vec<&'static str>,
}

fn run_dir_file(stem: &str, ext: &str) -> String {
    format!("{}-{}.{}", stem, std::process::id(), ext)
}

/// the SMT-LIB text of the recorded declare/define commands, through patronus' own serializer
/// (the function SmtLibSolverCtx::write_cmd calls for the solver pipe and for the replay file)
pub fn smt_text(ctx: &Context, blocks: &[Vec<RCmd>]) -> String {
    let mut buf: Vec<u8> = vec![];
    for b in blocks {
        for c in b {
            let cmd = match c {
                RCmd::Declare(s) => SmtCommand::DeclareConst(*s),
                RCmd::Define(s, e) => SmtCommand::DefineConst(*s, *e),
                RCmd::Assert(e) => SmtCommand::Assert(*e),
                _ => continue,
            };
            serialize_cmd(&mut buf, Some(ctx), &cmd).expect("serialize");
        }
    }
    String::from_utf8_lossy(&buf).into_owned()
}

/// The anchor path: the real SmtLibSolverCtx talking to z3, with a replay file.  Returns z3's
/// verdict through patronus ("ok" | message) and the declare/define lines of the replay file.
fn real_ctx_run(ctx: &mut Context, sys: &TransitionSystem, entry: u64, unrolls: u64) -> (String, String) {
    let path = run_dir_file("c04-replay", "smt2");
    let z3 = guarded(|| -> std::result::Result<(), String> {
        let file = std::fs::File::create(&path).map_err(|e| e.to_string())?;
        let mut smt = Z3.start(Some(file)).map_err(|e| format!("start: {e}"))?;
        smt.set_logic(Logic::All).map_err(|e| format!("{e}"))?;
        let mut enc = UnrollSmtEncoding::new(ctx, sys, false);
        enc.init_at(ctx, &mut smt, entry).map_err(|e| format!("{e}"))?;
        for _ in 0..unrolls {
            enc.unroll(ctx, &mut smt).map_err(|e| format!("{e}"))?;
        }
        match smt.check_sat() {
            Ok(CheckSatResponse::Sat) => Ok(()),
            Ok(other) => Err(format!("unexpected answer {other:?}")),
            Err(e) => Err(format!("{e}")),
        }
    });
    let z3 = match z3 {
        Ok(Ok(())) => "ok".to_string(),
        Ok(Err(m)) => m,
        Err(p) => format!("panic: {p} @ {}", last_panic_loc()),
    };
    let txt = std::fs::read_to_string(&path).unwrap_or_default();
    let _ = std::fs::remove_file(&path);
    let body: String = txt.lines().filter(|l| l.starts_with("(declare-const") || l.starts_with("(define-fun")).map(|l| format!("{l}\n")).collect();
    (z3, body)
}

/// Run many scripts through one solver process: every script is followed by (check-sat), an echo
/// marker and (reset).  z3 keeps going after an error; cvc5 stops at the first error and is
/// restarted behind the failing script.  Returns "ok" | first error message, per script.
pub fn batch_solver(solver: &str, args: &[&str], scripts: &[String]) -> Vec<String> {
    let mut out: Vec<String> = vec![String::new(); scripts.len()];
    let mut from = 0usize;
    let mut launches = 0;
    while from < scripts.len() {
        launches += 1;
        let path = run_dir_file(&format!("c04-batch-{solver}"), "smt2");
        let mut txt = String::new();
        for (k, s) in scripts.iter().enumerate().skip(from) {
            txt.push_str("(set-logic ALL)\n");
            txt.push_str(s);
            txt.push_str(&format!("(check-sat)\n(echo \"case-{k}\")\n(reset)\n"));
        }
        std::fs::write(&path, txt).expect("batch file");
        let o = std::process::Command::new(solver).args(args).arg(&path).output();
        let _ = std::fs::remove_file(&path);
        let o = match o {
            Ok(o) => o,
            Err(e) => {
                for k in from..scripts.len() {
                    out[k] = format!("cannot run {solver}: {e}");
                }
                return out;
            }
        };
        let text = format!("{}{}", String::from_utf8_lossy(&o.stdout), String::from_utf8_lossy(&o.stderr));
        let mut cur = from;
        let mut err: Option<String> = None;
        let mut sat_seen = false;
        for line in text.lines() {
            let l = line.trim().trim_matches('"');
            if let Some(k) = l.strip_prefix("case-") {
                let k: usize = k.parse().unwrap_or(cur);
                out[k] = match (&err, sat_seen) {
                    (Some(e), _) => e.clone(),
                    (None, true) => "ok".to_string(),
                    (None, false) => "no answer".to_string(),
                };
                cur = k + 1;
                err = None;
                sat_seen = false;
            } else if l == "sat" {
                sat_seen = true;
            } else if l.contains("(error") && err.is_none() {
                err = Some(l.to_string());
            } else if err.as_deref().map(|e| e.ends_with("Parse Error:") || e.len() < 40).unwrap_or(false) && !l.is_empty() {
                // cvc5 spreads its message over several lines
                let e = err.take().unwrap();
                err = Some(format!("{e} {l}"));
            }
        }
        if cur < scripts.len() {
            // the solver stopped inside script `cur`
            out[cur] = err.unwrap_or_else(|| "solver stopped without a message".to_string());
            cur += 1;
        }
        from = cur;
        if launches > scripts.len() + 2 {
            break;
        }
    }
    out
}

/// a case whose solver verdicts are still to be filled in
pub struct Pending {
    head: String,
    tail: String,
    smt: String,
    /// verdict of the real SmtLibSolverCtx path, when it was taken
    real: Option<(String, bool)>,
}

pub fn run_case(id: &str, inp: Input, rng: &mut Rng, stats: &mut Stats, real_path: bool) -> Pending {
    let Input { mut ctx, sys, entry, unrolls, execs, features } = inp;
    let sys_txt = dump_sys(&ctx, &sys);
    let named = dump_named(&ctx, &sys);
    // names and analysis before the encoding adds its own nodes
    let names = dump_names(&ctx, &sys);
    let mut implerr = String::new();
    let order = match guarded(|| analyze_for_serialization(&ctx, &sys, false)) {
        Ok(meta) => {
            let mut s = String::from("(order");
            for r in meta.signal_order.iter() {
                s.push_str(&format!(" ({} {} {} {})", dump_expr(&ctx, r.expr), r.uses.next, r.uses.init, r.uses.other));
            }
            s.push(')');
            s
        }
        Err(m) => {
            implerr = format!("analyze: {m} @ {}", last_panic_loc());
            "(order)".to_string()
        }
    };
    // the observable signals
    let mut observed: Vec<ExprRef> = vec![];
    for st in sys.states.iter() {
        observed.push(st.symbol);
    }
    observed.extend(sys.inputs.iter().copied());
    observed.extend(sys.constraints.iter().copied());
    observed.extend(sys.bad_states.iter().copied());
    let mut blocks = String::from("(blocks");
    let mut signals = String::from("(signals");
    let mut n_cmds = 0u64;
    let mut smt = String::new();
    let res = guarded(|| {
        let mut rec = Recorder::new(true);
        let mut enc = UnrollSmtEncoding::new(&mut ctx, &sys, false);
        let mut out_blocks: Vec<Vec<RCmd>> = vec![];
        enc.init_at(&mut ctx, &mut rec, entry).unwrap();
        out_blocks.push(std::mem::take(&mut rec.cmds));
        for _ in 0..unrolls {
            enc.unroll(&mut ctx, &mut rec).unwrap();
            out_blocks.push(std::mem::take(&mut rec.cmds));
        }
        (enc, out_blocks)
    });
    match res {
        Ok((enc, out_blocks)) => {
            for b in out_blocks.iter() {
                blocks.push_str(" (block");
                for c in b.iter() {
                    n_cmds += 1;
                    blocks.push(' ');
                    blocks.push_str(&dump_cmd(&ctx, c));
                }
                blocks.push(')');
            }
            smt = smt_text(&ctx, &out_blocks);
            for k in entry..=entry + unrolls {
                for e in observed.iter() {
                    let r = guarded(|| enc.get_signal_at(&ctx, *e, k));
                    let txt = match r {
                        Ok(s) => dump_expr(&ctx, s),
                        Err(_) => "(panic)".to_string(),
                    };
                    signals.push_str(&format!(" (sig {} {} {})", dump_expr(&ctx, *e), k, txt));
                }
            }
        }
        Err(m) => {
            implerr = format!("encoding: {m} @ {}", last_panic_loc());
        }
    }
    blocks.push(')');
    signals.push(')');
    stats.bump("commands_per_script", &format!("{}", (n_cmds / 5) * 5));
    let real = if real_path {
        let (v, body) = real_ctx_run(&mut ctx, &sys, entry, unrolls);
        stats.inc("real_solver_ctx_runs");
        Some((v, body == smt))
    } else {
        None
    };
    let execs = match execs {
        Some(e) => e,
        None => {
            let syms: Vec<ExprRef> = sys.states.iter().map(|s| s.symbol).chain(sys.inputs.iter().copied()).collect();
            let mut s = String::from("(execs");
            for _ in 0..3 {
                s.push_str(" (exec");
                for _ in 0..=unrolls {
                    s.push(' ');
                    s.push_str(&dump_valuation(&ctx, rng, &syms));
                }
                s.push(')');
            }
            s.push(')');
            s
        }
    };
    for f in features.iter() {
        stats.bump("features", f);
    }
    stats.bump("entry", if entry == 0 { "0" } else { ">0" });
    stats.bump("unrolls", &format!("{unrolls}"));
    Pending {
        head: format!("(case {id} {sys_txt} {named} {names} (entry {entry}) (unrolls {unrolls}) {order} {blocks} {signals}"),
        tail: format!("{execs} (implerr {}))", quote(&implerr)),
        smt,
        real,
    }
}

/// run the solvers over all pending cases and render the case lines
pub fn finish(pending: Vec<Pending>, stats: &mut Stats) -> Vec<String> {
    let scripts: Vec<String> = pending.iter().map(|p| p.smt.clone()).collect();
    let z3 = batch_solver("z3", &[], &scripts);
    let cvc5 = batch_solver("cvc5", &["--incremental", "--produce-models"], &scripts);
    let mut lines = vec![];
    for (k, p) in pending.iter().enumerate() {
        if z3[k] != "ok" {
            stats.inc("z3_rejects");
        }
        if cvc5[k] != "ok" {
            stats.inc("cvc5_rejects");
        }
        let real = match &p.real {
            None => "(real skipped)".to_string(),
            Some((v, same)) => format!("(real {} {})", quote(v), if *same { "replay-file-same" } else { "replay-file-differs" }),
        };
        lines.push(format!("{} (z3 {}) (cvc5 {}) {} {}", p.head, quote(&z3[k]), quote(&cvc5[k]), real, p.tail));
    }
    lines
}

fn parse_case(c: &Sexp) -> Input {
    let mut ctx = Context::default();
    let sys = sys_from_case(&mut ctx, c);
    let entry = c.field("entry").map(|f| f[0].num()).unwrap_or(0);
    let unrolls = c.field("unrolls").map(|f| f[0].num()).unwrap_or(1);
    let execs = c.list().iter().find(|x| matches!(x, Sexp::List(l) if !l.is_empty() && matches!(&l[0], Sexp::Atom(a) if a == "execs"))).map(sexp_to_string);
    Input { ctx, sys, entry, unrolls, execs, features: vec![] }
}

pub fn sexp_to_string(x: &Sexp) -> String {
    match x {
        Sexp::Atom(a) => a.clone(),
        Sexp::Str(s) => quote(s),
        Sexp::List(l) => format!("({})", l.iter().map(sexp_to_string).collect::<Vec<_>>().join(" ")),
    }
}

pub fn run(args: &Args) {
    let mut rng = Rng::new(args.seed);
    let mut out = std::io::BufWriter::new(std::fs::File::create(&args.out).expect("out file"));
    let mut stats = Stats::default();
    let mut distinct = std::collections::HashSet::new();
    let real_every = args.get_u64("real-every", 10);
    let mut pending: Vec<Pending> = vec![];
    if let Some(path) = args.get("cases-in") {
        for c in read_cases(path).iter() {
            let id = c.list()[1].atom().to_string();
            let inp = parse_case(c);
            pending.push(run_case(&id, inp, &mut rng.fork(), &mut stats, true));
        }
    }
    // directed systems first (both entries), then the generated ones
    let mut id = 0u64;
    if args.count > 0 {
        type Mk = fn(&mut Context) -> TransitionSystem;
        let directed: [(&'static str, Mk); 4] = [
            ("directed:shared-init-next", sys_shared_init_next),
            ("directed:init-signal-reads-state", sys_init_signal_reads_state),
            ("directed:init-reads-later", sys_init_reads_later),
            ("directed:nested-init-only", sys_nested_init_only),
        ];
        for (name, mk) in directed.iter() {
            for (entry, unrolls) in [(0u64, 2u64), (1, 1)] {
                let mut ctx = Context::default();
                let sys = mk(&mut ctx);
                let inp = Input { ctx, sys, entry, unrolls, execs: None, features: vec![name] };
                pending.push(run_case(&format!("d{id}"), inp, &mut rng.fork(), &mut stats, entry == 0));
                id += 1;
            }
        }
    }
    let cfg = McCfg::default();
    for n in 0..args.count {
        let mut r = rng.fork();
        let mut ctx = Context::default();
        let g = gen_mc_sys(&mut ctx, &mut r, &cfg, &mut stats);
        // both entry points on the same system
        let unrolls0 = r.range(0, 3);
        let entry1 = r.range(1, 3);
        let unrolls1 = r.range(0, 2);
        for (entry, unrolls) in [(0, unrolls0), (entry1, unrolls1)] {
            let mut ctx2 = Context::default();
            // rebuild the system in a fresh store so that both runs see the same node numbering
            let txt = format!("(case x {} {})", dump_sys(&ctx, &g.sys), dump_named(&ctx, &g.sys));
            let sx = Sexp::parse(&txt).unwrap();
            let sys2 = sys_from_case(&mut ctx2, &sx);
            let inp = Input { ctx: ctx2, sys: sys2, entry, unrolls, execs: None, features: g.features.clone() };
            let real_path = real_every > 0 && (2 * n + entry.min(1)) % real_every == 0;
            pending.push(run_case(&format!("{n}e{entry}"), inp, &mut r, &mut stats, real_path));
        }
    }
    for line in finish(pending, &mut stats) {
        let key_from = line.find("(sys").unwrap_or(0);
        let key_to = line.find("(order").unwrap_or(line.len());
        distinct.insert(line[key_from..key_to].to_string());
        stats.sample(&line, 2);
        writeln!(out, "{line}").unwrap();
    }
    stats.add("distinct_cases", distinct.len() as u64);
    stats.write(&args.out);
}
