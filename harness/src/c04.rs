//! C04: the unrolled SMT encoding (patronus::mc::UnrollSmtEncoding).  One case per line:
//! (case ID (sys ..) (named ..) (names (E "n")..) (entry J) (unrolls N)
//!   (order (E next init other)..)                 analyze_for_serialization, as the implementation computes it
//!   (blocks (block CMD..)..)                      commands of init_at, then of every unroll, recorded by a SolverContext
//!   (signals (sig E step SYM)..)                  get_signal_at of states, inputs, constraints, bad states
//!   (z3 "ok"|"msg") (cvc5 "ok"|"msg")             the real text protocol (SmtLibSolverCtx + replay file) fed to both solvers
//!   (execs (exec (step (bvenv..) (arrenv..))..)..) random raw valuations, one per step
//!   (implerr "msg"))
//! CMD = (decl "name" TY) | (def "name" TY E);  TY = (bv w) | (arr iw dw)
#[path = "mcgen.rs"]
pub mod mcgen;

use crate::dump::*;
use crate::exprgen::*;
use crate::rng::Rng;
use crate::sexp::{Sexp, build_expr, read_cases};
use crate::sysgen::dump_sys;
use crate::util::*;
use baa::{BitVecOps, BitVecValue};
use mcgen::*;
use patronus::expr::*;
use patronus::mc::{TransitionSystemEncoding, UnrollSmtEncoding};
use patronus::smt::*;
use patronus::system::analysis::analyze_for_serialization;
use patronus::system::*;
use std::io::Write;

// ---------------------------------------------------------------- a SolverContext that records
#[derive(Clone, Debug)]
pub enum RCmd {
    SetLogic(String),
    Declare(ExprRef),
    Define(ExprRef, ExprRef),
    Assert(ExprRef),
    CheckSat,
    CheckSatAssuming(Vec<ExprRef>),
    Push,
    Pop,
    GetValue(ExprRef),
}

/// Records every call; answers `unsat` to every query.
pub struct Recorder {
    pub cmds: Vec<RCmd>,
    pub check_assuming: bool,
}

impl Recorder {
    pub fn new(check_assuming: bool) -> Self {
        Recorder { cmds: vec![], check_assuming }
    }
}

impl SolverMetaData for Recorder {
    fn name(&self) -> &str {
        "recorder"
    }
    fn supports_check_assuming(&self) -> bool {
        self.check_assuming
    }
    fn supports_uf(&self) -> bool {
        true
    }
    fn supports_const_array(&self) -> bool {
        true
    }
    fn supports_get_unsat_assumptions(&self) -> bool {
        false
    }
}

impl SolverContext for Recorder {
    fn restart(&mut self) -> Result<()> {
        Ok(())
    }
    fn set_logic(&mut self, option: Logic) -> Result<()> {
        self.cmds.push(RCmd::SetLogic(format!("{option:?}")));
        Ok(())
    }
    fn assert(&mut self, _ctx: &Context, e: ExprRef) -> Result<()> {
        self.cmds.push(RCmd::Assert(e));
        Ok(())
    }
    fn declare_const(&mut self, _ctx: &Context, symbol: ExprRef) -> Result<()> {
        self.cmds.push(RCmd::Declare(symbol));
        Ok(())
    }
    fn define_const(&mut self, _ctx: &Context, symbol: ExprRef, expr: ExprRef) -> Result<()> {
        self.cmds.push(RCmd::Define(symbol, expr));
        Ok(())
    }
    fn check_sat_assuming(&mut self, _ctx: &Context, props: impl IntoIterator<Item = ExprRef>) -> Result<CheckSatResponse> {
        self.cmds.push(RCmd::CheckSatAssuming(props.into_iter().collect()));
        Ok(CheckSatResponse::Unsat)
    }
    fn check_sat(&mut self) -> Result<CheckSatResponse> {
        self.cmds.push(RCmd::CheckSat);
        Ok(CheckSatResponse::Unsat)
    }
    fn push(&mut self) -> Result<()> {
        self.cmds.push(RCmd::Push);
        Ok(())
    }
    fn pop(&mut self) -> Result<()> {
        self.cmds.push(RCmd::Pop);
        Ok(())
    }
    fn get_value(&mut self, _ctx: &mut Context, e: ExprRef) -> Result<ExprRef> {
        self.cmds.push(RCmd::GetValue(e));
        Ok(e)
    }
    fn get_unsat_assumptions(&mut self, _ctx: &mut Context) -> Result<Vec<ExprRef>> {
        Ok(vec![])
    }
}

pub fn dump_cmd(ctx: &Context, c: &RCmd) -> String {
    match c {
        RCmd::Declare(s) => format!("(decl {} {})", quote(ctx.get_symbol_name(*s).unwrap_or("?")), dump_type(s.get_type(ctx))),
        RCmd::Define(s, e) => format!("(def {} {} {})", quote(ctx.get_symbol_name(*s).unwrap_or("?")), dump_type(s.get_type(ctx)), dump_expr(ctx, *e)),
        RCmd::Assert(e) => format!("(assert {})", dump_expr(ctx, *e)),
        RCmd::CheckSat => "(check-sat)".to_string(),
        RCmd::CheckSatAssuming(es) => format!("(check-sat-assuming {})", es.iter().map(|e| dump_expr(ctx, *e)).collect::<Vec<_>>().join(" ")),
        RCmd::Push => "(push)".to_string(),
        RCmd::Pop => "(pop)".to_string(),
        RCmd::GetValue(e) => format!("(get-value {})", dump_expr(ctx, *e)),
        RCmd::SetLogic(l) => format!("(set-logic {l})"),
    }
}

// ---------------------------------------------------------------- random valuations
#[derive(Clone)]
pub enum Val {
    BV(BitVecValue),
    /// default value and stores (later stores win)
    Arr(BitVecValue, Vec<(BitVecValue, BitVecValue)>),
}

pub fn gen_valuation(ctx: &Context, rng: &mut Rng, syms: &[ExprRef]) -> Vec<(ExprRef, Val)> {
    let mut out = vec![];
    for s in syms {
        match s.get_type(ctx) {
            Type::BV(w) => out.push((*s, Val::BV(lit_value(rng, w)))),
            Type::Array(a) => {
                let d = lit_value(rng, a.data_width);
                let mut es = vec![];
                for _ in 0..rng.below(4) {
                    es.push((lit_value(rng, a.index_width), lit_value(rng, a.data_width)));
                }
                out.push((*s, Val::Arr(d, es)));
            }
        }
    }
    out
}

pub fn dump_valuation_of(ctx: &Context, vals: &[(ExprRef, Val)]) -> String {
    let mut bv = String::from("(bvenv");
    let mut arr = String::from("(arrenv");
    for (s, v) in vals {
        let name = ctx.get_symbol_name(*s).unwrap().to_string();
        match (s.get_type(ctx), v) {
            (Type::BV(w), Val::BV(v)) => bv.push_str(&format!(" ({} {} {})", quote(&name), w, bv_tok(v))),
            (Type::Array(a), Val::Arr(d, es)) => {
                arr.push_str(&format!(" ({} {} {} {}", quote(&name), a.index_width, a.data_width, bv_tok(d)));
                for (i, v) in es {
                    arr.push_str(&format!(" ({} {})", bv_tok(i), bv_tok(v)));
                }
                arr.push(')');
            }
            _ => {}
        }
    }
    bv.push(')');
    arr.push(')');
    format!("(step {bv} {arr})")
}

pub fn dump_valuation(ctx: &Context, rng: &mut Rng, syms: &[ExprRef]) -> String {
    let v = gen_valuation(ctx, rng, syms);
    dump_valuation_of(ctx, &v)
}

// ---------------------------------------------------------------- the case
pub struct Input {
    pub ctx: Context,
    pub sys: TransitionSystem,
    pub entry: u64,
    pub unrolls: u64,
    /// pre-rendered executions (replay) or None (generate)
    pub execs: Option<String>,
    pub features: Vec<&'static str>,
}

fn run_dir_file(stem: &str, ext: &str) -> String {
    format!("{}-{}.{}", stem, std::process::id(), ext)
}

/// the SMT-LIB text of the recorded declare/define commands, through patronus' own serializer
/// (the function SmtLibSolverCtx::write_cmd calls for the solver pipe and for the replay file)
pub fn smt_text(ctx: &Context, blocks: &[Vec<RCmd>]) -> String {
    let mut buf: Vec<u8> = vec![];
    for b in blocks {
        for c in b {
            let cmd = match c {
                RCmd::Declare(s) => SmtCommand::DeclareConst(*s),
                RCmd::Define(s, e) => SmtCommand::DefineConst(*s, *e),
                RCmd::Assert(e) => SmtCommand::Assert(*e),
                _ => continue,
            };
            serialize_cmd(&mut buf, Some(ctx), &cmd).expect("serialize");
        }
    }
    String::from_utf8_lossy(&buf).into_owned()
}

/// The anchor path: the real SmtLibSolverCtx talking to z3, with a replay file.  Returns z3's
/// verdict through patronus ("ok" | message) and the declare/define lines of the replay file.
fn real_ctx_run(ctx: &mut Context, sys: &TransitionSystem, entry: u64, unrolls: u64) -> (String, String) {
    let path = run_dir_file("c04-replay", "smt2");
    let z3 = guarded(|| -> std::result::Result<(), String> {
        let file = std::fs::File::create(&path).map_err(|e| e.to_string())?;
        let mut smt = Z3.start(Some(file)).map_err(|e| format!("start: {e}"))?;
        smt.set_logic(Logic::All).map_err(|e| format!("{e}"))?;
        let mut enc = UnrollSmtEncoding::new(ctx, sys, false);
        enc.init_at(ctx, &mut smt, entry).map_err(|e| format!("{e}"))?;
        for _ in 0..unrolls {
            enc.unroll(ctx, &mut smt).map_err(|e| format!("{e}"))?;
        }
        match smt.check_sat() {
            Ok(CheckSatResponse::Sat) => Ok(()),
            Ok(other) => Err(format!("unexpected answer {other:?}")),
            Err(e) => Err(format!("{e}")),
        }
    });
    let z3 = match z3 {
        Ok(Ok(())) => "ok".to_string(),
        Ok(Err(m)) => m,
        Err(p) => format!("panic: {p} @ {}", last_panic_loc()),
    };
    let txt = std::fs::read_to_string(&path).unwrap_or_default();
    let _ = std::fs::remove_file(&path);
    let body: String = txt.lines().filter(|l| l.starts_with("(declare-const") || l.starts_with("(define-fun")).map(|l| format!("{l}\n")).collect();
    (z3, body)
}

/// Run many scripts through one solver process: every script is followed by (check-sat), an echo
/// marker and (reset).  z3 keeps going after an error; cvc5 stops at the first error and is
/// restarted behind the failing script.  Returns "ok" | first error message, per script.
pub fn batch_solver(solver: &str, args: &[&str], scripts: &[String]) -> Vec<String> {
    batch_solver_x(solver, args, scripts, None).0
}

/// `extras[k]` is inserted between script k and its final (check-sat); everything the solver prints for a
/// script that is neither sat/unsat nor an error (get-value answers) is returned as second component
pub fn batch_solver_x(solver: &str, args: &[&str], scripts: &[String], extras: Option<&[String]>) -> (Vec<String>, Vec<String>) {
    let mut other: Vec<String> = vec![String::new(); scripts.len()];
    let mut out: Vec<String> = vec![String::new(); scripts.len()];
    let mut from = 0usize;
    let mut launches = 0;
    while from < scripts.len() {
        launches += 1;
        let path = run_dir_file(&format!("c04-batch-{solver}"), "smt2");
        let mut txt = String::new();
        for (k, s) in scripts.iter().enumerate().skip(from) {
            txt.push_str("(set-logic ALL)\n");
            txt.push_str(s);
            if let Some(x) = extras {
                txt.push_str(&x[k]);
            }
            txt.push_str(&format!("(check-sat)\n(echo \"case-{k}\")\n(reset)\n"));
        }
        std::fs::write(&path, txt).expect("batch file");
        let o = std::process::Command::new(solver).args(args).arg(&path).output();
        let _ = std::fs::remove_file(&path);
        let o = match o {
            Ok(o) => o,
            Err(e) => {
                for k in from..scripts.len() {
                    out[k] = format!("cannot run {solver}: {e}");
                }
                return (out, other);
            }
        };
        let text = format!("{}{}", String::from_utf8_lossy(&o.stdout), String::from_utf8_lossy(&o.stderr));
        let mut cur = from;
        let mut err: Option<String> = None;
        let mut sat_seen = false;
        for line in text.lines() {
            let l = line.trim().trim_matches('"');
            if let Some(k) = l.strip_prefix("case-") {
                let k: usize = k.parse().unwrap_or(cur);
                out[k] = match (&err, sat_seen) {
                    (Some(e), _) => e.clone(),
                    (None, true) => "ok".to_string(),
                    (None, false) => "no answer".to_string(),
                };
                cur = k + 1;
                err = None;
                sat_seen = false;
            } else if l == "sat" {
                sat_seen = true;
            } else if l == "unsat" {
                if cur < other.len() {
                    other[cur].push_str(" UNSAT ");
                }
            } else if extras.is_some() && !l.contains("(error") && err.is_none() && cur < other.len() {
                other[cur].push_str(line);
                other[cur].push(' ');
            } else if l.contains("(error") && err.is_none() {
                err = Some(l.to_string());
            } else if err.as_deref().map(|e| e.ends_with("Parse Error:") || e.len() < 40).unwrap_or(false) && !l.is_empty() {
                // cvc5 spreads its message over several lines
                let e = err.take().unwrap();
                err = Some(format!("{e} {l}"));
            }
        }
        if cur < scripts.len() {
            // the solver stopped inside script `cur`
            out[cur] = err.unwrap_or_else(|| "solver stopped without a message".to_string());
            cur += 1;
        }
        from = cur;
        if launches > scripts.len() + 2 {
            break;
        }
    }
    (out, other)
}

/// z3's answer to (get-value (..)) as `(textvals (v "name" bits)..)`; Bool -> one bit
pub fn render_textvals(answer: &str) -> String {
    let a = answer.trim();
    if a.is_empty() {
        return "(textvals none)".to_string();
    }
    if a.contains("UNSAT") {
        return "(textvals unsat)".to_string();
    }
    let Ok(sx) = Sexp::parse(a) else { return format!("(textvals unparsed {})", quote(&a.chars().take(200).collect::<String>())) };
    let mut out = String::from("(textvals");
    if let Sexp::List(pairs) = sx {
        for p in pairs {
            if let Sexp::List(l) = p {
                if l.len() == 2 {
                    if let (Sexp::Atom(n), Sexp::Atom(v)) = (&l[0], &l[1]) {
                        let name = n.trim_matches('|');
                        let bits = if v == "true" {
                            "1".to_string()
                        } else if v == "false" {
                            "0".to_string()
                        } else if let Some(b) = v.strip_prefix("#b") {
                            b.to_string()
                        } else if let Some(h) = v.strip_prefix("#x") {
                            h.chars().map(|c| format!("{:04b}", c.to_digit(16).unwrap_or(0))).collect()
                        } else {
                            continue;
                        };
                        out.push_str(&format!(" (v {} b{})", quote(name), bits));
                    }
                }
            }
        }
    }
    out.push(')');
    out
}

/// a case whose solver verdicts are still to be filled in
pub struct Pending {
    head: String,
    tail: String,
    smt: String,
    /// `(push) (assert pinned declared constants) (check-sat) (get-value (step symbols)) (pop)`, or empty
    smt_vals: String,
    /// verdict of the real SmtLibSolverCtx path, when it was taken
    real: Option<(String, bool)>,
}

pub fn run_case(id: &str, inp: Input, rng: &mut Rng, stats: &mut Stats, real_path: bool) -> Pending {
    let Input { mut ctx, sys, entry, unrolls, execs, features } = inp;
    let sys_txt = dump_sys(&ctx, &sys);
    let named = dump_named(&ctx, &sys);
    // names and analysis before the encoding adds its own nodes
    let names = dump_names(&ctx, &sys);
    let mut implerr = String::new();
    let order = match guarded(|| analyze_for_serialization(&ctx, &sys, false)) {
        Ok(meta) => {
            let mut s = String::from("(order");
            for r in meta.signal_order.iter() {
                s.push_str(&format!(" ({} {} {} {})", dump_expr(&ctx, r.expr), r.uses.next, r.uses.init, r.uses.other));
            }
            s.push(')');
            s
        }
        Err(m) => {
            implerr = format!("analyze: {m} @ {}", last_panic_loc());
            "(order)".to_string()
        }
    };
    // the observable signals
    let mut observed: Vec<ExprRef> = vec![];
    for st in sys.states.iter() {
        observed.push(st.symbol);
    }
    observed.extend(sys.inputs.iter().copied());
    observed.extend(sys.constraints.iter().copied());
    observed.extend(sys.bad_states.iter().copied());
    let mut blocks = String::from("(blocks");
    let mut signals = String::from("(signals");
    let mut n_cmds = 0u64;
    let mut smt = String::new();
    // declared step symbols with the system symbol and relative step they stand for; watched step symbols
    let mut pins: Vec<(ExprRef, ExprRef, u64)> = vec![];
    let mut watch: Vec<ExprRef> = vec![];
    let res = guarded(|| {
        let mut rec = Recorder::new(true);
        let mut enc = UnrollSmtEncoding::new(&mut ctx, &sys, false);
        let mut out_blocks: Vec<Vec<RCmd>> = vec![];
        enc.init_at(&mut ctx, &mut rec, entry).unwrap();
        out_blocks.push(std::mem::take(&mut rec.cmds));
        for _ in 0..unrolls {
            enc.unroll(&mut ctx, &mut rec).unwrap();
            out_blocks.push(std::mem::take(&mut rec.cmds));
        }
        (enc, out_blocks)
    });
    match res {
        Ok((enc, out_blocks)) => {
            for b in out_blocks.iter() {
                blocks.push_str(" (block");
                for c in b.iter() {
                    n_cmds += 1;
                    blocks.push(' ');
                    blocks.push_str(&dump_cmd(&ctx, c));
                }
                blocks.push(')');
            }
            smt = smt_text(&ctx, &out_blocks);
            let declared: std::collections::HashSet<ExprRef> =
                out_blocks.iter().flatten().filter_map(|c| if let RCmd::Declare(s) = c { Some(*s) } else { None }).collect();
            for k in entry..=entry + unrolls {
                for e in observed.iter() {
                    let r = guarded(|| enc.get_signal_at(&ctx, *e, k));
                    if let Ok(sym) = &r {
                        if ctx[*sym].is_symbol() {
                            if declared.contains(sym) && ctx[*e].is_symbol() && !pins.iter().any(|(s, _, _)| s == sym) {
                                pins.push((*sym, *e, k - entry));
                            }
                            if sym.get_bv_type(&ctx).is_some() && !watch.contains(sym) {
                                watch.push(*sym);
                            }
                        }
                    }
                    let txt = match r {
                        Ok(s) => dump_expr(&ctx, s),
                        Err(_) => "(panic)".to_string(),
                    };
                    signals.push_str(&format!(" (sig {} {} {})", dump_expr(&ctx, *e), k, txt));
                }
            }
        }
        Err(m) => {
            implerr = format!("encoding: {m} @ {}", last_panic_loc());
        }
    }
    blocks.push(')');
    signals.push(')');
    stats.bump("commands_per_script", &format!("{}", (n_cmds / 5) * 5));
    let real = if real_path {
        let (v, body) = real_ctx_run(&mut ctx, &sys, entry, unrolls);
        stats.inc("real_solver_ctx_runs");
        Some((v, body == smt))
    } else {
        None
    };
    let mut smt_vals = String::new();
    let execs = match execs {
        Some(e) => e,
        None => {
            let syms: Vec<ExprRef> = sys.states.iter().map(|s| s.symbol).chain(sys.inputs.iter().copied()).collect();
            let mut s = String::from("(execs");
            for x in 0..3 {
                s.push_str(" (exec");
                let mut steps: Vec<Vec<(ExprRef, Val)>> = vec![];
                for _ in 0..=unrolls {
                    let v = gen_valuation(&ctx, rng, &syms);
                    s.push(' ');
                    s.push_str(&dump_valuation_of(&ctx, &v));
                    steps.push(v);
                }
                s.push(')');
                if x == 0 && !watch.is_empty() && !smt.is_empty() {
                    // the REAL text, evaluated by z3 on this run: pin the declared constants, ask for the step symbols
                    let mut buf: Vec<u8> = b"(push 1)\n".to_vec();
                    for (sym, e, k) in pins.iter() {
                        let Some((_, val)) = steps[*k as usize].iter().find(|(x, _)| x == e) else { continue };
                        let rhs = match val {
                            Val::BV(v) => ctx.bv_lit(v),
                            Val::Arr(d, es) => {
                                let iw = e.get_array_type(&ctx).unwrap().index_width;
                                let dl = ctx.bv_lit(d);
                                let mut a = ctx.array_const(dl, iw);
                                for (i, v) in es {
                                    let il = ctx.bv_lit(i);
                                    let vl = ctx.bv_lit(v);
                                    a = ctx.array_store(a, il, vl);
                                }
                                a
                            }
                        };
                        let eq = ctx.equal(*sym, rhs);
                        serialize_cmd(&mut buf, Some(&ctx), &SmtCommand::Assert(eq)).expect("serialize");
                    }
                    buf.extend_from_slice(b"(check-sat)\n(get-value (");
                    for w in watch.iter() {
                        let mut one: Vec<u8> = vec![];
                        // a symbol is serialized the way the script serializes it: through get-value's own printer
                        serialize_cmd(&mut one, Some(&ctx), &SmtCommand::GetValue(*w)).expect("serialize");
                        // "(get-value (NAME))\n" -> NAME
                        let t = String::from_utf8_lossy(&one).into_owned();
                        let name = t.trim().trim_start_matches("(get-value (").trim_end_matches("))").to_string();
                        buf.extend_from_slice(name.as_bytes());
                        buf.push(b' ');
                    }
                    buf.extend_from_slice(b"))\n(pop 1)\n");
                    smt_vals = String::from_utf8_lossy(&buf).into_owned();
                }
            }
            s.push(')');
            s
        }
    };
    for f in features.iter() {
        stats.bump("features", f);
    }
    stats.bump("entry", if entry == 0 { "0" } else { ">0" });
    stats.bump("unrolls", &format!("{unrolls}"));
    Pending {
        head: format!("(case {id} {sys_txt} {named} {names} (entry {entry}) (unrolls {unrolls}) {order} {blocks} {signals}"),
        tail: format!("{execs} (implerr {}))", quote(&implerr)),
        smt,
        smt_vals,
        real,
    }
}

/// run the solvers over all pending cases and render the case lines
pub fn finish(pending: Vec<Pending>, stats: &mut Stats) -> Vec<String> {
    let scripts: Vec<String> = pending.iter().map(|p| p.smt.clone()).collect();
    let extras: Vec<String> = pending.iter().map(|p| p.smt_vals.clone()).collect();
    let (z3, z3_other) = batch_solver_x("z3", &[], &scripts, Some(&extras));
    let cvc5 = batch_solver("cvc5", &["--incremental", "--produce-models"], &scripts);
    let mut lines = vec![];
    for (k, p) in pending.iter().enumerate() {
        if z3[k] != "ok" {
            stats.inc("z3_rejects");
        }
        if cvc5[k] != "ok" {
            stats.inc("cvc5_rejects");
        }
        let real = match &p.real {
            None => "(real skipped)".to_string(),
            Some((v, same)) => format!("(real {} {})", quote(v), if *same { "replay-file-same" } else { "replay-file-differs" }),
        };
        let textvals = if p.smt_vals.is_empty() { "(textvals none)".to_string() } else { render_textvals(&z3_other[k]) };
        if textvals.starts_with("(textvals (v") {
            stats.inc("runs_evaluated_on_the_smt_text_by_z3");
        }
        lines.push(format!("{} (z3 {}) (cvc5 {}) {} {} {}", p.head, quote(&z3[k]), quote(&cvc5[k]), real, textvals, p.tail));
    }
    lines
}

fn parse_case(c: &Sexp) -> Input {
    let mut ctx = Context::default();
    let sys = sys_from_case(&mut ctx, c);
    let entry = c.field("entry").map(|f| f[0].num()).unwrap_or(0);
    let unrolls = c.field("unrolls").map(|f| f[0].num()).unwrap_or(1);
    let execs = c.list().iter().find(|x| matches!(x, Sexp::List(l) if !l.is_empty() && matches!(&l[0], Sexp::Atom(a) if a == "execs"))).map(sexp_to_string);
    Input { ctx, sys, entry, unrolls, execs, features: vec![] }
}

pub fn sexp_to_string(x: &Sexp) -> String {
    match x {
        Sexp::Atom(a) => a.clone(),
        Sexp::Str(s) => quote(s),
        Sexp::List(l) => format!("({})", l.iter().map(sexp_to_string).collect::<Vec<_>>().join(" ")),
    }
}

pub fn run(args: &Args) {
    let mut rng = Rng::new(args.seed);
    let mut out = std::io::BufWriter::new(std::fs::File::create(&args.out).expect("out file"));
    let mut stats = Stats::default();
    let mut distinct = std::collections::HashSet::new();
    let real_every = args.get_u64("real-every", 10);
    let mut pending: Vec<Pending> = vec![];
    if let Some(path) = args.get("cases-in") {
        for c in read_cases(path).iter() {
            let id = c.list()[1].atom().to_string();
            let inp = parse_case(c);
            pending.push(run_case(&id, inp, &mut rng.fork(), &mut stats, true));
        }
    }
    // directed systems first (both entries), then the generated ones
    let mut id = 0u64;
    if args.count > 0 {
        type Mk = fn(&mut Context) -> TransitionSystem;
        let directed: [(&'static str, Mk); 4] = [
            ("directed:shared-init-next", sys_shared_init_next),
            ("directed:init-signal-reads-state", sys_init_signal_reads_state),
            ("directed:init-reads-later", sys_init_reads_later),
            ("directed:nested-init-only", sys_nested_init_only),
        ];
        for (name, mk) in directed.iter() {
            for (entry, unrolls) in [(0u64, 2u64), (1, 1)] {
                let mut ctx = Context::default();
                let sys = mk(&mut ctx);
                let inp = Input { ctx, sys, entry, unrolls, execs: None, features: vec![name] };
                pending.push(run_case(&format!("d{id}"), inp, &mut rng.fork(), &mut stats, entry == 0));
                id += 1;
            }
        }
    }
    let cfg = McCfg::default();
    for n in 0..args.count {
        let mut r = rng.fork();
        let mut ctx = Context::default();
        let g = gen_mc_sys(&mut ctx, &mut r, &cfg, &mut stats);
        // both entry points on the same system
        let unrolls0 = r.range(0, 3);
        let entry1 = r.range(1, 3);
        let unrolls1 = r.range(0, 2);
        for (entry, unrolls) in [(0, unrolls0), (entry1, unrolls1)] {
            let mut ctx2 = Context::default();
            // rebuild the system in a fresh store so that both runs see the same node numbering
            let txt = format!("(case x {} {})", dump_sys(&ctx, &g.sys), dump_named(&ctx, &g.sys));
            let sx = Sexp::parse(&txt).unwrap();
            let sys2 = sys_from_case(&mut ctx2, &sx);
            let inp = Input { ctx: ctx2, sys: sys2, entry, unrolls, execs: None, features: g.features.clone() };
            let real_path = real_every > 0 && (2 * n + entry.min(1)) % real_every == 0;
            pending.push(run_case(&format!("{n}e{entry}"), inp, &mut r, &mut stats, real_path));
        }
    }
    for line in finish(pending, &mut stats) {
        let key_from = line.find("(sys").unwrap_or(0);
        let key_to = line.find("(order").unwrap_or(line.len());
        distinct.insert(line[key_from..key_to].to_string());
        stats.sample(&line, 2);
        writeln!(out, "{line}").unwrap();
    }
    stats.add("distinct_cases", distinct.len() as u64);
    stats.write(&args.out);
}
