//! C20: value summaries (patronus-dse/src/value_summary.rs).  One case per line:
//!
//! (case ID (debug 0|1) (steps STEP...) (terms E...) (impl R...) (panicloc "file:line") (panicmsg ".."))
//!
//! STEP = (new E) | (bin OP i j) | (ite c t f) | (coalesce i) | (import i) | (guard E)
//!        i, j, c, t, f index the summaries produced so far (a `guard` step produces none)
//! R    = (s (GID TT VALUE)...)   entries of the summary the step produced, in stored order
//!      | (g GID TT)              the guard a `guard` step produced
//!      | (panic)                 the step panicked; nothing is executed after it
//! TT   = truth table of the guard over the terminals listed in (terms ...): a string of 2^n
//!        characters, character k = value of the guard when terminal i has bit i of k.
//!        Observed through the cfg(patronus_verif) hooks `verif_entries`, `verif_eval`,
//!        `verif_terminals` (and `verif_clone` to use one summary as an argument several times).
use crate::dump::*;
use crate::rng::Rng;
use crate::sexp::{Sexp, build_expr, read_cases};
use crate::util::*;
use baa::BitVecValue;
use patronus::expr::*;
use patronus_dse::{GuardCtx, ValueSummary};
use std::io::Write;

#[derive(Clone, Debug)]
enum Step {
    New(ExprRef),
    Bin(&'static str, usize, usize),
    Ite(usize, usize, usize),
    Coalesce(usize),
    Import(usize),
    Guard(ExprRef),
}

type BinFn = fn(&mut Context, ExprRef, ExprRef) -> ExprRef;

fn op_and(ec: &mut Context, a: ExprRef, b: ExprRef) -> ExprRef {
    ec.and(a, b)
}
fn op_or(ec: &mut Context, a: ExprRef, b: ExprRef) -> ExprRef {
    ec.or(a, b)
}
fn op_xor(ec: &mut Context, a: ExprRef, b: ExprRef) -> ExprRef {
    ec.xor(a, b)
}
fn op_add(ec: &mut Context, a: ExprRef, b: ExprRef) -> ExprRef {
    ec.add(a, b)
}
fn op_sub(ec: &mut Context, a: ExprRef, b: ExprRef) -> ExprRef {
    ec.sub(a, b)
}
fn op_eq(ec: &mut Context, a: ExprRef, b: ExprRef) -> ExprRef {
    ec.equal(a, b)
}
fn op_ugt(ec: &mut Context, a: ExprRef, b: ExprRef) -> ExprRef {
    ec.greater(a, b)
}
fn op_implies(ec: &mut Context, a: ExprRef, b: ExprRef) -> ExprRef {
    ec.implies(a, b)
}
fn op_fst(_ec: &mut Context, a: ExprRef, _b: ExprRef) -> ExprRef {
    a
}
fn op_snd(_ec: &mut Context, _a: ExprRef, b: ExprRef) -> ExprRef {
    b
}

/// result width of an operator: 0 = same as operands, 1 = boolean, 2 = first, 3 = second
const OPS: &[(&str, BinFn, u8)] = &[
    ("and", op_and, 0),
    ("or", op_or, 0),
    ("xor", op_xor, 0),
    ("add", op_add, 0),
    ("sub", op_sub, 0),
    ("eq", op_eq, 1),
    ("ugt", op_ugt, 1),
    ("implies", op_implies, 0),
    ("fst", op_fst, 2),
    ("snd", op_snd, 3),
];

fn find_op(name: &str) -> (&'static str, BinFn, u8) {
    *OPS.iter().find(|o| o.0 == name).unwrap_or_else(|| panic!("unknown operator {name}"))
}

enum StepRes {
    Sum(Vec<(usize, ExprRef)>),
    Guard(usize),
    Panic,
}

struct Runner {
    ctx: Context,
    gc: GuardCtx,
    sums: Vec<ValueSummary<ExprRef>>,
    /// width of the values of each summary (as tracked by the generator; 0 = unknown/mixed)
    widths: Vec<WidthInt>,
    /// summaries whose value trees got large: no longer used as operands of value-building steps
    big: Vec<bool>,
    steps: Vec<Step>,
    results: Vec<StepRes>,
    panic_loc: String,
    panic_msg: String,
    dead: bool,
    /// set when a step registered more terminals than a truth table can cover: that step is
    /// dropped from the case and the terminals known before it are used
    final_terms: Option<Vec<ExprRef>>,
}

const TERM_LIMIT: usize = 10;

impl Runner {
    fn new(ctx: Context) -> Self {
        Runner {
            ctx,
            gc: GuardCtx::default(),
            sums: vec![],
            widths: vec![],
            big: vec![],
            steps: vec![],
            results: vec![],
            panic_loc: String::new(),
            panic_msg: String::new(),
            dead: false,
            final_terms: None,
        }
    }

    fn value_width(&self, e: ExprRef) -> WidthInt {
        e.get_bv_type(&self.ctx).unwrap_or(0)
    }

    /// run one step on the real implementation
    fn exec(&mut self, step: Step) {
        assert!(!self.dead);
        let terms_before = self.gc.verif_terminals();
        let ctx = &mut self.ctx;
        let gc = &mut self.gc;
        let sums = &self.sums;
        let r: Result<(Option<ValueSummary<ExprRef>>, Option<usize>), String> = guarded(|| match &step {
            Step::New(e) => (Some(ValueSummary::new(gc, *e)), None),
            Step::Bin(op, i, j) => {
                let f = find_op(op).1;
                let a = sums[*i].verif_clone();
                let b = sums[*j].verif_clone();
                (Some(ValueSummary::apply_bin_op(ctx, gc, f, a, b)), None)
            }
            Step::Ite(c, t, f) => {
                let c = sums[*c].verif_clone();
                let t = sums[*t].verif_clone();
                let f = sums[*f].verif_clone();
                (Some(ValueSummary::apply_ite(ctx, gc, c, t, f)), None)
            }
            Step::Coalesce(i) => {
                let mut s = sums[*i].verif_clone();
                s.coalesce(gc);
                (Some(s), None)
            }
            Step::Import(i) => {
                let mut s = sums[*i].verif_clone();
                s.import_into_guard(ctx, gc);
                (Some(s), None)
            }
            Step::Guard(e) => (None, Some(gc.expr_to_guard(ctx, *e))),
        });
        if self.gc.verif_terminals().len() > TERM_LIMIT {
            self.final_terms = Some(terms_before);
            self.dead = true;
            return;
        }
        self.steps.push(step);
        match r {
            Err(msg) => {
                self.panic_msg = msg;
                self.panic_loc = last_panic_loc();
                self.results.push(StepRes::Panic);
                self.dead = true;
            }
            Ok((Some(s), _)) => {
                let entries = s.verif_entries();
                let w = entries.first().map(|e| self.value_width(e.1)).unwrap_or(0);
                let same = entries.iter().all(|e| self.value_width(e.1) == w);
                let mut big = entries.len() > 24;
                for (_, v) in entries.iter() {
                    if tree_size(&self.ctx, *v, 120) > 120 {
                        big = true;
                    }
                }
                self.results.push(StepRes::Sum(entries));
                self.sums.push(s);
                self.widths.push(if same { w } else { 0 });
                self.big.push(big);
            }
            Ok((None, Some(g))) => self.results.push(StepRes::Guard(g)),
            Ok((None, None)) => unreachable!(),
        }
    }

    fn dump(&self, id: &str, debug: bool, stats: &mut Stats) -> String {
        let mut terms = self.final_terms.clone().unwrap_or_else(|| self.gc.verif_terminals());
        terms.sort();
        let n = terms.len();
        let mut s = format!("(case {id} (debug {}) (steps", if debug { 1 } else { 0 });
        for st in self.steps.iter() {
            s.push(' ');
            match st {
                Step::New(e) => s.push_str(&format!("(new {})", dump_expr(&self.ctx, *e))),
                Step::Bin(op, i, j) => s.push_str(&format!("(bin {op} {i} {j})")),
                Step::Ite(c, t, f) => s.push_str(&format!("(ite {c} {t} {f})")),
                Step::Coalesce(i) => s.push_str(&format!("(coalesce {i})")),
                Step::Import(i) => s.push_str(&format!("(import {i})")),
                Step::Guard(e) => s.push_str(&format!("(guard {})", dump_expr(&self.ctx, *e))),
            }
        }
        s.push_str(") (terms");
        for t in terms.iter() {
            s.push(' ');
            s.push_str(&dump_expr(&self.ctx, *t));
        }
        s.push_str(") (impl");
        assert!(n <= 12, "too many terminals for a truth table");
        let mut cache: std::collections::HashMap<usize, String> = Default::default();
        let mut tt = |g: usize| -> String {
            if let Some(t) = cache.get(&g) {
                return t.clone();
            }
            let mut t = String::with_capacity(1 << n);
            let mut val: Vec<(ExprRef, bool)> = terms.iter().map(|e| (*e, false)).collect();
            for k in 0..(1usize << n) {
                for i in 0..n {
                    val[i].1 = (k >> i) & 1 == 1;
                }
                t.push(if self.gc.verif_eval(g, &val) { '1' } else { '0' });
            }
            cache.insert(g, t.clone());
            t
        };
        for r in self.results.iter() {
            s.push(' ');
            match r {
                StepRes::Panic => s.push_str("(panic)"),
                StepRes::Guard(g) => s.push_str(&format!("(g {} {})", g, tt(*g))),
                StepRes::Sum(es) => {
                    s.push_str("(s");
                    // harness-side statistics only (the verdict is the driver's): how many valuations
                    // select exactly one entry
                    let tts: Vec<String> = es.iter().map(|e| tt(e.0)).collect();
                    let mut bad = false;
                    for k in 0..(1usize << n) {
                        let c = tts.iter().filter(|t| t.as_bytes()[k] == b'1').count();
                        if c != 1 {
                            bad = true;
                        }
                    }
                    if bad {
                        stats.inc("impl_summaries_not_a_partition");
                    }
                    stats.bump("entries_per_summary", &format!("{}", es.len().min(33)));
                    for (k, (g, v)) in es.iter().enumerate() {
                        s.push_str(&format!(" ({} {} {})", g, tts[k], dump_expr(&self.ctx, *v)));
                    }
                    s.push(')');
                }
            }
        }
        s.push(')');
        if self.dead && self.final_terms.is_none() {
            s.push_str(&format!(" (panicloc {}) (panicmsg {})", quote(&self.panic_loc), quote(&self.panic_msg)));
        }
        s.push(')');
        s
    }
}

// ------------------------------------------------------------------------------------ generator

struct Gen {
    terminals: Vec<ExprRef>,
    vals8: Vec<ExprRef>,
}

fn gen_bool(ctx: &mut Context, rng: &mut Rng, g: &Gen, depth: u32, stats: &mut Stats) -> ExprRef {
    if depth == 0 || rng.chance(1, 6) {
        return if rng.chance(1, 12) {
            stats.bump("guard_nodes", "lit");
            if rng.chance(1, 2) { ctx.get_true() } else { ctx.get_false() }
        } else {
            stats.bump("guard_nodes", "terminal");
            *rng.pick(&g.terminals)
        };
    }
    let d = depth - 1;
    match rng.below(5) {
        0 => {
            stats.bump("guard_nodes", "not");
            let a = gen_bool(ctx, rng, g, d, stats);
            ctx.not(a)
        }
        k => {
            let a = gen_bool(ctx, rng, g, d, stats);
            let b = gen_bool(ctx, rng, g, d, stats);
            match k {
                1 => {
                    stats.bump("guard_nodes", "and");
                    ctx.and(a, b)
                }
                2 => {
                    stats.bump("guard_nodes", "or");
                    ctx.or(a, b)
                }
                3 => {
                    stats.bump("guard_nodes", "xor");
                    ctx.xor(a, b)
                }
                _ => {
                    stats.bump("guard_nodes", "implies");
                    ctx.implies(a, b)
                }
            }
        }
    }
}

/// a terminal that is not a plain 1-bit symbol
fn odd_terminal(ctx: &mut Context, rng: &mut Rng, bools: &[ExprRef], stats: &mut Stats) -> ExprRef {
    let a8 = ctx.bv_symbol("a8", 8);
    let b8 = ctx.bv_symbol("b8", 8);
    let x = *rng.pick(bools);
    let y = *rng.pick(bools);
    let z = *rng.pick(bools);
    match rng.below(8) {
        0 => {
            stats.bump("odd_terminal", "ugt8");
            ctx.greater(a8, b8)
        }
        1 => {
            stats.bump("odd_terminal", "eq8");
            ctx.equal(a8, b8)
        }
        2 => {
            stats.bump("odd_terminal", "slice8");
            ctx.slice(a8, 3, 3)
        }
        3 => {
            stats.bump("odd_terminal", "ite1");
            ctx.ite(x, y, z)
        }
        4 => {
            stats.bump("odd_terminal", "eq1");
            ctx.equal(x, y)
        }
        5 => {
            stats.bump("odd_terminal", "ugt1");
            ctx.greater(x, y)
        }
        6 => {
            stats.bump("odd_terminal", "add1");
            ctx.add(x, y)
        }
        _ => {
            stats.bump("odd_terminal", "ite1-of-ugt8");
            let c = ctx.greater(a8, b8);
            ctx.ite(x, c, z)
        }
    }
}

fn gen_and_run(rng: &mut Rng, stats: &mut Stats, args: &Args) -> Runner {
    let mut ctx = Context::default();
    let max_terms = args.get_u64("max-terms", 6);
    let nterm = 1 + rng.below(max_terms) as usize;
    let mut terminals: Vec<ExprRef> = (0..nterm).map(|i| ctx.bv_symbol(&format!("t{i}"), 1)).collect();
    let odd_den = args.get_u64("odd-den", 10);
    if odd_den > 0 && rng.chance(1, odd_den) {
        let bools = terminals.clone();
        let o = odd_terminal(&mut ctx, rng, &bools, stats);
        let k = rng.below(nterm as u64) as usize;
        terminals[k] = o;
        stats.inc("cases_with_odd_terminal");
    }
    let nvals = 2 + rng.below(3) as usize;
    let mut vals8: Vec<ExprRef> = (0..nvals).map(|i| ctx.bv_symbol(&format!("v{i}"), 8)).collect();
    let lit = ctx.bv_lit(&BitVecValue::from_u64(rng.below(256), 8));
    vals8.push(lit);
    let g = Gen { terminals, vals8 };
    stats.bump("terminals_declared", &format!("{nterm}"));
    let mut r = Runner::new(ctx);
    let nsteps = 4 + rng.below(args.get_u64("max-steps", 16));
    let mut executed = 0;
    while executed < nsteps && !r.dead {
        let step = pick_step(&mut r, rng, &g, stats, args);
        let name = match &step {
            Step::New(_) => "new",
            Step::Bin(..) => "bin",
            Step::Ite(..) => "ite",
            Step::Coalesce(_) => "coalesce",
            Step::Import(_) => "import",
            Step::Guard(_) => "guard",
        };
        stats.bump("steps", name);
        if let Step::Bin(op, _, _) = &step {
            stats.bump("bin_ops", op);
        }
        r.exec(step);
        executed += 1;
    }
    r
}

fn pick_step(r: &mut Runner, rng: &mut Rng, g: &Gen, stats: &mut Stats, args: &Args) -> Step {
    let n = r.sums.len();
    let bools: Vec<usize> = (0..n).filter(|i| r.widths[*i] == 1).collect();
    let usable: Vec<usize> = (0..n).filter(|i| !r.big[*i] && r.widths[*i] != 0).collect();
    // opening: a few conditions and a few values, so that later steps have something to combine
    if n < 2 || (n < 5 && rng.chance(1, 2)) {
        return if n % 2 == 0 {
            let d = 1 + rng.below(4) as u32;
            let e = gen_bool(&mut r.ctx, rng, g, d, stats);
            Step::New(e)
        } else {
            Step::New(*rng.pick(&g.vals8))
        };
    }
    // prefer operands with many entries
    let pick_rich = |rng: &mut Rng, cands: &[usize], r: &Runner| -> usize {
        let mut best = *rng.pick(cands);
        for _ in 0..2 {
            let c = *rng.pick(cands);
            if r.sums[c].len() > r.sums[best].len() && rng.chance(2, 3) {
                best = c;
            }
        }
        best
    };
    for _attempt in 0..50 {
        match rng.below(20) {
            0..=1 => {
                return if rng.chance(1, 2) {
                    let d = 1 + rng.below(4) as u32;
                    let e = gen_bool(&mut r.ctx, rng, g, d, stats);
                    Step::New(e)
                } else {
                    Step::New(*rng.pick(&g.vals8))
                };
            }
            2..=8 => {
                // ite: condition a boolean summary, branches of equal width
                if bools.is_empty() || usable.is_empty() {
                    continue;
                }
                let c = if rng.chance(1, 60) { *rng.pick(&usable) } else { pick_rich(rng, &bools, r) };
                let t = pick_rich(rng, &usable, r);
                let cands: Vec<usize> = usable.iter().copied().filter(|f| r.widths[*f] == r.widths[t]).collect();
                let f = pick_rich(rng, &cands, r);
                if r.sums[t].len() + r.sums[f].len() > 40 {
                    continue;
                }
                return Step::Ite(c, t, f);
            }
            9..=13 => {
                if usable.is_empty() {
                    continue;
                }
                let a = pick_rich(rng, &usable, r);
                let (name, _, kind) = *rng.pick(OPS);
                let b = if kind >= 2 {
                    pick_rich(rng, &usable, r)
                } else {
                    let cands: Vec<usize> = usable.iter().copied().filter(|f| r.widths[*f] == r.widths[a]).collect();
                    pick_rich(rng, &cands, r)
                };
                if name == "implies" && r.widths[a] != 1 {
                    continue;
                }
                // arithmetic/comparison of booleans gives boolean values that are not connectives:
                // legal, but as conditions they hit the debug assertion of expr_to_guard; keep them rare
                if r.widths[a] == 1 && matches!(name, "eq" | "ugt" | "add" | "sub") && !rng.chance(1, 8) {
                    continue;
                }
                if r.sums[a].len() * r.sums[b].len() > 64 {
                    continue;
                }
                return Step::Bin(name, a, b);
            }
            14..=16 => {
                let all: Vec<usize> = (0..n).collect();
                return Step::Coalesce(pick_rich(rng, &all, r));
            }
            17..=18 => {
                if bools.is_empty() {
                    if rng.chance(1, 30) {
                        return Step::Import(rng.below(n as u64) as usize);
                    }
                    continue;
                }
                if rng.chance(1, 60) {
                    return Step::Import(rng.below(n as u64) as usize);
                }
                return Step::Import(pick_rich(rng, &bools, r));
            }
            _ => {
                let d = rng.below(5) as u32;
                let e = if rng.chance(1, 40) { *rng.pick(&g.vals8) } else { gen_bool(&mut r.ctx, rng, g, d, stats) };
                return Step::Guard(e);
            }
        }
    }
    Step::New(*rng.pick(&g.vals8))
}

// ------------------------------------------------------------------------------------ replay

fn replay_case(c: &Sexp) -> (Runner, String) {
    let id = c.list()[1].atom().to_string();
    let mut r = Runner::new(Context::default());
    for st in c.field("steps").unwrap_or(&[]) {
        if r.dead {
            break;
        }
        let l = st.list();
        let ix = |k: usize| l[k].num() as usize;
        let step = match l[0].atom() {
            "new" => Step::New(build_expr(&mut r.ctx, &l[1])),
            "guard" => Step::Guard(build_expr(&mut r.ctx, &l[1])),
            "bin" => Step::Bin(find_op(l[1].atom()).0, ix(2), ix(3)),
            "ite" => Step::Ite(ix(1), ix(2), ix(3)),
            "coalesce" => Step::Coalesce(ix(1)),
            "import" => Step::Import(ix(1)),
            other => panic!("unknown step {other}"),
        };
        r.exec(step);
    }
    (r, id)
}

pub fn run(args: &Args) {
    if std::env::var("C20_DEBUG").is_ok() {
        // print panics (the shared hook only records them)
        std::panic::set_hook(Box::new(|info| eprintln!("panic: {info}")));
    }
    let mut rng = Rng::new(args.seed);
    let mut out = std::io::BufWriter::new(std::fs::File::create(&args.out).expect("out file"));
    let mut stats = Stats::default();
    let mut distinct = std::collections::HashSet::new();
    let debug = cfg!(debug_assertions);
    stats.bump("profile", if debug { "debug-assertions" } else { "release" });
    let mut emit = |line: String, stats: &mut Stats, r: &Runner| {
        distinct.insert(line[line.find("(steps").unwrap_or(0)..].to_string());
        stats.sample(&line, 3);
        stats.inc("cases");
        if r.final_terms.is_some() {
            stats.inc("cases_cut_at_terminal_limit");
        } else if r.dead {
            stats.inc("impl_panics");
            stats.bump("panic_loc", &r.panic_loc);
        }
        stats.bump("terminals_in_bdd", &format!("{}", r.final_terms.as_ref().map(|t| t.len()).unwrap_or_else(|| r.gc.verif_terminals().len())));
        stats.bump("steps_per_case", &format!("{}", r.steps.len()));
        writeln!(out, "{line}").unwrap();
    };
    if let Some(path) = args.get("cases-in") {
        for c in read_cases(path).iter() {
            let (r, id) = replay_case(c);
            let line = r.dump(&id, debug, &mut stats);
            emit(line, &mut stats, &r);
        }
    }
    for id in 0..args.count {
        let mut rr = rng.fork();
        let r = gen_and_run(&mut rr, &mut stats, args);
        let line = r.dump(&format!("{id}"), debug, &mut stats);
        emit(line, &mut stats, &r);
    }
    drop(emit);
    stats.add("distinct_cases", distinct.len() as u64);
    stats.write(&args.out);
}
