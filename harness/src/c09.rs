//! C09: writing a system as btor2 and reading it back preserves it.
//! One case per line:
//!   (case ID (profile P) (origin "..") (vseed N) (sys0 (nodes ..) (sys ..)) (ser1 ok|(err "msg")|(panic "loc"))
//!         (sys1 R) (names1 N) (ser2 ..) (names2 N|none) (fix same|differs|na))
//!   R = (ok (nodes ..) (sys ..)) | (err) | (panic "loc" "msg") | none;   N = ((inputs "a" ..) (states ..) (outputs ..))
//! sys0 is the system handed to the real writer, sys1 what the real reader returns for the written text,
//! names2 the names after a second write/read cycle, fix whether the second text equals the third.
use crate::c08::btorgen::*;
use crate::dump::quote;
use crate::rng::Rng;
use crate::sexp::{Sexp, read_cases};
use crate::sysgen::*;
use crate::util::*;
use patronus::expr::*;
use patronus::system::*;
use std::io::Write;

enum Ser {
    Ok(String),
    Err(String),
    Panic(String),
}

fn ser(ctx: &Context, sys: &TransitionSystem) -> Ser {
    let r = guarded(|| {
        let mut buf: Vec<u8> = vec![];
        patronus::btor2::serialize(ctx, &mut buf, sys).map(|_| String::from_utf8(buf).expect("utf8"))
    });
    match r {
        Ok(Ok(t)) => Ser::Ok(t),
        Ok(Err(e)) => Ser::Err(format!("{e}")),
        Err(_) => Ser::Panic(last_panic_loc()),
    }
}

fn ser_field(s: &Ser) -> String {
    match s {
        Ser::Ok(_) => "ok".to_string(),
        Ser::Err(m) => format!("(err {})", quote(m)),
        Ser::Panic(l) => format!("(panic {})", quote(l)),
    }
}

fn names_field(ctx: &Context, sys: &TransitionSystem) -> String {
    let n = |e: ExprRef| quote(ctx.get_symbol_name(e).unwrap_or("?"));
    format!(
        "((inputs {}) (states {}) (outputs {}))",
        sys.inputs.iter().map(|i| n(*i)).collect::<Vec<_>>().join(" "),
        sys.states.iter().map(|s| n(s.symbol)).collect::<Vec<_>>().join(" "),
        sys.outputs.iter().map(|o| quote(&ctx[o.name])).collect::<Vec<_>>().join(" ")
    )
}

/// everything after the system has been built: write, read, write, read, write
fn run_case(id: &str, origin: &str, vseed: u64, ctx: &mut Context, sys0: &TransitionSystem, stats: &mut Stats) -> String {
    let prof = profile_name();
    let d0 = dump_sys_dag(ctx, sys0);
    stats.bump("sys0_nodes", &crate::c18::bucket(d0.n_nodes as u64));
    let s1 = ser(ctx, sys0);
    let mut line = format!("(case {id} (profile {prof}) (origin {}) (vseed {vseed}) (sys0 {} {}) (ser1 {})", quote(origin), d0.text, d0.signames, ser_field(&s1));
    match &s1 {
        Ser::Ok(text1) => {
            stats.bump("ser1", "ok");
            // read back into the same context
            let r1 = guarded(|| patronus::btor2::parse_str(ctx, text1, Some("t")));
            match r1 {
                Ok(Some(sys1)) => {
                    let d1 = dump_sys_dag(ctx, &sys1);
                    line.push_str(&format!(" (sys1 (ok {} {})) (names1 {})", d1.text, d1.signames, names_field(ctx, &sys1)));
                    let s2 = ser(ctx, &sys1);
                    line.push_str(&format!(" (ser2 {})", ser_field(&s2)));
                    if let Ser::Ok(text2) = &s2 {
                        line.push_str(&format!(" (text2 {})", quote(text2)));
                        let r2 = guarded(|| patronus::btor2::parse_str(ctx, text2, Some("t")));
                        if let Ok(Some(sys2)) = r2 {
                            line.push_str(&format!(" (names2 {})", names_field(ctx, &sys2)));
                            let fix = match ser(ctx, &sys2) {
                                Ser::Ok(text3) => {
                                    if &text3 == text2 {
                                        "same"
                                    } else {
                                        "differs"
                                    }
                                }
                                _ => "na",
                            };
                            line.push_str(&format!(" (fix {fix})"));
                            stats.bump("text_fixpoint", fix);
                        } else {
                            line.push_str(" (names2 none) (fix na)");
                        }
                    } else {
                        line.push_str(" (names2 none) (fix na)");
                    }
                }
                Ok(None) => line.push_str(" (sys1 (err)) (names1 none) (ser2 none) (names2 none) (fix na)"),
                Err(m) => line.push_str(&format!(" (sys1 (panic {} {})) (names1 none) (ser2 none) (names2 none) (fix na)", quote(&last_panic_loc()), quote(&m.chars().take(100).collect::<String>()))),
            }
            line.push_str(&format!(" (text1 {})", quote(text1)));
        }
        Ser::Err(_) => {
            stats.bump("ser1", "err");
            line.push_str(" (sys1 none) (names1 none) (ser2 none) (names2 none) (fix na)");
        }
        Ser::Panic(_) => {
            stats.bump("ser1", "panic");
            line.push_str(" (sys1 none) (names1 none) (ser2 none) (names2 none) (fix na)");
        }
    }
    line.push(')');
    line
}

/// names on intermediate expressions, labels that alias states, anonymous signals
fn decorate(ctx: &mut Context, rng: &mut Rng, sys: &mut TransitionSystem, stats: &mut Stats) {
    // an output / bad that refers to a state or input symbol directly, under the same or another name
    if rng.chance(1, 2) && !sys.states.is_empty() {
        let st = sys.states[rng.below(sys.states.len() as u64) as usize].symbol;
        let own = ctx.get_symbol_name(st).unwrap().to_string();
        let name = match rng.below(3) {
            0 => own,
            1 => "alias".to_string(),
            _ => "_output".to_string(),
        };
        sys.add_output(ctx, name.into(), st);
        stats.inc("decor_output_aliases_state");
    }
    if rng.chance(1, 4) {
        if let Some(st) = sys.states.iter().map(|s| s.symbol).find(|s| s.get_bv_type(ctx) == Some(1)) {
            sys.bad_states.push(st);
            stats.inc("decor_bad_is_state");
        }
    }
    // debug names on a few root expressions (named signals)
    let roots: Vec<ExprRef> = sys.outputs.iter().map(|o| o.expr).chain(sys.bad_states.iter().copied()).chain(sys.states.iter().filter_map(|s| s.next)).collect();
    for (k, e) in roots.iter().enumerate() {
        if rng.chance(1, 3) && !ctx[*e].is_symbol() {
            let nm = match rng.below(4) {
                0 => format!("sig{k}"),
                1 => "o0".to_string(),
                2 => format!("$flat${k}"),
                _ => "dup".to_string(),
            };
            let r = ctx.string(nm.into());
            sys.names[*e] = Some(r);
            stats.inc("decor_named_signal");
        }
    }
    // an output with an array expression / a constant-array init somewhere else than at the top
    if rng.chance(1, 25) {
        if let Some(arr) = sys.states.iter().map(|s| s.symbol).find(|s| s.get_type(ctx).is_array()) {
            let t = arr.get_array_type(ctx).unwrap();
            let z = ctx.zero(t.data_width);
            let c = ctx.array_const(z, t.index_width);
            let e = ctx.equal(arr, c);
            sys.bad_states.push(e);
            stats.inc("decor_array_constant_inside");
        }
    }
}

pub fn run(args: &Args) {
    silence_stderr();
    let mut rng = Rng::new(args.seed);
    let mut out = std::io::BufWriter::new(std::fs::File::create(&args.out).expect("out file"));
    let mut stats = Stats::default();
    let mut distinct = std::collections::HashSet::new();
    if let Some(path) = args.get("cases-in") {
        for c in read_cases(path).iter() {
            let id = c.list()[1].atom().to_string();
            let origin = c.field("origin").map(|f| f[0].atom().to_string()).unwrap_or_default();
            let vseed = c.field("vseed").map(|f| f[0].num()).unwrap_or(1);
            let mut ctx = Context::default();
            // replay: rebuild sys0 from its DAG dump
            let f = c.field("sys0").expect("sys0");
            let sys0 = build_sys_from_dag(&mut ctx, f);
            let line = run_case(&id, &origin, vseed, &mut ctx, &sys0, &mut stats);
            distinct.insert(line.clone());
            writeln!(out, "{line}").unwrap();
        }
    }
    let files = shipped_files();
    if args.get("files") == Some("all") {
        for (k, (name, text)) in files.iter().enumerate() {
            let mut ctx = Context::default();
            let r = guarded(|| patronus::btor2::parse_str(&mut ctx, text, Some("t")));
            if let Ok(Some(sys0)) = r {
                let line = run_case(&format!("f{k}"), &format!("file:{name}"), 7 + k as u64, &mut ctx, &sys0, &mut stats);
                stats.bump("origin", "file");
                distinct.insert(text.clone());
                writeln!(out, "{line}").unwrap();
            } else {
                stats.inc("file_not_parsed");
            }
        }
    }
    for id in 0..args.count {
        let mut r = rng.fork();
        let mut ctx = Context::default();
        let kind = r.below(100);
        let vseed = r.next_u64() % 1000000;
        let (sys0, origin): (TransitionSystem, String) = if kind < 50 {
            let mut cfg = SysCfg::default();
            cfg.widths = match r.below(3) {
                0 => vec![1, 1, 2, 3, 4],
                1 => vec![1, 2, 8, 16, 31, 32, 33],
                _ => vec![1, 7, 63, 64, 65, 127, 128, 129],
            };
            cfg.div_rem = r.chance(1, 3);
            cfg.arrays_in_exprs = r.chance(2, 5);
            cfg.max_bv_states = 4;
            cfg.max_outputs = 3;
            let mut s = gen_sys(&mut ctx, &mut r, &cfg);
            decorate(&mut ctx, &mut r, &mut s, &mut stats);
            (s, "gen_sys".to_string())
        } else {
            // a parsed system: grammar-generated text (anonymous and named signals, $-names, duplicate names)
            let mut bcfg = BtorGenCfg::default();
            bcfg.safe_init = true;
            bcfg.shuffle = false;
            let mut g = BtorGen::new(&mut r, bcfg);
            g.gen_file();
            let text = g.lines.join("\n");
            let p = guarded(|| patronus::btor2::parse_str(&mut ctx, &text, Some("t")));
            match p {
                Ok(Some(s)) => (s, "parsed-generated".to_string()),
                _ => {
                    stats.inc("generated_text_not_parsed");
                    continue;
                }
            }
        };
        stats.bump("origin", &origin);
        stats.bump("n_states", &format!("{}", sys0.states.len()));
        if sys0.states.iter().any(|s| s.init.is_none() && s.next.is_none()) {
            stats.inc("has_plain_state");
        }
        let line = run_case(&format!("{id}"), &origin, vseed, &mut ctx, &sys0, &mut stats);
        let key = line[line.find("(sys0").unwrap_or(0)..].to_string();
        distinct.insert(key);
        stats.sample(&line, 2);
        writeln!(out, "{line}").unwrap();
    }
    stats.add("distinct_cases", distinct.len() as u64);
    stats.write(&args.out);
}

/// rebuild a system from the DAG dump `(nodes ..) (sys ..)` (replay)
fn build_sys_from_dag(ctx: &mut Context, f: &[Sexp]) -> TransitionSystem {
    let nodes = f[0].list();
    assert_eq!(nodes[0].atom(), "nodes");
    let mut refs: Vec<ExprRef> = vec![];
    for n in nodes[1..].iter() {
        let l = n.list();
        let tag = l[0].atom();
        let w = |i: usize| l[i].num() as WidthInt;
        let c = |i: usize| refs[l[i].num() as usize];
        let e = match tag {
            "sym" => ctx.bv_symbol(l[1].atom(), w(2)),
            "asym" => ctx.array_symbol(l[1].atom(), w(2), w(3)),
            "lit" => {
                let v = l[2].bits();
                ctx.bv_lit(&v)
            }
            "zext" => ctx.zero_extend(c(1), w(2)),
            "sext" => ctx.sign_extend(c(1), w(2)),
            "slice" => ctx.slice(c(1), w(2), w(3)),
            "not" => ctx.not(c(1)),
            "neg" => ctx.negate(c(1)),
            "aconst" => ctx.array_const(c(1), w(2)),
            "eq" | "aeq" => ctx.equal(c(1), c(2)),
            "implies" => ctx.implies(c(1), c(2)),
            "ugt" => ctx.greater(c(1), c(2)),
            "sgt" => ctx.greater_signed(c(1), c(2)),
            "uge" => ctx.greater_or_equal(c(1), c(2)),
            "sge" => ctx.greater_or_equal_signed(c(1), c(2)),
            "concat" => ctx.concat(c(1), c(2)),
            "and" => ctx.and(c(1), c(2)),
            "or" => ctx.or(c(1), c(2)),
            "xor" => ctx.xor(c(1), c(2)),
            "shl" => ctx.shift_left(c(1), c(2)),
            "ashr" => ctx.arithmetic_shift_right(c(1), c(2)),
            "lshr" => ctx.shift_right(c(1), c(2)),
            "add" => ctx.add(c(1), c(2)),
            "mul" => ctx.mul(c(1), c(2)),
            "sdiv" => ctx.signed_div(c(1), c(2)),
            "udiv" => ctx.div(c(1), c(2)),
            "smod" => ctx.signed_mod(c(1), c(2)),
            "srem" => ctx.signed_remainder(c(1), c(2)),
            "urem" => ctx.remainder(c(1), c(2)),
            "sub" => ctx.sub(c(1), c(2)),
            "read" => ctx.array_read(c(1), c(2)),
            "ite" | "aite" => ctx.ite(c(1), c(2), c(3)),
            "store" => ctx.array_store(c(1), c(2), c(3)),
            other => panic!("unknown node tag {other}"),
        };
        refs.push(e);
    }
    let sx = &f[1];
    let g = |x: &Sexp| refs[x.num() as usize];
    let mut sys = TransitionSystem::new("replay".to_string());
    for i in sx.field("inputs").unwrap_or(&[]) {
        sys.add_input(ctx, g(i));
    }
    for st in sx.field("states").unwrap_or(&[]) {
        let symbol = g(&st.list()[1]);
        let init = st.field("init").map(|f| g(&f[0]));
        let next = st.field("next").map(|f| g(&f[0]));
        sys.add_state(ctx, State { symbol, init, next });
    }
    for o in sx.field("outputs").unwrap_or(&[]) {
        let l = o.list();
        sys.add_output(ctx, l[0].atom().to_string().into(), g(&l[1]));
    }
    for b in sx.field("bads").unwrap_or(&[]) {
        sys.bad_states.push(g(b));
    }
    for c in sx.field("constraints").unwrap_or(&[]) {
        sys.constraints.push(g(c));
    }
    // debug names of intermediate nodes
    if let Some(sn) = f.get(2) {
        for it in sn.list().iter().skip(1) {
            let l = it.list();
            let e = refs[l[0].num() as usize];
            let r = ctx.string(l[1].atom().to_string().into());
            sys.names[e] = Some(r);
        }
    }
    sys
}
