//! C06: concrete evaluation (patronus::expr::eval).  One case per line:
//! (case ID (expr E) (bvenv ..) (arrenv ..) (cut (E bits)..) (provider k) (indices ..) (impl R) (panicmsg ".."))
use crate::dump::*;
use crate::exprgen::*;
use crate::rng::Rng;
use crate::sexp::{Sexp, build_expr, read_cases};
use crate::util::*;
use baa::{ArrayMutOps, ArrayOps, ArrayValue, BitVecOps, BitVecValue, Value};
use patronus::expr::*;
use rustc_hash::FxHashMap;
use std::io::Write;

struct ArrEnv {
    sym: ExprRef,
    dense: bool,
    default: BitVecValue,
    entries: Vec<(BitVecValue, BitVecValue)>,
}

struct Case {
    ctx: Context,
    root: ExprRef,
    bvs: Vec<(ExprRef, BitVecValue)>,
    arrs: Vec<ArrEnv>,
    cuts: Vec<(ExprRef, BitVecValue)>,
    /// values supplied for inner ARRAY-typed expressions that are not symbols (store / ite / constant array nodes)
    acuts: Vec<ArrEnv>,
    provider: u64,
    /// define every symbol with a scratch value first, then update it to the real one (SymbolValueStore::update*)
    updates: bool,
    extra_indices: Vec<BitVecValue>,
}

pub fn run(args: &Args) {
    let mut rng = Rng::new(args.seed);
    let mut out = std::io::BufWriter::new(std::fs::File::create(&args.out).expect("out file"));
    let mut stats = Stats::default();
    let mut distinct = std::collections::HashSet::new();
    if let Some(path) = args.get("cases-in") {
        for (k, c) in read_cases(path).iter().enumerate() {
            let case = parse_case(c);
            let id = c.list()[1].atom().to_string();
            let line = run_case(&id, case, &mut rng.fork(), &mut stats);
            distinct.insert(line.clone());
            stats.sample(&line, 3);
            writeln!(out, "{line}").unwrap();
            let _ = k;
        }
    }
    for id in 0..args.count {
        let mut r = rng.fork();
        let case = gen_case(&mut r, &mut stats, args);
        let line = run_case(&format!("{id}"), case, &mut r, &mut stats);
        // distinct = distinct (expression, assignment) pairs; the id is not part of the key
        distinct.insert(line[line.find("(expr").unwrap_or(0)..].to_string());
        stats.sample(&line, 3);
        writeln!(out, "{line}").unwrap();
    }
    stats.add("distinct_cases", distinct.len() as u64);
    stats.write(&args.out);
}

fn random_array(rng: &mut Rng, sym: ExprRef, iw: WidthInt, dw: WidthInt) -> ArrEnv {
    let default = lit_value(rng, dw);
    let dense = iw <= 8 && rng.chance(1, 2);
    let n = rng.below(5);
    let entries = (0..n).map(|_| (lit_value(rng, iw), lit_value(rng, dw))).collect();
    ArrEnv { sym, dense, default, entries }
}

fn gen_case(rng: &mut Rng, stats: &mut Stats, args: &Args) -> Case {
    let mut ctx = Context::default();
    let mut cfg = GenCfg::default();
    cfg.max_depth = 1 + rng.below(4) as u32;
    // a small stream with the unimplemented division family (outside the property's domain:
    // compared as "both panic")
    cfg.div_rem = rng.chance(1, 40);
    if let Some(w) = args.get("widths") {
        cfg.widths = w.split(',').map(|x| x.parse().unwrap()).collect();
    }
    let want_array = rng.chance(1, 5);
    let (root, ops) = {
        let depth = cfg.max_depth;
        let mut g = ExprGen::new(&mut ctx, rng, cfg.clone());
        let root = if want_array {
            let iw = g.rng.range(1, 6) as WidthInt;
            let dw = g.pick_width();
            g.gen_array(iw, dw, depth)
        } else {
            let w = g.pick_width();
            g.gen_bv(w, depth)
        };
        (root, g.ops.clone())
    };
    for (k, v) in ops.iter() {
        stats.bump_n("ops", k, *v);
    }
    let syms = collect_symbols(&ctx, root);
    let unbound = if !syms.is_empty() && rng.chance(1, 50) { Some(*rng.pick(&syms)) } else { None };
    let mut bvs = vec![];
    let mut arrs = vec![];
    let mut has_array_sym = false;
    for s in syms.iter() {
        if matches!(s.get_type(&ctx), Type::Array(_)) {
            has_array_sym = true;
        }
        if Some(*s) == unbound {
            stats.inc("unbound_symbol_cases");
            continue;
        }
        match s.get_type(&ctx) {
            Type::BV(w) => bvs.push((*s, lit_value(rng, w))),
            Type::Array(t) => arrs.push(random_array(rng, *s, t.index_width, t.data_width)),
        }
    }
    // optional cut: a value for an inner bit-vector expression
    let mut cuts = vec![];
    let nodes = collect_nodes(&ctx, root);
    if nodes.len() > 1 && rng.chance(1, 6) {
        let inner: Vec<ExprRef> = nodes
            .iter()
            .copied()
            .filter(|n| *n != root && !ctx[*n].is_symbol() && n.get_bv_type(&ctx).is_some() && !matches!(ctx[*n], Expr::BVLiteral(_)))
            .collect();
        if !inner.is_empty() {
            let n = *rng.pick(&inner);
            let w = n.get_bv_type(&ctx).unwrap();
            cuts.push((n, lit_value(rng, w)));
            stats.inc("cut_cases");
        }
    }
    // optional cut on an inner ARRAY-typed node that is not a symbol (only SymbolValueStore can carry array values)
    let mut acuts = vec![];
    if nodes.len() > 1 && rng.chance(1, 5) {
        let inner: Vec<ExprRef> = nodes
            .iter()
            .copied()
            .filter(|n| *n != root && !ctx[*n].is_symbol() && n.get_array_type(&ctx).is_some())
            .collect();
        if !inner.is_empty() {
            let n = *rng.pick(&inner);
            let t = n.get_array_type(&ctx).unwrap();
            acuts.push(random_array(rng, n, t.index_width, t.data_width));
            stats.inc("array_cut_cases");
        }
    }
    let provider = if has_array_sym || !acuts.is_empty() { 0 } else { rng.below(3) };
    let updates = rng.chance(1, 2);
    Case { ctx, root, bvs, arrs, cuts, acuts, provider, updates, extra_indices: vec![] }
}

fn parse_case(c: &Sexp) -> Case {
    let mut ctx = Context::default();
    let root = build_expr(&mut ctx, &c.field("expr").unwrap()[0]);
    let mut bvs = vec![];
    for e in c.field("bvenv").unwrap_or(&[]) {
        let l = e.list();
        let s = ctx.bv_symbol(l[0].atom(), l[1].num() as WidthInt);
        bvs.push((s, l[2].bits()));
    }
    let mut arrs = vec![];
    for e in c.field("arrenv").unwrap_or(&[]) {
        let l = e.list();
        let sym = ctx.array_symbol(l[0].atom(), l[1].num() as WidthInt, l[2].num() as WidthInt);
        let (dense, rest) = if l[3].atom() == "dense" { (true, &l[4..]) } else if l[3].atom() == "sparse" { (false, &l[4..]) } else { (false, &l[3..]) };
        let default = rest[0].bits();
        let entries = rest[1..].iter().map(|p| (p.list()[0].bits(), p.list()[1].bits())).collect();
        arrs.push(ArrEnv { sym, dense, default, entries });
    }
    let mut cuts = vec![];
    for e in c.field("cut").unwrap_or(&[]) {
        let l = e.list();
        let n = build_expr(&mut ctx, &l[0]);
        cuts.push((n, l[1].bits()));
    }
    let mut acuts = vec![];
    for e in c.field("acut").unwrap_or(&[]) {
        let l = e.list();
        let n = build_expr(&mut ctx, &l[0]);
        let dense = l[3].atom() == "dense";
        let default = l[4].bits();
        let entries = l[5..].iter().map(|p| (p.list()[0].bits(), p.list()[1].bits())).collect();
        acuts.push(ArrEnv { sym: n, dense, default, entries });
    }
    let provider = c.field("provider").map(|p| p[0].num()).unwrap_or(0);
    let updates = c.field("updates").map(|p| p[0].num() == 1).unwrap_or(false);
    let extra_indices = c.field("indices").unwrap_or(&[]).iter().map(|i| i.bits()).collect();
    Case { ctx, root, bvs, arrs, cuts, acuts, provider, updates, extra_indices }
}

fn run_case(id: &str, case: Case, rng: &mut Rng, stats: &mut Stats) -> String {
    let Case { mut ctx, root, bvs, arrs, cuts, acuts, provider, updates, extra_indices } = case;
    let root_ty = root.get_type(&ctx);
    match root_ty {
        Type::BV(w) => stats.bump("root_width", &format!("{w}")),
        Type::Array(a) => stats.bump("root_width", &format!("arr{}x{}", a.index_width, a.data_width)),
    }
    let mut store = SymbolValueStore::default();
    let mut bv_pairs: Vec<(ExprRef, BitVecValue)> = vec![];
    let mut bvenv = String::new();
    let mut arrenv = String::new();
    for (s, v) in bvs.iter() {
        let name = ctx.get_symbol_name(*s).unwrap().to_string();
        bvenv.push_str(&format!(" ({} {} {})", quote(&name), v.width(), bv_tok(v)));
        if updates {
            // scratch value first (all ones / random), then the real value through update_bv or update(Value)
            let scratch = if rng.chance(1, 2) { BitVecValue::ones(v.width()) } else { lit_value(rng, v.width()) };
            store.define_bv(*s, &scratch);
            if rng.chance(1, 2) { store.update_bv(*s, v) } else { store.update(*s, Value::BitVec(v.clone())) }
        } else {
            store.define_bv(*s, v);
        }
        bv_pairs.push((*s, v.clone()));
    }
    for a in arrs.iter() {
        let t = a.sym.get_array_type(&ctx).unwrap();
        let name = ctx.get_symbol_name(a.sym).unwrap().to_string();
        let mut val = if a.dense { ArrayValue::new_dense(t.index_width, &a.default) } else { ArrayValue::new_sparse(t.index_width, &a.default) };
        let mut txt = format!("{} {} {} {}", t.index_width, t.data_width, if a.dense { "dense" } else { "sparse" }, bv_tok(&a.default));
        for (i, v) in a.entries.iter() {
            val.store(i, v);
            txt.push_str(&format!(" ({} {})", bv_tok(i), bv_tok(v)));
        }
        arrenv.push_str(&format!(" ({} {})", quote(&name), txt));
        if updates {
            let scratch = ArrayValue::new_sparse(t.index_width, &BitVecValue::ones(t.data_width));
            store.define_array(a.sym, scratch);
            if rng.chance(1, 2) { store.update_array(a.sym, val) } else { store.update(a.sym, Value::Array(val)) }
        } else {
            store.define_array(a.sym, val);
        }
    }
    let mut cut = String::new();
    for (n, v) in cuts.iter() {
        cut.push_str(&format!(" ({} {})", dump_expr(&ctx, *n), bv_tok(v)));
        store.define_bv(*n, v);
        bv_pairs.push((*n, v.clone()));
    }
    let mut acut = String::new();
    for a in acuts.iter() {
        let t = a.sym.get_array_type(&ctx).unwrap();
        let mut val = if a.dense { ArrayValue::new_dense(t.index_width, &a.default) } else { ArrayValue::new_sparse(t.index_width, &a.default) };
        let mut txt = format!("{} {} {} {} {}", dump_expr(&ctx, a.sym), t.index_width, t.data_width, if a.dense { "dense" } else { "sparse" }, bv_tok(&a.default));
        for (i, v) in a.entries.iter() {
            val.store(i, v);
            txt.push_str(&format!(" ({} {})", bv_tok(i), bv_tok(v)));
        }
        acut.push_str(&format!(" ({txt})"));
        store.define_array(a.sym, val);
    }
    // literal values appearing in the expression are interesting array indices
    let mut index_pool: Vec<BitVecValue> = vec![];
    for n in collect_nodes(&ctx, root).iter() {
        if let Expr::BVLiteral(v) = &ctx[*n] {
            index_pool.push(v.get(&ctx).into());
        }
    }
    stats.bump("provider", ["SymbolValueStore", "FxHashMap", "slice"][provider as usize]);
    stats.bump("store_updates", if updates { "define-then-update" } else { "define-only" });

    // run the implementation
    let res: Result<Value, String> = guarded(|| match provider {
        0 => eval_expr(&ctx, &store, root),
        1 => {
            let m: FxHashMap<ExprRef, BitVecValue> = bv_pairs.iter().cloned().collect();
            eval_expr(&ctx, &m, root)
        }
        _ => eval_expr(&ctx, bv_pairs.as_slice(), root),
    });
    // the typed entry points must agree with eval_expr
    let typed: Result<Value, String> = guarded(|| match root_ty {
        Type::BV(_) => Value::BitVec(eval_bv_expr(&ctx, &store, root)),
        Type::Array(_) => Value::Array(eval_array_expr(&ctx, &store, root)),
    });

    let mut indices: Vec<BitVecValue> = vec![];
    let mut panic_msg = String::new();
    let mut panic_loc = String::new();
    let impl_txt = match &res {
        Err(m) => {
            stats.inc("impl_panics");
            panic_msg = format!("{} @ {}", m, last_panic_loc());
            panic_loc = last_panic_loc();
            "(panic)".to_string()
        }
        Ok(Value::BitVec(v)) => {
            // canonical-representation check: equal to and interned as the canonical value
            let canon = bits_value(&v.to_bit_str());
            let r1 = ctx.bv_lit(v);
            let r2 = ctx.bv_lit(&canon);
            let same = r1 == r2 && v.is_equal(&canon) && canon.is_equal(v);
            let agree = matches!(&typed, Ok(Value::BitVec(t)) if t.is_equal(v) && t.width() == v.width());
            if !same {
                format!("(bv {} {} noncanonical)", v.width(), bv_tok(v))
            } else if !agree {
                format!("(bv {} {} entry-points-disagree)", v.width(), bv_tok(v))
            } else {
                format!("(bv {} {})", v.width(), bv_tok(v))
            }
        }
        Ok(Value::Array(a)) => {
            let iw = a.index_width();
            if !extra_indices.is_empty() {
                indices = extra_indices.clone();
            } else if iw <= 4 {
                for i in 0..(1u64 << iw) {
                    indices.push(BitVecValue::from_u64(i, iw));
                }
            } else {
                indices.push(BitVecValue::zero(iw));
                indices.push(BitVecValue::from_u64(1, iw));
                indices.push(BitVecValue::ones(iw));
                for _ in 0..5 {
                    indices.push(lit_value(rng, iw));
                }
                for v in index_pool.iter() {
                    if v.width() == iw {
                        indices.push(v.clone());
                    }
                }
            }
            let agree = match &typed {
                Ok(Value::Array(t)) => indices.iter().all(|i| t.select(i).is_equal(&a.select(i))),
                _ => false,
            };
            if agree { dump_array_at(a, &indices) } else { format!("(entry-points-disagree {})", dump_array_at(a, &indices)) }
        }
    };
    let idx_txt: String = indices.iter().map(|i| format!(" {}", bv_tok(i))).collect();
    stats.bump("tree_size", &format!("{}", (tree_size(&ctx, root, 400) / 10) * 10));
    format!(
        "(case {id} (expr {}) (bvenv{bvenv}) (arrenv{arrenv}) (cut{cut}) (acut{acut}) (provider {provider}) (updates {}) (indices{idx_txt}) (impl {impl_txt}) (panicloc {}) (panicmsg {}))",
        dump_expr(&ctx, root),
        if updates { 1 } else { 0 },
        quote(&panic_loc),
        quote(&panic_msg)
    )
}
