//! C18: the btor2 reader rejects bad input cleanly and only accepts well-typed systems.
//! One case per line:
//!   (case ID (profile debug|release) (origin "..") (muts "..") (text "...") (impl R))
//!   R = (ok (nodes N..) (sys ..)) | (err) | (panic "file:line" "message")
//! The expression graph is dumped with sharing (children are indices into `nodes`).
use crate::c08::btorgen::*;
use crate::dump::quote;
use crate::rng::Rng;
use crate::sexp::read_cases;
use crate::util::*;
use std::io::Write;

pub fn impl_field(text: &str, stats: &mut Stats) -> String {
    match run_parse(text) {
        ImplRes::Ok(ctx, sys) => {
            let d = dump_sys_dag(&ctx, &sys);
            stats.bump("impl_class", "ok");
            stats.bump("ok_nodes", &bucket(d.n_nodes as u64));
            format!("(ok {})", d.text)
        }
        ImplRes::Err => {
            stats.bump("impl_class", "err");
            "(err)".to_string()
        }
        ImplRes::Panic(loc, msg) => {
            stats.bump("impl_class", "panic");
            stats.bump("panic_loc", &loc);
            format!("(panic {} {})", quote(&loc), quote(&msg))
        }
    }
}

pub fn bucket(n: u64) -> String {
    match n {
        0 => "0".into(),
        1..=9 => "1-9".into(),
        10..=99 => "10-99".into(),
        100..=999 => "100-999".into(),
        1000..=9999 => "1000-9999".into(),
        _ => ">=10000".into(),
    }
}

pub fn run(args: &Args) {
    silence_stderr();
    if std::env::var("VERIF_KEEP_STDERR").is_ok() {
        // debugging aid: show panics of the harness itself
        std::panic::set_hook(Box::new(|info| eprintln!("HARNESS-PANIC {info}")));
    }
    let mut rng = Rng::new(args.seed);
    let mut out = std::io::BufWriter::new(std::fs::File::create(&args.out).expect("out file"));
    let mut stats = Stats::default();
    let mut distinct = std::collections::HashSet::new();
    let prof = profile_name();
    if let Some(path) = args.get("cases-in") {
        for c in read_cases(path).iter() {
            let id = c.list()[1].atom().to_string();
            let text = c.field("text").expect("text")[0].atom().to_string();
            let origin = c.field("origin").map(|f| f[0].atom().to_string()).unwrap_or_default();
            let muts = c.field("muts").map(|f| f[0].atom().to_string()).unwrap_or_default();
            let r = impl_field(&text, &mut stats);
            distinct.insert(text.clone());
            let line = format!("(case {id} (profile {prof}) (origin {}) (muts {}) (text {}) (impl {r}))", quote(&origin), quote(&muts), quote(&text));
            stats.sample(&line, 2);
            writeln!(out, "{line}").unwrap();
        }
    }
    let files = shipped_files();
    let max_lines = args.get_u64("max-file-lines", 400) as usize;
    let small: Vec<&(String, String)> = files.iter().filter(|(_, t)| t.lines().count() <= max_lines).collect();
    // `--files all`: every shipped file, unmutated
    if args.get("files") == Some("all") {
        for (k, (name, text)) in files.iter().enumerate() {
            let r = impl_field(text, &mut stats);
            distinct.insert(text.clone());
            stats.bump("origin", "file-unmutated");
            let line = format!("(case f{k} (profile {prof}) (origin {}) (muts \"\") (text {}) (impl {r}))", quote(name), quote(text));
            writeln!(out, "{line}").unwrap();
        }
    }
    for id in 0..args.count {
        let mut r = rng.fork();
        let kind = r.below(100);
        let (mut lines, origin): (Vec<String>, String) = if kind < 45 && !small.is_empty() {
            let (name, text) = *r.pick(&small);
            (text.lines().map(|l| l.to_string()).collect(), format!("file:{name}"))
        } else if kind < 80 {
            let mut g = BtorGen::new(&mut r, BtorGenCfg::default());
            g.gen_file();
            for o in g.ops_used.iter() {
                stats.bump("gen_ops", o);
            }
            (g.lines.clone(), "generated".to_string())
        } else {
            let (l, name) = if r.chance(1, 4) { postproc_template(&mut r) } else { edge_template(&mut r) };
            (l, format!("edge:{name}"))
        };
        let okind = origin.split(':').next().unwrap().to_string();
        if origin.starts_with("edge:") {
            stats.bump("edge_template", &origin[5..]);
        }
        // number of mutations: edge templates mostly unmutated, others 1..3 (generated: sometimes 0)
        let n_mut = match okind.as_str() {
            "edge" => {
                if r.chance(1, 4) {
                    1
                } else {
                    0
                }
            }
            "generated" => {
                if r.chance(1, 5) {
                    0
                } else {
                    r.range(1, 3)
                }
            }
            _ => r.range(1, 3),
        };
        let mut muts: Vec<&'static str> = vec![];
        for _ in 0..n_mut {
            let m = mutate_once(&mut r, &mut lines);
            muts.push(m);
            stats.bump("mutation", m);
        }
        if clamp_huge_sorts(&mut lines) {
            stats.inc("huge_sort_clamped");
        }
        stats.bump("origin", &okind);
        stats.bump("n_mutations", &format!("{}", muts.len()));
        let mut text = lines.join("\n");
        if r.chance(9, 10) {
            text.push('\n');
        }
        stats.bump("text_lines", &bucket(lines.len() as u64));
        if !text.is_ascii() {
            stats.inc("non_ascii_texts");
        }
        let t0 = std::time::Instant::now();
        let res = impl_field(&text, &mut stats);
        let ms = t0.elapsed().as_millis();
        if ms > 250 {
            stats.bump("slow_cases_over_250ms", &format!("{origin} [{}]", muts.join(",")));
            if stats.notes.len() < 5 {
                stats.notes.push(format!("slow case {id}: {ms} ms, origin {origin}, mutations {}", muts.join(",")));
            }
        }
        distinct.insert(text.clone());
        let line = format!("(case {id} (profile {prof}) (origin {}) (muts {}) (text {}) (impl {res}))", quote(&origin), quote(&muts.join(",")), quote(&text));
        stats.sample(&line, 2);
        writeln!(out, "{line}").unwrap();
    }
    stats.add("distinct_cases", distinct.len() as u64);
    stats.bump("profile", prof);
    stats.write(&args.out);
}
