//! Shared by C08 / C09 / C18 (all three belong to the btor2 front-end builder): a grammar-directed
//! generator of btor2 texts, a token/line-level mutation engine, the list of shipped btor2 files,
//! the implementation runner (`parse_str` under catch_unwind) and a DAG dump of parsed systems.
use crate::dump::quote;
use crate::rng::Rng;
use crate::util::*;
use baa::{BitVecOps, BitVecValue};
use patronus::expr::*;
use patronus::system::*;
use rustc_hash::FxHashMap;

// ------------------------------------------------------------------------------------------------
// stderr: parse_str prints one diagnostic per error to stderr; silence it (fd 2 -> /dev/null)
unsafe extern "C" {
    fn dup2(a: i32, b: i32) -> i32;
    fn open(path: *const u8, flags: i32, ...) -> i32;
}
pub fn silence_stderr() {
    if std::env::var("VERIF_KEEP_STDERR").is_ok() {
        return;
    }
    unsafe {
        let fd = open(b"/dev/null\0".as_ptr(), 1);
        if fd >= 0 {
            dup2(fd, 2);
        }
    }
}

// ------------------------------------------------------------------------------------------------
// shipped files
pub fn shipped_files() -> Vec<(String, String)> {
    fn walk(dir: &std::path::Path, out: &mut Vec<std::path::PathBuf>) {
        if let Ok(rd) = std::fs::read_dir(dir) {
            let mut es: Vec<_> = rd.filter_map(|e| e.ok()).map(|e| e.path()).collect();
            es.sort();
            for p in es {
                if p.is_dir() {
                    walk(&p, out);
                } else if let Some(ext) = p.extension().and_then(|e| e.to_str()) {
                    if ext == "btor" || ext == "btor2" {
                        out.push(p);
                    }
                }
            }
        }
    }
    let mut ps = vec![];
    walk(std::path::Path::new("/repo/inputs"), &mut ps);
    let mut out = vec![];
    for p in ps {
        if let Ok(txt) = std::fs::read_to_string(&p) {
            out.push((p.to_string_lossy().trim_start_matches("/repo/inputs/").to_string(), txt));
        }
    }
    out
}

// ------------------------------------------------------------------------------------------------
// grammar-directed generator
#[derive(Clone, Copy, PartialEq, Eq, Debug, Hash)]
pub enum Ty {
    Bv(u32),
    Arr(u32, u32),
}

#[derive(Clone)]
pub struct BtorGenCfg {
    pub widths: Vec<u32>,
    pub n_ops: (u64, u64),
    pub arrays: bool,
    pub neg_chance: (u64, u64),
    pub random_ids: bool,
    pub names: bool,
    pub shuffle: bool,
    pub max_width: u32,
    /// init expressions only refer to constants, inputs and earlier states (what the writer can emit before the state)
    pub safe_init: bool,
}

impl Default for BtorGenCfg {
    fn default() -> Self {
        BtorGenCfg {
            widths: vec![1, 1, 2, 3, 4, 5, 7, 8, 8, 16, 31, 32, 33, 63, 64, 65, 127, 128, 129, 200],
            n_ops: (4, 30),
            arrays: true,
            neg_chance: (1, 5),
            random_ids: true,
            names: true,
            shuffle: true,
            max_width: 520,
            safe_init: false,
        }
    }
}

pub const UNARY_SAME: [&str; 2] = ["not", "neg"];
pub const UNARY_RED: [&str; 3] = ["redand", "redor", "redxor"];
pub const BIN_SAME: [&str; 17] =
    ["and", "nand", "nor", "or", "xnor", "xor", "sll", "sra", "srl", "add", "mul", "sdiv", "udiv", "smod", "srem", "urem", "sub"];
pub const BIN_CMP: [&str; 8] = ["sgt", "ugt", "sgte", "ugte", "slt", "ult", "slte", "ulte"];
pub const UNSUPPORTED: [&str; 13] = ["inc", "dec", "rol", "ror", "fair", "saddo", "uaddo", "sdivo", "udivo", "smulo", "umulo", "ssubo", "usubo"];
pub const ALL_OPS: [&str; 58] = [
    "not", "neg", "redand", "redor", "redxor", "slice", "uext", "sext", "iff", "implies", "sgt", "ugt", "sgte", "ugte", "slt", "ult", "slte",
    "ulte", "and", "nand", "nor", "or", "xnor", "xor", "sll", "sra", "srl", "add", "mul", "sdiv", "udiv", "smod", "srem", "urem", "sub", "concat",
    "eq", "neq", "read", "ite", "write", "sort", "input", "output", "bad", "constraint", "state", "next", "init", "const", "constd", "consth",
    "zero", "one", "ones", "justice", "foo", "inc",
];

pub struct BtorGen<'a> {
    pub rng: &'a mut Rng,
    pub cfg: BtorGenCfg,
    pub lines: Vec<String>,
    pub sorts: Vec<(u32, Ty)>,
    pub nodes: Vec<(u32, Ty)>,
    pub states: Vec<(u32, Ty)>,
    used_ids: std::collections::HashSet<u32>,
    next_id: u32,
    name_ctr: u32,
    pub ops_used: Vec<String>,
    /// constants, inputs and state symbols in creation order (for safe_init)
    pub leaves: Vec<(u32, Ty)>,
}

fn rand_bits(rng: &mut Rng, w: u32) -> String {
    let mode = rng.below(6);
    (0..w)
        .map(|i| match mode {
            0 => '0',
            1 => '1',
            2 => {
                if i == 0 {
                    '1'
                } else {
                    '0'
                }
            }
            3 => {
                if i == w - 1 {
                    '1'
                } else {
                    '0'
                }
            }
            _ => {
                if rng.chance(1, 2) {
                    '1'
                } else {
                    '0'
                }
            }
        })
        .collect()
}

fn bits_to_dec(bits: &str) -> String {
    // decimal digits of a binary string (school-book doubling on decimal digit vectors)
    let mut digits: Vec<u8> = vec![0];
    for c in bits.chars() {
        let mut carry = if c == '1' { 1u8 } else { 0u8 };
        for d in digits.iter_mut() {
            let v = *d * 2 + carry;
            *d = v % 10;
            carry = v / 10;
        }
        if carry > 0 {
            digits.push(carry);
        }
    }
    digits.iter().rev().map(|d| (b'0' + d) as char).collect()
}

fn bits_to_hex(bits: &str) -> String {
    let pad = (4 - bits.len() % 4) % 4;
    let padded: String = "0".repeat(pad) + bits;
    padded.as_bytes().chunks(4).map(|c| std::char::from_digit(u32::from_str_radix(std::str::from_utf8(c).unwrap(), 2).unwrap(), 16).unwrap()).collect()
}

impl<'a> BtorGen<'a> {
    pub fn new(rng: &'a mut Rng, cfg: BtorGenCfg) -> Self {
        BtorGen { rng, cfg, lines: vec![], sorts: vec![], nodes: vec![], states: vec![], used_ids: Default::default(), next_id: 1, name_ctr: 0, ops_used: vec![], leaves: vec![] }
    }
    fn fresh_id(&mut self) -> u32 {
        if self.cfg.random_ids && self.rng.chance(1, 3) {
            loop {
                let id = self.rng.range(0, 3000) as u32;
                if self.used_ids.insert(id) {
                    return id;
                }
            }
        }
        loop {
            let id = self.next_id;
            self.next_id += 1;
            if self.used_ids.insert(id) {
                return id;
            }
        }
    }
    fn opt_name(&mut self) -> String {
        if self.cfg.names && self.rng.chance(1, 4) {
            self.name_ctr += 1;
            match self.rng.below(6) {
                0 => format!(" n{}", self.name_ctr),
                1 => format!(" $sig${}", self.name_ctr),
                2 => " dup".to_string(),
                3 => format!(" _state_{}", self.rng.below(3)),
                4 => " _input".to_string(),
                _ => format!(" x{}", self.name_ctr),
            }
        } else {
            String::new()
        }
    }
    pub fn sort_id(&mut self, t: Ty) -> u32 {
        if let Some((id, _)) = self.sorts.iter().find(|(_, s)| *s == t) {
            // sometimes declare the same sort twice
            if !self.rng.chance(1, 12) {
                return *id;
            }
        }
        match t {
            Ty::Bv(w) => {
                let id = self.fresh_id();
                self.lines.push(format!("{id} sort bitvec {w}"));
                self.sorts.push((id, t));
                id
            }
            Ty::Arr(iw, dw) => {
                let i = self.sort_id(Ty::Bv(iw));
                let d = self.sort_id(Ty::Bv(dw));
                let id = self.fresh_id();
                self.lines.push(format!("{id} sort array {i} {d}"));
                self.sorts.push((id, t));
                id
            }
        }
    }
    fn pick_width(&mut self) -> u32 {
        *self.rng.pick(&self.cfg.widths.clone())
    }
    fn pick_node(&mut self, pred: impl Fn(Ty) -> bool) -> Option<(u32, Ty)> {
        let c: Vec<(u32, Ty)> = self.nodes.iter().copied().filter(|(_, t)| pred(*t)).collect();
        if c.is_empty() { None } else { Some(*self.rng.pick(&c)) }
    }
    /// operand reference, possibly negated (bit-vectors only)
    fn opnd(&mut self, n: (u32, Ty)) -> String {
        let neg = matches!(n.1, Ty::Bv(_)) && self.rng.chance(self.cfg.neg_chance.0, self.cfg.neg_chance.1);
        if neg { format!("-{}", n.0) } else { format!("{}", n.0) }
    }
    fn emit_node(&mut self, op: &str, t: Ty, rest: String) -> u32 {
        let s = self.sort_id(t);
        let id = self.fresh_id();
        let name = self.opt_name();
        self.lines.push(format!("{id} {op} {s}{}{}{name}", if rest.is_empty() { "" } else { " " }, rest));
        self.nodes.push((id, t));
        self.ops_used.push(op.to_string());
        id
    }
    pub fn gen_const(&mut self, w: u32) -> u32 {
        let id = self.gen_const_inner(w);
        self.leaves.push((id, Ty::Bv(w)));
        id
    }
    fn gen_const_inner(&mut self, w: u32) -> u32 {
        let bits = rand_bits(self.rng, w);
        match self.rng.below(8) {
            0 => self.emit_node("zero", Ty::Bv(w), String::new()),
            1 => self.emit_node("one", Ty::Bv(w), String::new()),
            2 => self.emit_node("ones", Ty::Bv(w), String::new()),
            3 | 4 => {
                // binary, sometimes shorter than the width or with a sign
                let v = if self.rng.chance(1, 4) { bits.trim_start_matches('0').to_string() } else { bits.clone() };
                let v = if v.is_empty() { "0".to_string() } else { v };
                let v = match self.rng.below(60) {
                    0..=5 => format!("-{v}"),
                    6 => format!("+{v}"),
                    _ => v,
                };
                // a negative number whose magnitude needs all the bits is still accepted
                self.emit_node("const", Ty::Bv(w), v)
            }
            5 | 6 => {
                let d = bits_to_dec(&bits);
                let v = match self.rng.below(60) {
                    0..=5 => format!("-{d}"),
                    6 => format!("+{d}"),
                    7..=12 => format!("00{d}"),
                    _ => d,
                };
                self.emit_node("constd", Ty::Bv(w), v)
            }
            _ => {
                let h = bits_to_hex(&bits);
                let h = if self.rng.chance(1, 3) { h.to_uppercase() } else { h };
                // hex digits may carry more bits than the width; then the value must still fit
                let v = match self.rng.below(10) {
                    0 => format!("-{h}"),
                    _ => h,
                };
                self.emit_node("consth", Ty::Bv(w), v)
            }
        }
    }
    fn decl(&mut self, kind: &str, t: Ty) -> u32 {
        let s = self.sort_id(t);
        let id = self.fresh_id();
        let name = self.opt_name();
        self.lines.push(format!("{id} {kind} {s}{name}"));
        self.nodes.push((id, t));
        self.leaves.push((id, t));
        if kind == "state" {
            self.states.push((id, t));
        }
        self.ops_used.push(kind.to_string());
        id
    }
    fn rand_arr_ty(&mut self) -> Ty {
        let iw = *self.rng.pick(&[1u32, 2, 3, 4, 8, 33]);
        let dw = self.pick_width();
        Ty::Arr(iw, dw)
    }
    /// one operator node over existing nodes; returns false if nothing fitting could be built
    pub fn gen_op(&mut self) -> bool {
        let k = self.rng.below(100);
        let maxw = self.cfg.max_width;
        if k < 8 {
            let op = *self.rng.pick(&UNARY_SAME);
            if let Some(a) = self.pick_node(|t| matches!(t, Ty::Bv(_))) {
                let r = self.opnd(a);
                self.emit_node(op, a.1, r);
                return true;
            }
        } else if k < 16 {
            let op = *self.rng.pick(&UNARY_RED);
            if let Some(a) = self.pick_node(|t| matches!(t, Ty::Bv(w) if w <= 300)) {
                let r = self.opnd(a);
                self.emit_node(op, Ty::Bv(1), r);
                return true;
            }
        } else if k < 24 {
            if let Some(a) = self.pick_node(|t| matches!(t, Ty::Bv(_))) {
                let Ty::Bv(w) = a.1 else { unreachable!() };
                let hi = self.rng.below(w as u64) as u32;
                let lo = if self.rng.chance(1, 4) { 0 } else { self.rng.range(0, hi as u64) as u32 };
                let hi = if self.rng.chance(1, 5) { w - 1 } else { hi };
                let r = format!("{} {hi} {lo}", self.opnd(a));
                self.emit_node("slice", Ty::Bv(hi - lo + 1), r);
                return true;
            }
        } else if k < 32 {
            let op = if self.rng.chance(1, 2) { "uext" } else { "sext" };
            if let Some(a) = self.pick_node(|t| matches!(t, Ty::Bv(w) if w < maxw)) {
                let Ty::Bv(w) = a.1 else { unreachable!() };
                let by = *self.rng.pick(&[0u32, 0, 1, 1, 2, 3, 7, 31, 32, 33, 64, 100]);
                let r = format!("{} {by}", self.opnd(a));
                self.emit_node(op, Ty::Bv(w + by), r);
                return true;
            }
        } else if k < 52 {
            let op = *self.rng.pick(&BIN_SAME);
            if let Some(a) = self.pick_node(|t| matches!(t, Ty::Bv(_))) {
                let b = self.pick_node(|t| t == a.1).unwrap();
                let r = format!("{} {}", self.opnd(a), self.opnd(b));
                self.emit_node(op, a.1, r);
                return true;
            }
        } else if k < 64 {
            let op = *self.rng.pick(&BIN_CMP);
            if let Some(a) = self.pick_node(|t| matches!(t, Ty::Bv(_))) {
                let b = self.pick_node(|t| t == a.1).unwrap();
                let r = format!("{} {}", self.opnd(a), self.opnd(b));
                self.emit_node(op, Ty::Bv(1), r);
                return true;
            }
        } else if k < 70 {
            let op = if self.rng.chance(1, 2) { "eq" } else { "neq" };
            let arr = self.rng.chance(1, 5);
            // array equality is decided over the whole index space by the evaluators: small index widths only
            if let Some(a) = self.pick_node(|t| if arr { matches!(t, Ty::Arr(iw, _) if iw <= 8) } else { matches!(t, Ty::Bv(_)) }) {
                let b = self.pick_node(|t| t == a.1).unwrap();
                let r = format!("{} {}", self.opnd(a), self.opnd(b));
                self.emit_node(op, Ty::Bv(1), r);
                return true;
            }
        } else if k < 75 {
            let op = if self.rng.chance(1, 2) { "iff" } else { "implies" };
            if let Some(a) = self.pick_node(|t| t == Ty::Bv(1)) {
                let b = self.pick_node(|t| t == Ty::Bv(1)).unwrap();
                let r = format!("{} {}", self.opnd(a), self.opnd(b));
                self.emit_node(op, Ty::Bv(1), r);
                return true;
            }
        } else if k < 80 {
            if let Some(a) = self.pick_node(|t| matches!(t, Ty::Bv(w) if w < maxw)) {
                if let Some(b) = self.pick_node(|t| matches!(t, Ty::Bv(w) if w < maxw)) {
                    let (Ty::Bv(wa), Ty::Bv(wb)) = (a.1, b.1) else { unreachable!() };
                    let r = format!("{} {}", self.opnd(a), self.opnd(b));
                    self.emit_node("concat", Ty::Bv(wa + wb), r);
                    return true;
                }
            }
        } else if k < 85 {
            if let Some(a) = self.pick_node(|t| matches!(t, Ty::Arr(..))) {
                let Ty::Arr(iw, dw) = a.1 else { unreachable!() };
                if let Some(i) = self.pick_node(|t| t == Ty::Bv(iw)) {
                    let r = format!("{} {}", a.0, self.opnd(i));
                    self.emit_node("read", Ty::Bv(dw), r);
                    return true;
                }
            }
        } else if k < 93 {
            if let Some(c) = self.pick_node(|t| t == Ty::Bv(1)) {
                let arr = self.rng.chance(1, 6);
                if let Some(a) = self.pick_node(|t| matches!(t, Ty::Arr(..)) == arr) {
                    let b = self.pick_node(|t| t == a.1).unwrap();
                    let r = format!("{} {} {}", self.opnd(c), self.opnd(a), self.opnd(b));
                    self.emit_node("ite", a.1, r);
                    return true;
                }
            }
        } else if k < 97 {
            if let Some(a) = self.pick_node(|t| matches!(t, Ty::Arr(..))) {
                let Ty::Arr(iw, dw) = a.1 else { unreachable!() };
                if let (Some(i), Some(d)) = (self.pick_node(|t| t == Ty::Bv(iw)), self.pick_node(|t| t == Ty::Bv(dw))) {
                    let r = format!("{} {} {}", a.0, self.opnd(i), self.opnd(d));
                    self.emit_node("write", a.1, r);
                    return true;
                }
            }
        } else {
            let w = self.pick_width();
            self.gen_const(w);
            return true;
        }
        false
    }

    /// a whole, well-formed file
    pub fn gen_file(&mut self) {
        self.sort_id(Ty::Bv(1));
        let n_in = self.rng.range(1, 3);
        for _ in 0..n_in {
            let w = self.pick_width();
            self.decl("input", Ty::Bv(w));
        }
        let n_st = self.rng.range(1, 3);
        for _ in 0..n_st {
            let w = self.pick_width();
            self.decl("state", Ty::Bv(w));
        }
        if self.cfg.arrays && self.rng.chance(1, 2) {
            let t = self.rand_arr_ty();
            self.decl("state", t);
            if self.rng.chance(1, 3) {
                self.decl("input", t);
            }
            // make sure index/data typed nodes exist
            let Ty::Arr(iw, dw) = t else { unreachable!() };
            if self.rng.chance(2, 3) {
                self.decl("input", Ty::Bv(iw));
            }
            if self.rng.chance(2, 3) {
                self.gen_const(dw);
            }
            // often a second array sort (different index or element sort), so that array-valued lines can be
            // annotated with a wrong ARRAY sort by the sort_id / array_sort mutations
            if self.rng.chance(1, 2) {
                let t2 = if self.rng.chance(1, 2) { Ty::Arr(iw, if dw == 1 { 2 } else { dw - 1 }) } else { Ty::Arr(iw + 1, dw) };
                if self.rng.chance(1, 2) {
                    self.decl("state", t2);
                } else {
                    self.sort_id(t2);
                }
            }
        }
        for _ in 0..self.rng.range(0, 3) {
            let w = self.pick_width();
            self.gen_const(w);
        }
        let n_ops = self.rng.range(self.cfg.n_ops.0, self.cfg.n_ops.1);
        let mut built = 0;
        let mut tries = 0;
        while built < n_ops && tries < n_ops * 6 {
            tries += 1;
            if self.gen_op() {
                built += 1;
            }
        }
        // init / next
        let states = self.states.clone();
        for (sid, t) in states {
            if self.rng.chance(2, 3) {
                // init: literal-like or any node of the state's type; arrays may be initialised from a bit-vector
                let cand = if self.cfg.safe_init {
                    // only leaves created before this state's declaration line
                    let pos = self.leaves.iter().position(|(i, _)| *i == sid).unwrap_or(0);
                    let want = match t {
                        Ty::Arr(_, dw) if self.rng.chance(2, 3) => Ty::Bv(dw),
                        _ => t,
                    };
                    let c: Vec<(u32, Ty)> = self.leaves[..pos].iter().copied().filter(|(_, x)| *x == want).collect();
                    if c.is_empty() { None } else { Some(*self.rng.pick(&c)) }
                } else {
                    match t {
                        Ty::Arr(_, dw) if self.rng.chance(2, 3) => self.pick_node(|x| x == Ty::Bv(dw)),
                        _ => self.pick_node(|x| x == t),
                    }
                };
                if let Some(e) = cand {
                    let s = self.sort_id(t);
                    let id = self.fresh_id();
                    let r = self.opnd(e);
                    self.lines.push(format!("{id} init {s} {sid} {r}"));
                    self.ops_used.push("init".into());
                }
            }
            if self.rng.chance(3, 4) {
                if let Some(e) = self.pick_node(|x| x == t) {
                    let s = self.sort_id(t);
                    let id = self.fresh_id();
                    let r = self.opnd(e);
                    self.lines.push(format!("{id} next {s} {sid} {r}"));
                    self.ops_used.push("next".into());
                }
            }
        }
        for kind in ["output", "bad", "constraint"] {
            let n = match kind {
                "output" => self.rng.range(0, 3),
                "bad" => self.rng.range(1, 2),
                _ => self.rng.range(0, 1),
            };
            for _ in 0..n {
                let cand = if kind == "output" { self.pick_node(|_| true) } else { self.pick_node(|x| x == Ty::Bv(1)) };
                if let Some(e) = cand {
                    let id = self.fresh_id();
                    let r = self.opnd(e);
                    let name = self.opt_name();
                    self.lines.push(format!("{id} {kind} {r}{name}"));
                    self.ops_used.push(kind.into());
                }
            }
        }
        if self.cfg.shuffle {
            shuffle_topological(self.rng, &mut self.lines);
        }
    }
}

fn toks(line: &str) -> Vec<String> {
    let l = line.split(';').next().unwrap_or("");
    l.split(|c| c == ' ' || c == '\t').filter(|t| !t.is_empty()).map(|t| t.to_string()).collect()
}

/// random adjacent swaps that keep definition-before-use
pub fn shuffle_topological(rng: &mut Rng, lines: &mut Vec<String>) {
    let n = lines.len();
    if n < 2 {
        return;
    }
    for _ in 0..(n * 3) {
        let i = rng.below(n as u64 - 1) as usize;
        let a = toks(&lines[i]);
        let b = toks(&lines[i + 1]);
        if a.is_empty() || b.is_empty() {
            continue;
        }
        let ida = a[0].clone();
        let idb = b[0].clone();
        let uses = |t: &Vec<String>, id: &str| t.iter().skip(2).any(|x| x.trim_start_matches('-') == id);
        if !uses(&b, &ida) && !uses(&a, &idb) {
            lines.swap(i, i + 1);
        }
    }
}

// ------------------------------------------------------------------------------------------------
// mutation engine (token / line level)
pub const HUGE: [&str; 12] = [
    "4294967295", "4294967296", "4294967294", "2147483648", "9223372036854775807", "9223372036854775808", "18446744073709551616",
    "-4294967295", "-4294967296", "-9223372036854775808", "99999999999999999999999999", "00000000000000000000000000000000000007",
];
pub const UNI: [&str; 8] = ["\u{e9}", "\u{2714}", "\u{1F600}", "\u{a0}", "\u{3000}", "\u{202e}", "\u{0}", "\u{7f}"];

fn is_int(t: &str) -> bool {
    let b = t.trim_start_matches('-');
    !b.is_empty() && b.bytes().all(|c| c.is_ascii_digit())
}

/// applies one random mutation; returns its name
pub fn mutate_once(rng: &mut Rng, lines: &mut Vec<String>) -> &'static str {
    if lines.is_empty() {
        lines.push("1 sort bitvec 1".into());
        return "nonempty";
    }
    let n = lines.len();
    let li = rng.below(n as u64) as usize;
    let all_ids: Vec<String> = lines.iter().filter_map(|l| toks(l).first().cloned()).filter(|t| is_int(t)).collect();
    let sort_ids: Vec<String> = lines.iter().map(|l| toks(l)).filter(|t| t.len() > 1 && t[1] == "sort").map(|t| t[0].clone()).collect();
    // choose a line with tokens for token-level mutations
    let with_tokens: Vec<usize> = (0..n).filter(|i| toks(&lines[*i]).len() >= 2).collect();
    let ti = if with_tokens.is_empty() { li } else { *rng.pick(&with_tokens) };
    let mut t = toks(&lines[ti]);
    let op = t.get(1).cloned().unwrap_or_default();
    let pick_id = |rng: &mut Rng, pool: &Vec<String>| -> String {
        if pool.is_empty() || rng.chance(1, 6) { format!("{}", rng.below(40)) } else { rng.pick(pool).clone() }
    };
    let kind = rng.below(29);
    if kind >= 26 {
        return mutate_array_operand(rng, lines);
    }
    if kind >= 24 {
        // the value operand of an init / next line is replaced by another node of the file
        let tl: Vec<Vec<String>> = lines.iter().map(|l| toks(l)).collect();
        let c: Vec<usize> = (0..tl.len()).filter(|i| tl[*i].len() > 4 && (tl[*i][1] == "init" || tl[*i][1] == "next")).collect();
        let ids: Vec<String> = tl.iter().filter(|t| t.len() > 2 && !matches!(t[1].as_str(), "sort" | "init" | "next" | "output" | "bad" | "constraint")).map(|t| t[0].clone()).collect();
        if c.is_empty() || ids.is_empty() {
            return "noop";
        }
        let li = *rng.pick(&c);
        let mut t = tl[li].clone();
        t[4] = rng.pick(&ids).clone();
        if rng.chance(1, 6) {
            t[1] = if t[1] == "init" { "next".to_string() } else { "init".to_string() };
        }
        lines[li] = t.join(" ");
        return "init_next_value";
    }
    if kind >= 22 {
        return mutate_array_sort(rng, lines);
    }
    // token-level mutations need a line with at least one token
    if t.is_empty() && kind >= 4 && kind != 19 && kind != 20 {
        return "noop";
    }
    match kind {
        0 => {
            lines.remove(li);
            "del_line"
        }
        1 => {
            let l = lines[li].clone();
            let pos = rng.below(n as u64 + 1) as usize;
            lines.insert(pos, l);
            "dup_line"
        }
        2 => {
            let j = rng.below(n as u64) as usize;
            lines.swap(li, j);
            "swap_lines"
        }
        3 => {
            let l = lines.remove(li);
            let pos = rng.below(n as u64) as usize;
            lines.insert(pos, l);
            "move_line"
        }
        4 | 5 => {
            if t.len() > 2 && op != "sort" {
                t[2] = pick_id(rng, &sort_ids);
                lines[ti] = t.join(" ");
                "sort_id"
            } else {
                "noop"
            }
        }
        6 | 7 | 8 => {
            // operand id
            let start = if matches!(op.as_str(), "output" | "bad" | "constraint" | "fair") { 2 } else { 3 };
            let cands: Vec<usize> = (start..t.len()).filter(|i| is_int(&t[*i])).collect();
            if cands.is_empty() || op == "sort" {
                return "noop";
            }
            let i = *rng.pick(&cands);
            t[i] = match rng.below(4) {
                0 => pick_id(rng, &sort_ids),
                _ => pick_id(rng, &all_ids),
            };
            lines[ti] = t.join(" ");
            "operand_id"
        }
        9 | 10 => {
            let cands: Vec<usize> = (0..t.len()).filter(|i| is_int(&t[*i]) && (*i != 1)).collect();
            if cands.is_empty() {
                return "noop";
            }
            // mostly operands, sometimes the sort or line id
            let pool: Vec<usize> = cands.iter().copied().filter(|i| *i >= 3).collect();
            let i = if !pool.is_empty() && !rng.chance(1, 6) { *rng.pick(&pool) } else { *rng.pick(&cands) };
            t[i] = if t[i].starts_with('-') { t[i][1..].to_string() } else { format!("-{}", t[i]) };
            lines[ti] = t.join(" ");
            "negation"
        }
        11 | 12 => {
            // widths, extension amounts, slice bounds
            let idx: Vec<usize> = match op.as_str() {
                "sort" if t.len() > 3 && t[2] == "bitvec" => vec![3],
                "uext" | "sext" if t.len() > 4 => vec![4],
                "slice" if t.len() > 5 => vec![4, 5],
                _ => vec![],
            };
            if idx.is_empty() {
                // retarget: find such a line
                let c: Vec<usize> = (0..n)
                    .filter(|i| {
                        let x = toks(&lines[*i]);
                        x.len() > 3 && (x[1] == "slice" || x[1] == "uext" || x[1] == "sext" || (x[1] == "sort" && x[2] == "bitvec"))
                    })
                    .collect();
                if c.is_empty() {
                    return "noop";
                }
                let ti = *rng.pick(&c);
                let mut t = toks(&lines[ti]);
                let i = if t[1] == "sort" { 3 } else if t[1] == "slice" && t.len() > 5 { *rng.pick(&[4usize, 5]) } else { 4.min(t.len() - 1) };
                let sortline = t[1] == "sort";
                t[i] = width_variant(rng, &t[i], sortline);
                if t[1] == "slice" && t.len() > 5 && rng.chance(1, 4) {
                    t.swap(4, 5);
                }
                lines[ti] = t.join(" ");
                return "width";
            }
            let i = *rng.pick(&idx);
            t[i] = width_variant(rng, &t[i], op == "sort");
            lines[ti] = t.join(" ");
            "width"
        }
        13 => {
            if t.len() > 1 {
                t[1] = if rng.chance(1, 12) { rng.pick(&UNSUPPORTED).to_string() } else { rng.pick(&ALL_OPS).to_string() };
                lines[ti] = t.join(" ");
                "op_swap"
            } else {
                "noop"
            }
        }
        14 | 15 => {
            let k = rng.below(t.len() as u64) as usize;
            t.truncate(k.max(if rng.chance(1, 8) { 0 } else { 1 }));
            lines[ti] = t.join(" ");
            "drop_tokens"
        }
        16 => {
            let pos = rng.range(1, t.len() as u64) as usize;
            let extra = match rng.below(4) {
                0 => pick_id(rng, &all_ids),
                1 => "xyz".to_string(),
                2 => rng.pick(&HUGE).to_string(),
                _ => "-".to_string(),
            };
            t.insert(pos, extra);
            lines[ti] = t.join(" ");
            "extra_token"
        }
        17 => {
            let cands: Vec<usize> = (0..t.len()).filter(|i| is_int(&t[*i])).collect();
            if cands.is_empty() {
                return "noop";
            }
            let i = *rng.pick(&cands);
            // huge widths on `sort bitvec` lines would make the implementation allocate gigabytes
            // for literals of that sort; only values beyond u32 are used there
            let sortwidth = op == "sort" && i == 3;
            let mut h = rng.pick(&HUGE).to_string();
            if sortwidth && matches!(h.as_str(), "4294967295" | "4294967294" | "2147483648") {
                h = "4294967296".to_string();
            }
            t[i] = h;
            lines[ti] = t.join(" ");
            "huge_number"
        }
        18 => {
            let u = *rng.pick(&UNI);
            match rng.below(4) {
                0 => {
                    let i = rng.below(t.len() as u64) as usize;
                    let pos = rng.below(t[i].chars().count() as u64 + 1) as usize;
                    let mut s: Vec<char> = t[i].chars().collect();
                    for (k, c) in u.chars().enumerate() {
                        s.insert(pos + k, c);
                    }
                    t[i] = s.into_iter().collect();
                    lines[ti] = t.join(" ");
                }
                1 => {
                    lines[ti] = format!("{} {}{}", t.join(" "), u, "name");
                }
                2 => {
                    lines[ti] = t.join(u);
                }
                _ => {
                    lines[ti] = format!("{} ; {} comment", t.join(" "), u);
                }
            }
            "unicode"
        }
        19 => {
            match rng.below(4) {
                0 => {
                    for l in lines.iter_mut() {
                        l.push('\r');
                    }
                }
                1 => lines[li].push('\r'),
                2 => lines[li] = lines[li].replace(' ', "\r"),
                _ => lines[li] = format!("\r{}", lines[li]),
            }
            "line_endings"
        }
        20 => {
            // constant values
            let c: Vec<usize> = (0..n).filter(|i| toks(&lines[*i]).get(1).map(|o| o.starts_with("const")).unwrap_or(false)).collect();
            if c.is_empty() {
                return "noop";
            }
            let ti = *rng.pick(&c);
            let mut t = toks(&lines[ti]);
            if t.len() < 4 {
                return "noop";
            }
            let v = t[3].clone();
            t[3] = match rng.below(12) {
                0 => format!("-{v}"),
                1 => format!("+{v}"),
                2 => format!("{v}2"),
                3 => format!("{v}g"),
                4 => format!("1{v}"),
                5 => format!("0{v}"),
                6 => "-".to_string(),
                7 => "+".to_string(),
                8 => format!("--{v}"),
                9 => format!("-+{v}"),
                10 => format!("{v}{v}{v}"),
                _ => format!("{}f", v),
            };
            if rng.chance(1, 4) {
                t[1] = rng.pick(&["const", "constd", "consth"]).to_string();
            }
            lines[ti] = t.join(" ");
            "const_value"
        }
        _ => {
            if t.is_empty() {
                return "noop";
            }
            t[0] = match rng.below(6) {
                0 => pick_id(rng, &all_ids),
                1 => format!("-{}", t[0]),
                2 => rng.pick(&HUGE).to_string(),
                3 => "x".to_string(),
                4 => format!("+{}", t[0]),
                _ => "0".to_string(),
            };
            lines[ti] = match rng.below(4) {
                0 => format!("  {}\t", t.join("\t ")),
                _ => t.join(" "),
            };
            "line_id"
        }
    }
}

/// Resource guard of the harness (not of the property): a `sort bitvec W` with 65536 < W < 2^32 makes the
/// implementation (and the model) build W-bit literals when the file also contains a literal-producing
/// operator; such widths are clamped to 65536.  Files without literal operators keep their huge sorts.
pub fn clamp_huge_sorts(lines: &mut Vec<String>) -> bool {
    let lit_ops = ["zero", "one", "ones", "const", "constd", "consth", "redor", "redand", "redxor"];
    let has_lit = lines.iter().any(|l| toks(l).get(1).map(|o| lit_ops.contains(&o.as_str())).unwrap_or(false));
    if !has_lit {
        return false;
    }
    let mut changed = false;
    for l in lines.iter_mut() {
        let t = toks(l);
        if t.len() > 3 && t[1] == "sort" && t[2] == "bitvec" {
            if let Ok(w) = t[3].trim_start_matches('+').parse::<u64>() {
                if w > 65536 && w < 4294967296 {
                    let mut t2 = t.clone();
                    t2[3] = "65536".to_string();
                    *l = t2.join(" ");
                    changed = true;
                }
            }
        }
    }
    changed
}

/// The declared sort of a line whose sort is an ARRAY sort (write, ite, state, input, init, next, uext/sext by 0) is replaced by a
/// different array sort; one is declared right before the line if the file has no other.
pub fn mutate_array_sort(rng: &mut Rng, lines: &mut Vec<String>) -> &'static str {
    let tl: Vec<Vec<String>> = lines.iter().map(|l| toks(l)).collect();
    // array sorts: id -> (index sort id, element sort id)
    let arr: Vec<(String, String, String)> =
        tl.iter().filter(|t| t.len() > 4 && t[1] == "sort" && t[2] == "array").map(|t| (t[0].clone(), t[3].clone(), t[4].clone())).collect();
    let bvs: Vec<String> = tl.iter().filter(|t| t.len() > 3 && t[1] == "sort" && t[2] == "bitvec").map(|t| t[0].clone()).collect();
    if arr.is_empty() {
        return "noop";
    }
    let cands: Vec<usize> = (0..tl.len()).filter(|i| tl[*i].len() > 2 && tl[*i][1] != "sort" && arr.iter().any(|a| a.0 == tl[*i][2])).collect();
    if cands.is_empty() {
        return "noop";
    }
    // prefer array-valued operator lines
    let ops: Vec<usize> = cands.iter().copied().filter(|i| matches!(tl[*i][1].as_str(), "write" | "ite" | "uext" | "sext")).collect();
    let li = if !ops.is_empty() && rng.chance(3, 4) { *rng.pick(&ops) } else { *rng.pick(&cands) };
    let cur = tl[li][2].clone();
    let (ci, cd) = arr.iter().find(|a| a.0 == cur).map(|a| (a.1.clone(), a.2.clone())).unwrap();
    let others: Vec<String> = arr.iter().filter(|a| a.0 != cur && (a.1 != ci || a.2 != cd)).map(|a| a.0.clone()).collect();
    let mut t = tl[li].clone();
    if !others.is_empty() && rng.chance(2, 3) {
        t[2] = rng.pick(&others).clone();
        lines[li] = t.join(" ");
    } else {
        // a fresh array sort over existing bit-vector sorts that differs in the index or the element sort
        let alt: Vec<&String> = bvs.iter().filter(|b| **b != cd).collect();
        let alt_i: Vec<&String> = bvs.iter().filter(|b| **b != ci).collect();
        let (ni, nd) = if !alt.is_empty() && (alt_i.is_empty() || rng.chance(1, 2)) { (ci.clone(), (*rng.pick(&alt)).clone()) } else if !alt_i.is_empty() { ((*rng.pick(&alt_i)).clone(), cd.clone()) } else { return "noop" };
        let fresh = tl.iter().filter_map(|t| t.first().and_then(|x| x.parse::<u64>().ok())).max().unwrap_or(0) + 1;
        t[2] = format!("{fresh}");
        lines[li] = t.join(" ");
        lines.insert(li, format!("{fresh} sort array {ni} {nd}"));
    }
    "array_sort"
}

/// One operand of a line that works on arrays (write, read, array ite, eq/neq over arrays) is replaced by a node of the same KIND
/// (bit-vector / array) but of a different sort: a data or index operand of another width, an array with another element or index
/// sort.  Everything else on the line (operator, declared sort, the other operands) stays right, so the only thing wrong with the
/// file is the relation BETWEEN the operand sorts.  If the file has no such node, a sort and an input are declared right before the line.
pub fn mutate_array_operand(rng: &mut Rng, lines: &mut Vec<String>) -> &'static str {
    #[derive(Clone, PartialEq)]
    enum Sd {
        Bv(u64),
        Arr(String, String),
    }
    let tl: Vec<Vec<String>> = lines.iter().map(|l| toks(l)).collect();
    let mut sorts: std::collections::HashMap<String, Sd> = std::collections::HashMap::new();
    for t in tl.iter() {
        if t.len() > 3 && t[1] == "sort" && t[2] == "bitvec" {
            if let Ok(w) = t[3].parse::<u64>() {
                sorts.insert(t[0].clone(), Sd::Bv(w));
            }
        } else if t.len() > 4 && t[1] == "sort" && t[2] == "array" {
            sorts.insert(t[0].clone(), Sd::Arr(t[3].clone(), t[4].clone()));
        }
    }
    // node id -> (line index, sort id)
    let mut node: std::collections::HashMap<String, (usize, String)> = std::collections::HashMap::new();
    for (i, t) in tl.iter().enumerate() {
        if t.len() > 2 && !matches!(t[1].as_str(), "sort" | "init" | "next" | "output" | "bad" | "constraint" | "fair" | "justice") && sorts.contains_key(&t[2]) {
            node.entry(t[0].clone()).or_insert((i, t[2].clone()));
        }
    }
    let strip = |x: &str| x.trim_start_matches('-').to_string();
    let is_arr = |id: &str| matches!(node.get(&strip(id)).and_then(|n| sorts.get(&n.1)), Some(Sd::Arr(_, _)));
    let cands: Vec<usize> = (0..tl.len())
        .filter(|i| {
            let t = &tl[*i];
            match t.get(1).map(|x| x.as_str()) {
                Some("write") => t.len() > 5,
                Some("read") => t.len() > 4,
                Some("ite") => t.len() > 5 && is_arr(&t[4]),
                Some("eq") | Some("neq") => t.len() > 4 && is_arr(&t[3]),
                _ => false,
            }
        })
        .collect();
    if cands.is_empty() {
        return "noop";
    }
    let li = *rng.pick(&cands);
    let mut t = tl[li].clone();
    let pos: usize = match t[1].as_str() {
        // the data operand of a write most often: it is the one nothing but the node check looks at
        "write" => *rng.pick(&[5usize, 5, 5, 4, 3]),
        "read" => *rng.pick(&[4usize, 4, 3]),
        "ite" => *rng.pick(&[4usize, 5]),
        _ => *rng.pick(&[3usize, 4]),
    };
    let Some(cur) = node.get(&strip(&t[pos])).and_then(|n| sorts.get(&n.1)).cloned() else { return "noop" };
    let same_kind = |a: &Sd, b: &Sd| matches!((a, b), (Sd::Bv(_), Sd::Bv(_)) | (Sd::Arr(_, _), Sd::Arr(_, _)));
    let resolve = |d: &Sd| -> Option<(u64, u64)> {
        match d {
            Sd::Arr(i, e) => match (sorts.get(i), sorts.get(e)) {
                (Some(Sd::Bv(a)), Some(Sd::Bv(b))) => Some((*a, *b)),
                _ => None,
            },
            _ => None,
        }
    };
    let differs = |a: &Sd, b: &Sd| match (a, b) {
        (Sd::Bv(x), Sd::Bv(y)) => x != y,
        (Sd::Arr(_, _), Sd::Arr(_, _)) => resolve(a) != resolve(b),
        _ => false,
    };
    let pool: Vec<String> = node
        .iter()
        .filter(|(_, (i, sid))| *i < li && sorts.get(sid).map(|d| same_kind(d, &cur) && differs(d, &cur)).unwrap_or(false))
        .map(|(id, _)| id.clone())
        .collect();
    if !pool.is_empty() && rng.chance(3, 4) {
        let mut pool = pool;
        pool.sort();
        t[pos] = rng.pick(&pool).clone();
        lines[li] = t.join(" ");
        return "array_operand";
    }
    // declare a node of a different sort of the same kind right before the line
    let fresh = tl.iter().filter_map(|t| t.first().and_then(|x| x.parse::<u64>().ok())).max().unwrap_or(0) + 1;
    let mut pre: Vec<String> = vec![];
    match &cur {
        Sd::Bv(w) => {
            let nw = if *w > 1 && rng.chance(1, 2) { w - 1 } else { w + 1 };
            pre.push(format!("{fresh} sort bitvec {nw}"));
            pre.push(format!("{} input {fresh}", fresh + 1));
            t[pos] = format!("{}", fresh + 1);
        }
        Sd::Arr(i, e) => {
            let Some((iw, ew)) = resolve(&cur) else { return "noop" };
            pre.push(format!("{fresh} sort bitvec {}", if rng.chance(1, 2) { ew + 1 } else { iw + 1 }));
            let other_elem = pre[0].ends_with(&format!(" {}", ew + 1)) && rng.chance(2, 3);
            pre.push(if other_elem { format!("{} sort array {i} {fresh}", fresh + 1) } else { format!("{} sort array {fresh} {e}", fresh + 1) });
            pre.push(format!("{} input {}", fresh + 2, fresh + 1));
            t[pos] = format!("{}", fresh + 2);
        }
    }
    lines[li] = t.join(" ");
    for (k, l) in pre.into_iter().enumerate() {
        lines.insert(li + k, l);
    }
    "array_operand"
}

fn width_variant(rng: &mut Rng, old: &str, sort_line: bool) -> String {
    let w: u64 = old.parse().unwrap_or(8);
    match rng.below(12) {
        0 => "0".into(),
        1 => "1".into(),
        2 => format!("{}", w.saturating_add(1)),
        3 => format!("{}", w.saturating_sub(1)),
        4 => format!("{}", w.saturating_mul(2)),
        5 => {
            if sort_line {
                "5000".into()
            } else {
                "4294967295".into()
            }
        }
        6 => "4294967296".into(),
        7 => "-1".into(),
        8 => format!("+{w}"),
        9 => format!("{w}x"),
        10 => {
            if sort_line {
                "129".into()
            } else {
                format!("{}", 4294967296u64.saturating_sub(w))
            }
        }
        _ => format!("{}", rng.below(70)),
    }
}

// ------------------------------------------------------------------------------------------------
// hand-written edge templates (huge numbers, zero widths, kinds): parameters are randomised
pub fn edge_template(rng: &mut Rng) -> (Vec<String>, &'static str) {
    let w = *rng.pick(&[1u64, 2, 7, 8, 32, 33, 64, 65, 128, 129]);
    let s = |x: &str| x.to_string();
    let pick = rng.below(56);
    if pick >= 50 {
        // operators on arrays whose operands are all of the right KIND, with the declared sort of the array operand, but whose operand
        // sorts do not fit each other: a write of a value of another width or at an index of another width, a read at an index of
        // another width or into another width, an ite over arrays of different sorts, eq/neq of arrays of different sorts.
        // One in five lines is well sorted (same shape, to keep the accepted side of the comparison covered).
        let (iw, dw) = (rng.range(1, 4), rng.range(1, 5));
        let (iw2, dw2) = (if iw > 1 && rng.chance(1, 2) { iw - 1 } else { iw + 1 }, if dw > 1 && rng.chance(1, 2) { dw - 1 } else { dw + 1 });
        let (line, arr) = match rng.below(15) {
            0 | 1 | 2 => (s("20 write 4 6 7 9"), true),   // data of another width
            3 => (s("20 write 4 6 32 8"), true),          // index of another width
            4 => (s("20 write 4 6 32 9"), true),
            5 => (s("20 read 2 6 32"), false),            // index of another width
            6 => (s("20 read 3 6 7"), false),             // result sort of another width
            7 => (s("20 ite 4 37 6 33"), true),           // other element sort
            8 => (s("20 ite 4 37 34 6"), true),           // other index sort
            9 => (format!("20 {} 36 6 33", rng.pick(&["eq", "neq"])), false),
            10 => (format!("20 {} 36 34 6", rng.pick(&["eq", "neq"])), false),
            11 => (s("20 write 4 6 7 8"), true),
            12 => (s("20 ite 4 37 6 35"), true),
            13 => (format!("20 {} 36 6 35", rng.pick(&["eq", "neq"])), false),
            _ => (s("20 write 5 33 7 9"), true),          // well sorted write into the array with the other element sort
        };
        let mut l = vec![format!("1 sort bitvec {iw}"), format!("2 sort bitvec {dw}"), format!("3 sort bitvec {dw2}"), format!("30 sort bitvec {iw2}"),
                         s("4 sort array 1 2"), s("5 sort array 1 3"), s("31 sort array 30 2"), s("6 state 4 m"), s("7 input 1 i"), s("8 input 2 d"), s("9 input 3 dx"),
                         s("32 input 30 ix"), s("33 input 5 mx"), s("34 input 31 my"), s("35 input 4 m2"), s("36 sort bitvec 1"), s("37 input 36 c"), line.clone()];
        if arr {
            let first_sort = line.split(' ').nth(2).unwrap_or("4").to_string();
            if first_sort == "4" {
                l.push(s("21 read 2 20 7"));
                l.push(s("22 output 21"));
                if rng.chance(1, 2) {
                    l.push(s("23 next 4 6 20"));
                }
            } else {
                l.push(s("21 read 3 20 7"));
                l.push(s("22 output 21"));
            }
        } else {
            l.push(s("21 output 20"));
        }
        return (l, "array_operand_sorts");
    }
    if pick >= 46 {
        // an array-valued line annotated with a different ARRAY sort (other element or index sort)
        let (iw, dw) = (rng.range(1, 3), rng.range(2, 5));
        let op = match rng.below(5) {
            0 => s("10 write 4 6 7 8"),
            1 => s("10 ite 4 9 6 6"),
            2 => s("10 uext 4 6 0 alias"),
            3 => format!("10 write {} 6 7 8", rng.pick(&["5", "4"])),
            _ => s("10 ite 5 9 6 6"),
        };
        return (
            vec![format!("1 sort bitvec {iw}"), format!("2 sort bitvec {dw}"), format!("3 sort bitvec {}", dw - 1), s("4 sort array 1 3"), s("5 sort array 1 2"),
                 s("6 state 5 m"), s("7 input 1 i"), s("8 input 2 d"), s("30 sort bitvec 1"), s("9 input 30 c"), op, s("11 read 2 10 7"), s("12 output 11"), s("13 next 5 6 10")],
            "array_sort_mismatch",
        );
    }
    if pick >= 44 {
        // extension of an array by 0 bits with the array sort as declared sort: accepted although uext/sext are bit-vector operators
        let (iw, dw) = (rng.range(1, 3), rng.range(1, 5));
        return (
            vec![format!("1 sort bitvec {iw}"), format!("2 sort bitvec {dw}"), s("3 sort array 1 2"), format!("4 {} 3 m", rng.pick(&["input", "state"])),
                 format!("5 {} 3 4 0", rng.pick(&["uext", "sext"])), s("6 input 1 i"), s("7 read 2 5 6"), s("8 output 7")],
            "ext_array0",
        );
    }
    if pick >= 30 && pick < 40 {
        // any operator applied to operands of random kinds (bit-vectors of two widths, booleans, arrays), random declared sort
        let header = vec![s("1 sort bitvec 1"), format!("2 sort bitvec {}", w + 1), format!("3 sort bitvec {}", w + 2), s("4 sort array 2 3"), s("5 sort array 1 2"),
                          s("11 input 1 b1"), s("12 input 2 x"), s("13 input 3 y"), s("14 input 4 m"), s("15 input 5 k"), s("16 input 2 x2"), s("17 state 4 m2")];
        let opnds = ["11", "12", "13", "14", "15", "16", "17", "-11", "-12", "-14", "12", "12", "16"];
        let ops: Vec<&str> = ALL_OPS.iter().copied().filter(|o| !matches!(*o, "sort" | "input" | "state" | "justice" | "foo")).collect();
        let op = *rng.pick(&ops);
        let sort = rng.range(1, 5);
        let mut l = header;
        let line = match op {
            "slice" => format!("20 slice {sort} {} {} {}", rng.pick(&opnds), rng.below(w + 3), rng.below(3)),
            "uext" | "sext" => format!("20 {op} {sort} {} {}", rng.pick(&opnds), rng.pick(&["0", "1", "2", "4294967295"])),
            "output" | "bad" | "constraint" => format!("20 {op} {}", rng.pick(&opnds)),
            "init" | "next" => format!("20 {op} {sort} {} {}", rng.pick(&["17", "17", "14", "12"]), rng.pick(&opnds)),
            "const" | "constd" | "consth" => format!("20 {op} {sort} {}", rng.pick(&["0", "1", "101", "7", "ff", "-1"])),
            "zero" | "one" | "ones" => format!("20 {op} {sort}"),
            "ite" | "write" => format!("20 {op} {sort} {} {} {}", rng.pick(&opnds), rng.pick(&opnds), rng.pick(&opnds)),
            o if UNARY_SAME.contains(&o) || UNARY_RED.contains(&o) || o == "inc" => format!("20 {op} {sort} {}", rng.pick(&opnds)),
            _ => format!("20 {op} {sort} {} {}", rng.pick(&opnds), rng.pick(&opnds)),
        };
        l.push(line);
        if rng.chance(1, 2) {
            l.push(s("21 output 20"));
        }
        return (l, "op_kinds");
    }
    if pick >= 40 {
        // a node whose width wrapped around in u32 arithmetic (release builds), then used
        let by = 4294967296u64 - w + rng.below(2);
        let res = (w + by) % 4294967296;
        let use_ = match rng.below(6) {
            0 => format!("6 {} 5 4", rng.pick(&UNARY_RED)),
            1 => s("6 not 2 4"),
            2 => s("6 concat 1 4 3"),
            3 => s("6 slice 5 4 0 0"),
            4 => s("6 uext 1 4 {w}"),
            _ => s("6 add 2 4 4"),
        };
        return (
            vec![format!("1 sort bitvec {w}"), format!("2 sort bitvec {res}"), s("3 input 1"), format!("4 {} 2 3 {by}", rng.pick(&["uext", "sext"])), s("5 sort bitvec 1"), use_, s("7 output 6")],
            "wrap_then_use",
        );
    }
    match pick {
        0 => (vec![format!("1 sort bitvec {w}"), s("2 sort array 1 1"), s("3 input 2 a"), s("4 input 2 b"), format!("5 {} 2 3 4", rng.pick(&BIN_SAME))], "arr_binop"),
        1 => (vec![format!("1 sort bitvec {w}"), s("2 sort array 1 1"), s("3 input 2 a"), s("4 input 1 b"), format!("5 {} 1 3 4", rng.pick(&BIN_SAME))], "arr_bv_binop"),
        2 => (vec![format!("1 sort bitvec {w}"), s("2 sort array 1 1"), s("3 input 2 a"), s("4 input 1 b"), format!("5 {} 1 4 3", rng.pick(&BIN_SAME))], "bv_arr_binop"),
        3 => (vec![format!("1 sort bitvec {w}"), s("2 sort array 1 1"), s("3 input 2 a"), format!("4 {} 2 -3", rng.pick(&["not", "output", "bad", "neg"]))], "neg_arr"),
        4 => {
            let hi = rng.below(w);
            (vec![format!("1 sort bitvec {w}"), s("2 input 1"), format!("3 slice 1 2 {} {}", hi, hi + 1 + rng.below(3))], "slice_rev")
        }
        5 => (vec![format!("1 sort bitvec {w}"), format!("2 {} 1", rng.pick(&["const", "constd", "consth"]))], "const_novalue"),
        6 => (vec![format!("1 sort bitvec {w}"), format!("2 sort bitvec {}", w + 1), s("3 input 1"), s("4 input 2"), format!("5 {} 1 3 4", rng.pick(&BIN_SAME))], "width_mismatch"),
        7 => (vec![format!("1 sort bitvec {}", w + 1), s("2 input 1"), format!("3 {} 2", rng.pick(&["bad", "constraint"]))], "bad_wide"),
        8 => (vec![s("1 sort bitvec 0"), format!("2 {} 1{}", rng.pick(&["input", "state", "zero", "one", "ones", "const", "constd", "consth"]), if rng.chance(1, 2) { " 0" } else { "" })], "zero_width"),
        9 => (vec![s("1 sort bitvec 0"), s("2 sort bitvec 4"), format!("3 sort array {} {}", rng.pick(&["1", "2"]), rng.pick(&["1", "2"])), s("4 input 3 mem"), s("5 state 3")], "zero_width_array"),
        10 => (vec![s("1 sort bitvec 4"), s("2 sort array 1 1"), format!("3 sort array {} {}", rng.pick(&["1", "2"]), rng.pick(&["2", "1"]))], "array_of_array"),
        11 => {
            // extension whose width wraps around in u32 arithmetic; the declared sort is the wrapped width
            let by = 4294967296u64 - w + rng.below(3);
            let res = (w + by) % 4294967296;
            (
                vec![format!("1 sort bitvec {w}"), format!("2 sort bitvec {res}"), s("3 input 1"), format!("4 {} 2 3 {by}", rng.pick(&["uext", "sext"])), s("5 output 4")],
                "ext_wrap",
            )
        }
        12 => {
            let a = 2147483648u64 + rng.below(3);
            let b = 4294967296u64 - a + rng.below(2);
            let res = (a + b) % 4294967296;
            (
                vec![format!("1 sort bitvec {a}"), format!("2 sort bitvec {b}"), format!("3 sort bitvec {res}"), s("4 input 1"), s("5 input 2"), s("6 concat 3 4 5"), s("7 output 6")],
                "concat_wrap",
            )
        }
        13 => (vec![format!("1 sort bitvec {w}"), s("2 input 1"), format!("3 slice 1 2 4294967295 {}", rng.below(2))], "slice_max"),
        14 => {
            // wide hexadecimal constants: more digits than the words of the value can hold
            let ww = *rng.pick(&[129u64, 130, 192, 193, 200, 256, 257]);
            let nd = ww.div_ceil(64) * 16 + rng.range(0, 20) - 2;
            let mut v: String = (0..nd).map(|_| *rng.pick(&['0', '0', '1', 'f', 'A'])).collect();
            if rng.chance(1, 4) {
                let p = rng.below(nd) as usize;
                v.replace_range(p..p + 1, "g");
            }
            (vec![format!("1 sort bitvec {ww}"), format!("2 consth 1 {v}")], "wide_hex")
        }
        15 => {
            // wide decimal constants around the word boundary of the value
            let ww = *rng.pick(&[129u64, 130, 191, 192, 193, 200, 256]);
            let nd = rng.range(38, 90);
            let mut v: String = (0..nd).map(|_| *rng.pick(&['0', '1', '9', '7', '3'])).collect();
            match rng.below(6) {
                0 => {
                    let p = rng.below(nd) as usize;
                    v.replace_range(p..p + 1, "+");
                }
                1 => {
                    let p = rng.below(nd) as usize;
                    v.replace_range(p..p + 1, "\u{e9}");
                }
                2 => {
                    let p = rng.below(nd) as usize;
                    v.replace_range(p..p + 1, "a");
                }
                _ => {}
            }
            let v = if rng.chance(1, 5) { format!("-{v}") } else { v };
            (vec![format!("1 sort bitvec {ww}"), format!("2 constd 1 {v}")], "wide_dec")
        }
        16 => {
            let ww = *rng.pick(&[129u64, 130, 192, 200]);
            let nd = ww + rng.range(0, 4) - 2;
            let mut v: String = (0..nd).map(|_| *rng.pick(&['0', '1'])).collect();
            if rng.chance(1, 4) {
                let p = rng.below(nd) as usize;
                v.replace_range(p..p + 1, *rng.pick(&["2", "\u{e9}", "+"]));
            }
            let v = match rng.below(5) {
                0 => format!("-{v}"),
                1 => format!("+{v}"),
                _ => v,
            };
            (vec![format!("1 sort bitvec {ww}"), format!("2 const 1 {v}")], "wide_bin")
        }
        17 => (vec![format!("1 sort bitvec {w}"), s("2 sort array 1 1"), s("3 input 2"), format!("4 {} 1 3{}", rng.pick(&["redor", "redand", "redxor", "uext", "sext", "not", "neg"]), if rng.chance(1, 2) { " 0" } else { " 3" })], "arr_unary"),
        18 => (vec![format!("1 sort bitvec {w}"), s("2 sort array 1 1"), s("3 input 2"), format!("4 slice 1 3 {} {}", rng.below(4), rng.below(3))], "arr_slice"),
        19 => (vec![format!("1 sort bitvec {w}"), s("2 input 1"), s("3 input 1"), format!("4 read 1 2 3")], "read_bv"),
        20 => (vec![s("1 sort bitvec 1"), format!("2 sort bitvec {}", w + 1), s("3 input 1"), s("4 input 2"), format!("5 ite 2 {} 4 {}", rng.pick(&["4", "3"]), rng.pick(&["3", "4"]))], "ite_mismatch"),
        21 => (vec![s("1 sort bitvec 1"), format!("2 sort bitvec {}", w + 1), s("3 input 1"), s("4 input 2"), format!("5 {} 1 {} {}", rng.pick(&["implies", "iff", "eq", "neq", "ugt", "ulte", "sgt", "slt"]), rng.pick(&["4", "3"]), rng.pick(&["3", "4"]))], "bool_mismatch"),
        22 => {
            // the array-init shorthand: a bit-vector of the element sort, of another width, negated, an array, or via `next`
            let wd = rng.pick(&["1", "7"]).to_string();
            (vec![format!("1 sort bitvec {w}"), s("2 sort array 1 1"), s("3 state 2 m"), s("4 input 1 d"), format!("7 sort bitvec {}", w + 1), s("8 input 7 wide"), s("9 zero 7"),
                  format!("5 {} 2 3 {}", rng.pick(&["init", "init", "next"]), rng.pick(&["4", "-4", "3", "-3", "8", "9", "-8"])), format!("6 sort array {wd} 1"), s("10 output 3")], "array_init")
        }
        23 => (vec![format!("1 sort bitvec {w}"), s("2 state 1"), format!("3 {} 1 2 {}", rng.pick(&UNSUPPORTED), rng.pick(&["2", ""]))], "unsupported"),
        24 => (vec![format!("1 sort bitvec {w}"), s("2 state 1 s"), format!("3 {} 1 2 0 better", rng.pick(&["uext", "sext"])), s("4 next 1 2 3"), s("5 output 2 o")], "alias"),
        25 => (vec![s("1 sort bitvec 1"), s("2 state 1 s"), format!("3 {} 1 2 nice$name", rng.pick(&["redor", "redand", "redxor"])), s("4 next 1 2 -3"), s("5 bad 2")], "alias_red"),
        26 => (vec![format!("1 sort bitvec {w}"), s("2 input 1 a"), s("2 state 1 a"), s("3 next 1 2 2"), s("3 input 1 a"), s("4 add 1 2 3 a")], "dup_ids"),
        27 => (vec![format!("1 sort bitvec {w}"), s("2 sort array 1 1"), s("3 input 2"), s("4 input 1"), format!("5 {} 2 {} {} {}", rng.pick(&["write", "ite"]), rng.pick(&["3", "4"]), rng.pick(&["3", "4", "-3"]), rng.pick(&["3", "4"]))], "ternary_kinds"),
        28 => (vec![format!("1 sort bitvec {w}"), s("2 sort array 1 1"), s("3 input 2"), s("4 input 1"), format!("5 {} 1 {} {}", rng.pick(&["concat", "read", "eq", "ugt", "implies", "iff"]), rng.pick(&["3", "4"]), rng.pick(&["3", "4"]))], "binary_kinds"),
        _ => {
            let p = format!("/very/long/path/to/some/verilog/file.v:{}.{}-{}.{}", rng.below(100), rng.below(100), rng.below(100), rng.below(100));
            (vec![format!("1 sort bitvec {w}"), format!("2 state 1 {}", rng.pick(&["$flatten\\x", "s"])), format!("3 uext 1 2 0 {}", rng.pick(&[p.as_str(), "$flatten\\y", "$a$b", "_state"])), s("4 next 1 2 3")], "name_rules")
        }
    }
}

/// Texts that exercise what parse.rs does AFTER the last line (improve_state_names, demotion of states without init and
/// next to inputs): plain states that are read by outputs / bad states / next and init functions of other states, names with `$`,
/// duplicated names, a plain state labelled like an input (or like a reader default), states renamed through alias nodes
/// (uext by 0, full slice) and through output labels, names the reader ignores (yosys paths, $flatten), array states.
pub fn postproc_template(rng: &mut Rng) -> (Vec<String>, &'static str) {
    let w = *rng.pick(&[1u64, 2, 8, 33, 64, 65]);
    const NAMES: [&str; 14] = ["a", "b", "a", "dup", "x$y", "$s$1", "_input", "_state", "_state_0", "_input_0", "o", "nice$name", "", ""];
    const ALIASES: [&str; 8] = ["better", "nice$name", "a", "$flatten\\y", "/very/long/path/to/some/verilog/file.v:12.3-14.5", "_state", "dup", "b"];
    fn nm(rng: &mut Rng) -> String {
        let n = *rng.pick(&NAMES);
        if n.is_empty() { String::new() } else { format!(" {n}") }
    }
    let mut lines: Vec<String> = vec![format!("1 sort bitvec {w}"), "2 sort bitvec 1".into(), "3 sort bitvec 2".into(), "4 sort array 3 1".into()];
    let mut id = 5u32;
    let mut bv: Vec<u32> = vec![]; // nodes of sort 1
    let mut arrs: Vec<u32> = vec![]; // nodes of sort 4
    let mut states: Vec<(u32, bool)> = vec![];
    for _ in 0..rng.range(1, 2) {
        lines.push(format!("{id} input 1{}", nm(rng)));
        bv.push(id);
        id += 1;
    }
    if rng.chance(1, 3) {
        lines.push(format!("{id} input 4{}", nm(rng)));
        arrs.push(id);
        id += 1;
    }
    for _ in 0..rng.range(2, 4) {
        let arr = rng.chance(1, 4);
        lines.push(format!("{id} state {}{}", if arr { 4 } else { 1 }, nm(rng)));
        if arr { arrs.push(id) } else { bv.push(id) }
        states.push((id, arr));
        id += 1;
    }
    let idx = id;
    lines.push(format!("{id} input 3"));
    id += 1;
    for _ in 0..rng.range(1, 4) {
        let (a, b) = (*rng.pick(&bv), *rng.pick(&bv));
        let neg = if rng.chance(1, 5) { "-" } else { "" };
        lines.push(format!("{id} {} 1 {neg}{a} {b}{}", rng.pick(&["add", "and", "xor", "sub"]), nm(rng)));
        bv.push(id);
        id += 1;
    }
    if !arrs.is_empty() {
        let a = *rng.pick(&arrs);
        lines.push(format!("{id} read 1 {a} {idx}{}", nm(rng)));
        bv.push(id);
        id += 1;
    }
    let mut bools: Vec<u32> = vec![];
    for _ in 0..rng.range(1, 2) {
        let (a, b) = (*rng.pick(&bv), *rng.pick(&bv));
        lines.push(format!("{id} {} 2 {a} {b}{}", rng.pick(&["eq", "neq", "ult", "sgte"]), nm(rng)));
        bools.push(id);
        id += 1;
    }
    // aliases: a later name for a state symbol
    for &(sid, arr) in states.iter() {
        if rng.chance(1, 2) {
            let name = *rng.pick(&ALIASES);
            if arr {
                lines.push(format!("{id} output {sid} {name}"));
            } else {
                match rng.below(3) {
                    0 => lines.push(format!("{id} uext 1 {sid} 0 {name}")),
                    1 => lines.push(format!("{id} slice 1 {sid} {} 0 {name}", w - 1)),
                    _ => lines.push(format!("{id} output {sid} {name}")),
                }
            }
            id += 1;
        }
    }
    // roles: half of the states stay without init and next
    for &(sid, arr) in states.iter() {
        let role = rng.below(4);
        let s = if arr { 4 } else { 1 };
        if role >= 2 {
            let e = if arr { *rng.pick(&arrs) } else { *rng.pick(&bv) };
            lines.push(format!("{id} next {s} {sid} {e}"));
            id += 1;
        }
        if role == 3 {
            if arr && rng.chance(1, 2) {
                lines.push(format!("{id} zero 1"));
                id += 1;
                lines.push(format!("{id} init 4 {sid} {}", id - 1));
            } else {
                let e = if arr { *rng.pick(&arrs) } else { *rng.pick(&bv) };
                lines.push(format!("{id} init {s} {sid} {e}"));
            }
            id += 1;
        }
    }
    for _ in 0..rng.range(1, 3) {
        let e = if rng.chance(1, 2) { rng.pick(&states).0 } else { *rng.pick(&bv) };
        lines.push(format!("{id} output {e}{}", nm(rng)));
        id += 1;
    }
    for _ in 0..rng.range(1, 2) {
        let e = *rng.pick(&bools);
        lines.push(format!("{id} bad {}{e}{}", if rng.chance(1, 4) { "-" } else { "" }, nm(rng)));
        id += 1;
    }
    if rng.chance(1, 2) {
        let e = *rng.pick(&bools);
        lines.push(format!("{id} constraint {e}{}", nm(rng)));
    }
    if rng.chance(1, 3) {
        shuffle_topological(rng, &mut lines);
    }
    (lines, "postproc")
}

// ------------------------------------------------------------------------------------------------
// implementation runner and DAG dump
pub struct DagDump {
    pub text: String,
    pub n_nodes: usize,
    /// `(signames (k "name") ..)`: debug names attached to non-symbol nodes (sys.names), for faithful replays
    pub signames: String,
}

/// post-order numbering of the expression graph reachable from the system; children are indices
pub fn dump_sys_dag(ctx: &Context, sys: &TransitionSystem) -> DagDump {
    let mut idx: FxHashMap<ExprRef, usize> = FxHashMap::default();
    let mut nodes = String::from("(nodes");
    let mut count = 0usize;
    let mut visit = |root: ExprRef, idx: &mut FxHashMap<ExprRef, usize>, nodes: &mut String, count: &mut usize| -> usize {
        let mut stack: Vec<(ExprRef, bool)> = vec![(root, false)];
        while let Some((e, done)) = stack.pop() {
            if idx.contains_key(&e) {
                continue;
            }
            let mut cs = vec![];
            ctx[e].collect_children(&mut cs);
            if !done {
                stack.push((e, true));
                for c in cs.iter().rev() {
                    if !idx.contains_key(c) {
                        stack.push((*c, false));
                    }
                }
                continue;
            }
            let c = |k: usize| idx[&cs[k]];
            let s = match &ctx[e] {
                Expr::BVSymbol { name, width } => format!("(sym {} {})", quote(&ctx[*name]), width),
                Expr::BVLiteral(v) => {
                    let v = v.get(ctx);
                    format!("(lit {} b{})", v.width(), v.to_bit_str())
                }
                Expr::BVZeroExt { by, width, .. } => format!("(zext {} {by} {width})", c(0)),
                Expr::BVSignExt { by, width, .. } => format!("(sext {} {by} {width})", c(0)),
                Expr::BVSlice { hi, lo, .. } => format!("(slice {} {hi} {lo})", c(0)),
                Expr::BVNot(_, w) => format!("(not {} {w})", c(0)),
                Expr::BVNegate(_, w) => format!("(neg {} {w})", c(0)),
                Expr::BVEqual(..) => format!("(eq {} {})", c(0), c(1)),
                Expr::BVImplies(..) => format!("(implies {} {})", c(0), c(1)),
                Expr::BVGreater(..) => format!("(ugt {} {})", c(0), c(1)),
                Expr::BVGreaterSigned(_, _, w) => format!("(sgt {} {} {w})", c(0), c(1)),
                Expr::BVGreaterEqual(..) => format!("(uge {} {})", c(0), c(1)),
                Expr::BVGreaterEqualSigned(_, _, w) => format!("(sge {} {} {w})", c(0), c(1)),
                Expr::BVConcat(_, _, w) => format!("(concat {} {} {w})", c(0), c(1)),
                Expr::BVAnd(_, _, w) => format!("(and {} {} {w})", c(0), c(1)),
                Expr::BVOr(_, _, w) => format!("(or {} {} {w})", c(0), c(1)),
                Expr::BVXor(_, _, w) => format!("(xor {} {} {w})", c(0), c(1)),
                Expr::BVShiftLeft(_, _, w) => format!("(shl {} {} {w})", c(0), c(1)),
                Expr::BVArithmeticShiftRight(_, _, w) => format!("(ashr {} {} {w})", c(0), c(1)),
                Expr::BVShiftRight(_, _, w) => format!("(lshr {} {} {w})", c(0), c(1)),
                Expr::BVAdd(_, _, w) => format!("(add {} {} {w})", c(0), c(1)),
                Expr::BVMul(_, _, w) => format!("(mul {} {} {w})", c(0), c(1)),
                Expr::BVSignedDiv(_, _, w) => format!("(sdiv {} {} {w})", c(0), c(1)),
                Expr::BVUnsignedDiv(_, _, w) => format!("(udiv {} {} {w})", c(0), c(1)),
                Expr::BVSignedMod(_, _, w) => format!("(smod {} {} {w})", c(0), c(1)),
                Expr::BVSignedRem(_, _, w) => format!("(srem {} {} {w})", c(0), c(1)),
                Expr::BVUnsignedRem(_, _, w) => format!("(urem {} {} {w})", c(0), c(1)),
                Expr::BVSub(_, _, w) => format!("(sub {} {} {w})", c(0), c(1)),
                Expr::BVArrayRead { width, .. } => format!("(read {} {} {width})", c(0), c(1)),
                Expr::BVIte { .. } => format!("(ite {} {} {})", c(0), c(1), c(2)),
                Expr::ArraySymbol { name, index_width, data_width } => format!("(asym {} {} {})", quote(&ctx[*name]), index_width, data_width),
                Expr::ArrayConstant { index_width, data_width, .. } => format!("(aconst {} {index_width} {data_width})", c(0)),
                Expr::ArrayEqual(..) => format!("(aeq {} {})", c(0), c(1)),
                Expr::ArrayStore { .. } => format!("(store {} {} {})", c(0), c(1), c(2)),
                Expr::ArrayIte { .. } => format!("(aite {} {} {})", c(0), c(1), c(2)),
            };
            nodes.push(' ');
            nodes.push_str(&s);
            idx.insert(e, *count);
            *count += 1;
        }
        idx[&root]
    };
    let mut s = String::from("(sys (inputs");
    for i in sys.inputs.iter() {
        s.push_str(&format!(" {}", visit(*i, &mut idx, &mut nodes, &mut count)));
    }
    s.push_str(") (states");
    for st in sys.states.iter() {
        s.push_str(&format!(" (state {}", visit(st.symbol, &mut idx, &mut nodes, &mut count)));
        if let Some(i) = st.init {
            s.push_str(&format!(" (init {})", visit(i, &mut idx, &mut nodes, &mut count)));
        }
        if let Some(n) = st.next {
            s.push_str(&format!(" (next {})", visit(n, &mut idx, &mut nodes, &mut count)));
        }
        s.push(')');
    }
    s.push_str(") (outputs");
    for o in sys.outputs.iter() {
        s.push_str(&format!(" ({} {})", quote(&ctx[o.name]), visit(o.expr, &mut idx, &mut nodes, &mut count)));
    }
    s.push_str(") (bads");
    for b in sys.bad_states.iter() {
        s.push_str(&format!(" {}", visit(*b, &mut idx, &mut nodes, &mut count)));
    }
    s.push_str(") (constraints");
    for c in sys.constraints.iter() {
        s.push_str(&format!(" {}", visit(*c, &mut idx, &mut nodes, &mut count)));
    }
    s.push_str("))");
    nodes.push(')');
    let mut named: Vec<(usize, String)> = idx
        .iter()
        .filter(|(e, _)| !ctx[**e].is_symbol())
        .filter_map(|(e, k)| sys.names[*e].map(|n| (*k, ctx[n].to_string())))
        .collect();
    named.sort();
    let signames = format!("(signames{})", named.iter().map(|(k, n)| format!(" ({k} {})", quote(n))).collect::<String>());
    DagDump { text: format!("{nodes} {s}"), n_nodes: count, signames }
}

pub enum ImplRes {
    Ok(Context, TransitionSystem),
    Err,
    Panic(String, String),
}

pub fn run_parse(text: &str) -> ImplRes {
    let mut ctx = Context::default();
    let r = guarded(|| patronus::btor2::parse_str(&mut ctx, text, Some("t")));
    match r {
        Ok(Some(sys)) => ImplRes::Ok(ctx, sys),
        Ok(None) => ImplRes::Err,
        Err(msg) => {
            let mut m = msg;
            if m.len() > 120 {
                let mut k = 120;
                while !m.is_char_boundary(k) {
                    k -= 1;
                }
                m.truncate(k);
            }
            ImplRes::Panic(last_panic_loc(), m)
        }
    }
}

pub fn profile_name() -> &'static str {
    if cfg!(debug_assertions) { "debug" } else { "release" }
}
