//! Canonical S-expression dumps of implementation data, by the harness's own walker over
//! `ctx[e]` (not through patronus' serializers, which are themselves unverified code).
use baa::{ArrayOps, BitVecOps, BitVecValue};
use patronus::expr::*;

pub fn bv_tok(v: &BitVecValue) -> String {
    format!("b{}", v.to_bit_str())
}

/// quote a name as an S-expression string token
pub fn quote(s: &str) -> String {
    let mut out = String::from("\"");
    for c in s.bytes() {
        match c {
            b'"' => out.push_str("\\\""),
            b'\\' => out.push_str("\\\\"),
            b'\n' => out.push_str("\\n"),
            b'\t' => out.push_str("\\t"),
            b'\r' => out.push_str("\\r"),
            c if c < 32 || c > 126 => out.push_str(&format!("\\x{:02x}", c)),
            c => out.push(c as char),
        }
    }
    out.push('"');
    out
}

pub fn dump_type(t: Type) -> String {
    match t {
        Type::BV(w) => format!("(bv {w})"),
        Type::Array(a) => format!("(arr {} {})", a.index_width, a.data_width),
    }
}

/// the expression as a tree
pub fn dump_expr(ctx: &Context, e: ExprRef) -> String {
    let mut s = String::new();
    dump_rec(ctx, e, &mut s);
    s
}

fn dump_rec(ctx: &Context, e: ExprRef, out: &mut String) {
    let d = |x: ExprRef, out: &mut String| dump_rec(ctx, x, out);
    macro_rules! bin {
        ($tag:expr, $a:expr, $b:expr) => {{
            out.push_str(concat!("(", $tag, " "));
            d(*$a, out);
            out.push(' ');
            d(*$b, out);
            out.push(')');
        }};
        ($tag:expr, $a:expr, $b:expr, $w:expr) => {{
            out.push_str(concat!("(", $tag, " "));
            d(*$a, out);
            out.push(' ');
            d(*$b, out);
            out.push_str(&format!(" {})", $w));
        }};
    }
    macro_rules! tern {
        ($tag:expr, $a:expr, $b:expr, $c:expr) => {{
            out.push_str(concat!("(", $tag, " "));
            d(*$a, out);
            out.push(' ');
            d(*$b, out);
            out.push(' ');
            d(*$c, out);
            out.push(')');
        }};
    }
    match &ctx[e] {
        Expr::BVSymbol { name, width } => out.push_str(&format!("(sym {} {})", quote(&ctx[*name]), width)),
        Expr::BVLiteral(v) => {
            let v = v.get(ctx);
            out.push_str(&format!("(lit {} b{})", v.width(), v.to_bit_str()))
        }
        Expr::BVZeroExt { e, by, width } => {
            out.push_str("(zext ");
            d(*e, out);
            out.push_str(&format!(" {by} {width})"))
        }
        Expr::BVSignExt { e, by, width } => {
            out.push_str("(sext ");
            d(*e, out);
            out.push_str(&format!(" {by} {width})"))
        }
        Expr::BVSlice { e, hi, lo } => {
            out.push_str("(slice ");
            d(*e, out);
            out.push_str(&format!(" {hi} {lo})"))
        }
        Expr::BVNot(e, w) => {
            out.push_str("(not ");
            d(*e, out);
            out.push_str(&format!(" {w})"))
        }
        Expr::BVNegate(e, w) => {
            out.push_str("(neg ");
            d(*e, out);
            out.push_str(&format!(" {w})"))
        }
        Expr::BVEqual(a, b) => bin!("eq", a, b),
        Expr::BVImplies(a, b) => bin!("implies", a, b),
        Expr::BVGreater(a, b) => bin!("ugt", a, b),
        Expr::BVGreaterSigned(a, b, w) => bin!("sgt", a, b, w),
        Expr::BVGreaterEqual(a, b) => bin!("uge", a, b),
        Expr::BVGreaterEqualSigned(a, b, w) => bin!("sge", a, b, w),
        Expr::BVConcat(a, b, w) => bin!("concat", a, b, w),
        Expr::BVAnd(a, b, w) => bin!("and", a, b, w),
        Expr::BVOr(a, b, w) => bin!("or", a, b, w),
        Expr::BVXor(a, b, w) => bin!("xor", a, b, w),
        Expr::BVShiftLeft(a, b, w) => bin!("shl", a, b, w),
        Expr::BVArithmeticShiftRight(a, b, w) => bin!("ashr", a, b, w),
        Expr::BVShiftRight(a, b, w) => bin!("lshr", a, b, w),
        Expr::BVAdd(a, b, w) => bin!("add", a, b, w),
        Expr::BVMul(a, b, w) => bin!("mul", a, b, w),
        Expr::BVSignedDiv(a, b, w) => bin!("sdiv", a, b, w),
        Expr::BVUnsignedDiv(a, b, w) => bin!("udiv", a, b, w),
        Expr::BVSignedMod(a, b, w) => bin!("smod", a, b, w),
        Expr::BVSignedRem(a, b, w) => bin!("srem", a, b, w),
        Expr::BVUnsignedRem(a, b, w) => bin!("urem", a, b, w),
        Expr::BVSub(a, b, w) => bin!("sub", a, b, w),
        Expr::BVArrayRead { array, index, width } => bin!("read", array, index, width),
        Expr::BVIte { cond, tru, fals } => tern!("ite", cond, tru, fals),
        Expr::ArraySymbol { name, index_width, data_width } => {
            out.push_str(&format!("(asym {} {} {})", quote(&ctx[*name]), index_width, data_width))
        }
        Expr::ArrayConstant { e, index_width, data_width } => {
            out.push_str("(aconst ");
            d(*e, out);
            out.push_str(&format!(" {index_width} {data_width})"))
        }
        Expr::ArrayEqual(a, b) => bin!("aeq", a, b),
        Expr::ArrayStore { array, index, data } => tern!("store", array, index, data),
        Expr::ArrayIte { cond, tru, fals } => tern!("aite", cond, tru, fals),
    }
}

/// array value observed at the given indices
pub fn dump_array_at(a: &baa::ArrayValue, indices: &[BitVecValue]) -> String {
    let mut s = format!("(arr {} {}", a.index_width(), a.data_width());
    for i in indices {
        s.push(' ');
        s.push_str(&bv_tok(&a.select(i)));
    }
    s.push(')');
    s
}

/// number of nodes of the tree (with sharing expanded), capped
pub fn tree_size(ctx: &Context, e: ExprRef, cap: usize) -> usize {
    let mut n = 1usize;
    let mut cs = vec![];
    ctx[e].collect_children(&mut cs);
    for c in cs {
        if n > cap {
            return n;
        }
        n += tree_size(ctx, c, cap);
    }
    n
}
