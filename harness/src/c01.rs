//! C01 (and the input side of C13): the expression simplifier.
//! (case ID (expr E) (impl R | (panic)) (impl_dense R) (tc ok|fail) (again same|R2) (panicloc "..") )
use crate::dump::*;
use crate::exprgen::*;
use crate::rng::Rng;
use crate::sexp::{Sexp, build_expr, read_cases};
use crate::util::*;
use baa::{BitVecOps, BitVecValue};
use patronus::expr::*;
use std::io::Write;

pub fn run(args: &Args) {
    let mut rng = Rng::new(args.seed);
    let mut out = std::io::BufWriter::new(std::fs::File::create(&args.out).expect("out file"));
    let mut stats = Stats::default();
    let mut distinct = std::collections::HashSet::new();
    if let Some(path) = args.get("cases-in") {
        for c in read_cases(path).iter() {
            let mut ctx = Context::default();
            let e = build_expr(&mut ctx, &c.field("expr").unwrap()[0]);
            let id = c.list()[1].atom().to_string();
            let line = run_case(&id, ctx, e, &mut stats);
            stats.sample(&line, 3);
            writeln!(out, "{line}").unwrap();
        }
    }
    let directed_share = args.get_u64("directed", 50);
    for id in 0..args.count {
        let mut r = rng.fork();
        let mut ctx = Context::default();
        let mut cfg = GenCfg::default();
        cfg.max_depth = 1 + r.below(4) as u32;
        cfg.div_rem = r.chance(1, 8);
        cfg.mul_max_width = 129;
        if let Some(w) = args.get("widths") {
            cfg.widths = w.split(',').map(|x| x.parse().unwrap()).collect();
        }
        let directed = r.below(100) < directed_share;
        let (e, ops) = {
            let mut g = ExprGen::new(&mut ctx, &mut r, cfg.clone());
            let e = if directed { gen_directed(&mut g) } else { gen_random(&mut g) };
            (e, g.ops.clone())
        };
        for (k, v) in ops.iter() {
            stats.bump_n("ops", k, *v);
        }
        stats.bump("stream", if directed { "rule-directed" } else { "random" });
        let key = dump_expr(&ctx, e);
        if tree_size(&ctx, e, 3000) >= 3000 {
            stats.inc("skipped_huge");
            continue;
        }
        distinct.insert(key);
        let line = run_case(&format!("{id}"), ctx, e, &mut stats);
        stats.sample(&line, 3);
        writeln!(out, "{line}").unwrap();
    }
    stats.add("distinct_cases", distinct.len() as u64);
    stats.write(&args.out);
}

pub fn gen_random(g: &mut ExprGen) -> ExprRef {
    let depth = g.cfg.max_depth;
    if g.rng.chance(1, 8) {
        let iw = g.rng.range(1, 4) as WidthInt;
        let dw = g.pick_width();
        g.gen_array(iw, dw, depth)
    } else {
        let w = g.pick_width();
        g.gen_bv(w, depth)
    }
}

fn lit(g: &mut ExprGen, w: WidthInt) -> ExprRef {
    let v = lit_value(g.rng, w);
    g.ctx.bv_lit(&v)
}

fn mask_lit(g: &mut ExprGen, w: WidthInt) -> ExprRef {
    // several runs of ones
    let mut bits = vec![b'0'; w as usize];
    let mut i = 0usize;
    let mut on = g.rng.chance(1, 2);
    while i < w as usize {
        let run = 1 + g.rng.below(1 + (w as u64) / 3) as usize;
        for j in i..(i + run).min(w as usize) {
            if on {
                bits[j] = b'1';
            }
        }
        i += run;
        on = !on;
    }
    let v = bits_value(std::str::from_utf8(&bits).unwrap());
    g.ctx.bv_lit(&v)
}

/// One instance of the left-hand shape of a rewrite rule, with random sub-terms, possibly wrapped
/// in a random context so that the driver's bottom-up/fixed-point logic is exercised too.
pub fn gen_directed(g: &mut ExprGen) -> ExprRef {
    let d = g.rng.below(3) as u32;
    let w = g.pick_width();
    let w2 = if w >= 2 { w } else { 2 + g.rng.below(7) as WidthInt };
    let shape = g.rng.below(64);
    *g.ops.entry("directed").or_insert(0) += 1;
    let e = match shape {
        0 => {
            let c = g.gen_bv(1, d);
            let a = g.gen_bv(w, d);
            g.ctx.ite(c, a, a)
        }
        1 => {
            let c = lit(g, 1);
            let a = g.gen_bv(w, d);
            let b = g.gen_bv(w, d);
            g.ctx.ite(c, a, b)
        }
        2 => {
            let c = g.gen_bv(1, d);
            let a = lit(g, 1);
            let b = lit(g, 1);
            g.ctx.ite(c, a, b)
        }
        3 => {
            let c = g.gen_bv(1, d);
            let a = lit(g, 1);
            let b = g.gen_bv(1, d);
            g.ctx.ite(c, a, b)
        }
        4 => {
            let c = g.gen_bv(1, d);
            let a = g.gen_bv(1, d);
            let b = lit(g, 1);
            g.ctx.ite(c, a, b)
        }
        5 => {
            let a = g.gen_bv(w, d);
            g.ctx.equal(a, a)
        }
        6 => {
            let a = lit(g, w);
            let b = lit(g, w);
            g.ctx.equal(a, b)
        }
        7 => {
            let a = g.gen_bv(1, d);
            let b = lit(g, 1);
            if g.rng.chance(1, 2) { g.ctx.equal(a, b) } else { g.ctx.equal(b, a) }
        }
        8 | 9 => {
            let wa = g.rng.range(1, w2 as u64 - 1) as WidthInt;
            let x = g.gen_bv(wa, d);
            let y = g.gen_bv(w2 - wa, d);
            let c = g.ctx.concat(x, y);
            let z = if shape == 8 { g.gen_bv(w2, d) } else { lit(g, w2) };
            if g.rng.chance(1, 2) { g.ctx.equal(c, z) } else { g.ctx.equal(z, c) }
        }
        10..=12 => {
            let a = g.gen_bv(w, d);
            match shape {
                10 => g.ctx.and(a, a),
                11 => g.ctx.or(a, a),
                _ => g.ctx.xor(a, a),
            }
        }
        13..=15 => {
            let a = lit(g, w);
            let b = lit(g, w);
            match shape {
                13 => g.ctx.and(a, b),
                14 => g.ctx.or(a, b),
                _ => g.ctx.xor(a, b),
            }
        }
        16..=18 => {
            let a = g.gen_bv(w, d);
            let z = if g.rng.chance(1, 2) { g.ctx.zero(w) } else { g.ctx.ones(w) };
            let (x, y) = if g.rng.chance(1, 2) { (a, z) } else { (z, a) };
            match shape {
                16 => g.ctx.and(x, y),
                17 => g.ctx.or(x, y),
                _ => g.ctx.xor(x, y),
            }
        }
        19 => {
            // (x # y) & mask
            let wa = g.rng.range(1, w2 as u64 - 1) as WidthInt;
            let x = g.gen_bv(wa, d);
            let y = g.gen_bv(w2 - wa, d);
            let c = g.ctx.concat(x, y);
            let m = mask_lit(g, w2);
            if g.rng.chance(1, 2) { g.ctx.and(c, m) } else { g.ctx.and(m, c) }
        }
        20 | 21 => {
            // a & mask with runs of ones
            let a = if g.rng.chance(1, 2) { g.bv_sym(w2) } else { g.gen_bv(w2, d) };
            let m = mask_lit(g, w2);
            if g.rng.chance(1, 2) { g.ctx.and(a, m) } else { g.ctx.and(m, a) }
        }
        22..=24 => {
            let a = g.gen_bv(w, d);
            let na = g.ctx.not(a);
            let (x, y) = if g.rng.chance(1, 2) { (a, na) } else { (na, a) };
            match shape {
                22 => g.ctx.and(x, y),
                23 => g.ctx.or(x, y),
                _ => g.ctx.xor(x, y),
            }
        }
        25 | 26 => {
            let a = g.gen_bv(w, d);
            let b = g.gen_bv(w, d);
            let na = g.ctx.not(a);
            let nb = g.ctx.not(b);
            if shape == 25 { g.ctx.and(na, nb) } else { g.ctx.or(na, nb) }
        }
        27 => {
            // uge of literals, often equal
            let a = lit(g, w);
            let b = if g.rng.chance(1, 2) { a } else { lit(g, w) };
            g.ctx.greater_or_equal(a, b)
        }
        28 => {
            let a = g.gen_bv(w, d);
            let l = match g.rng.below(3) {
                0 => g.ctx.zero(w),
                1 => g.ctx.ones(w),
                _ => lit(g, w),
            };
            if g.rng.chance(1, 2) { g.ctx.greater_or_equal(a, l) } else { g.ctx.greater_or_equal(l, a) }
        }
        29 => {
            let a = g.gen_bv(w, d);
            let n = g.ctx.not(a);
            g.ctx.not(n)
        }
        30 => {
            let a = lit(g, w);
            g.ctx.not(a)
        }
        31 | 32 => {
            let by = 1 + g.rng.below(9) as WidthInt;
            let a = if g.rng.chance(1, 3) { lit(g, w) } else { g.gen_bv(w, d) };
            if shape == 31 { g.ctx.zero_extend(a, by) } else { g.ctx.sign_extend(a, by) }
        }
        33 => {
            let a = g.gen_bv(w, d);
            let by1 = 1 + g.rng.below(5) as WidthInt;
            let by2 = 1 + g.rng.below(5) as WidthInt;
            let s = g.ctx.sign_extend(a, by1);
            g.ctx.sign_extend(s, by2)
        }
        34 => {
            let x = g.gen_bv(w, d);
            let y = g.gen_bv(w2, d);
            let z = g.gen_bv(w, d);
            let c = g.ctx.concat(x, y);
            g.ctx.concat(c, z)
        }
        35 => {
            let a = lit(g, w);
            let b = lit(g, w2);
            g.ctx.concat(a, b)
        }
        36 => {
            let a = lit(g, w);
            let b = lit(g, w2);
            let z = g.gen_bv(w, d);
            let c = g.ctx.concat(b, z);
            g.ctx.concat(a, c)
        }
        37 => {
            // adjacent slices of the same thing
            let src_w = w2 + 2 + g.rng.below(6) as WidthInt;
            let x = g.gen_bv(src_w, d);
            let lo_b = g.rng.below(2) as WidthInt;
            let hi_b = lo_b + g.rng.below((src_w - lo_b - 2) as u64) as WidthInt;
            let lo_a = if g.rng.chance(5, 6) { hi_b + 1 } else { hi_b };
            let hi_a = lo_a + g.rng.below((src_w - lo_a) as u64) as WidthInt;
            let sa = g.ctx.slice(x, hi_a, lo_a);
            let sb = g.ctx.slice(x, hi_b, lo_b);
            // also the swapped order (a rotate / field swap): must NOT be merged into one slice
            if g.rng.chance(1, 3) { g.ctx.concat(sb, sa) } else { g.ctx.concat(sa, sb) }
        }
        38..=52 => {
            // slice of <something>
            let inner_w = w2 + g.rng.below(8) as WidthInt;
            let inner = match shape {
                38 => {
                    let x = g.gen_bv(inner_w + 3, d);
                    let lo = g.rng.below(3) as WidthInt;
                    g.ctx.slice(x, lo + inner_w - 1, lo)
                }
                39 => lit(g, inner_w),
                40 | 41 => {
                    let wa = g.rng.range(1, inner_w as u64 - 1) as WidthInt;
                    let x = g.gen_bv(wa, d);
                    let y = g.gen_bv(inner_w - wa, d);
                    g.ctx.concat(x, y)
                }
                42 | 43 => {
                    let by = g.rng.range(1, inner_w as u64 - 1) as WidthInt;
                    let x = g.gen_bv(inner_w - by, d);
                    g.ctx.sign_extend(x, by)
                }
                44 => {
                    let c = g.gen_bv(1, d);
                    let a = g.gen_bv(inner_w, d);
                    let b = g.gen_bv(inner_w, d);
                    g.ctx.ite(c, a, b)
                }
                45 => {
                    let a = g.gen_bv(inner_w, d);
                    g.ctx.not(a)
                }
                46 => {
                    let a = g.gen_bv(inner_w, d);
                    g.ctx.negate(a)
                }
                _ => {
                    let a = g.gen_bv(inner_w, d);
                    let b = g.gen_bv(inner_w, d);
                    match shape {
                        47 => g.ctx.and(a, b),
                        48 => g.ctx.or(a, b),
                        49 => g.ctx.xor(a, b),
                        50 => g.ctx.add(a, b),
                        51 => g.ctx.sub(a, b),
                        _ => g.ctx.mul(a, b),
                    }
                }
            };
            let iw = inner.get_bv_type(g.ctx).unwrap();
            let lo = if g.rng.chance(1, 2) { 0 } else { g.rng.below(iw as u64) as WidthInt };
            let hi = lo + g.rng.below((iw - lo) as u64) as WidthInt;
            g.ctx.slice(inner, hi, lo)
        }
        53..=55 => {
            let a = if g.rng.chance(1, 4) { lit(g, w) } else { g.gen_bv(w, d) };
            let v = shift_amount(g.rng, w);
            let b = g.ctx.bv_lit(&v);
            match shape {
                53 => g.ctx.shift_left(a, b),
                54 => g.ctx.shift_right(a, b),
                _ => g.ctx.arithmetic_shift_right(a, b),
            }
        }
        56 | 57 => {
            let a = if g.rng.chance(1, 2) { lit(g, w) } else { g.gen_bv(w, d) };
            let b = match g.rng.below(3) {
                0 => g.ctx.zero(w),
                1 => lit(g, w),
                _ => g.gen_bv(w, d),
            };
            let (x, y) = if g.rng.chance(1, 2) { (a, b) } else { (b, a) };
            if shape == 56 { g.ctx.add(x, y) } else { g.ctx.mul(x, y) }
        }
        58 => {
            // mul by 0 / 1 / power of two / other literal
            let a = g.gen_bv(w2, d);
            let l = match g.rng.below(4) {
                0 => g.ctx.zero(w2),
                1 => g.ctx.one(w2),
                2 => {
                    let k = g.rng.below(w2 as u64) as WidthInt;
                    let mut v = BitVecValue::zero(w2);
                    baa::BitVecMutOps::set_bit(&mut v, k);
                    g.ctx.bv_lit(&v)
                }
                _ => lit(g, w2),
            };
            if g.rng.chance(1, 2) { g.ctx.mul(a, l) } else { g.ctx.mul(l, a) }
        }
        59 => {
            let a = g.gen_bv(1, d);
            let b = g.gen_bv(1, d);
            g.ctx.implies(a, b)
        }
        60 => {
            // literal x literal multiplication, also above 128 bits
            let ww = *g.rng.pick(&[8u32, 64, 65, 128, 129]);
            let a = lit(g, ww);
            let b = lit(g, ww);
            g.ctx.mul(a, b)
        }
        _ => {
            let w = g.pick_width();
            g.gen_bv(w, 2)
        }
    };
    // wrap in a context some of the time
    if g.rng.chance(1, 3) {
        if let Some(w) = e.get_bv_type(g.ctx) {
            let other = g.gen_bv(w, 1);
            return match g.rng.below(4) {
                0 => g.ctx.and(e, other),
                1 => g.ctx.xor(other, e),
                2 => {
                    let c = g.gen_bv(1, 1);
                    g.ctx.ite(c, e, other)
                }
                _ => g.ctx.not(e),
            };
        }
    }
    e
}

fn type_checks(ctx: &Context, e: ExprRef) -> bool {
    collect_nodes(ctx, e).iter().all(|n| n.type_check(ctx).is_ok())
}

fn run_case(id: &str, mut ctx: Context, e: ExprRef, stats: &mut Stats) -> String {
    let e_txt = dump_expr(&ctx, e);
    // 1. single-expression entry point (sparse cache)
    let r1 = guarded(|| simplify_single_expression(&mut ctx, e));
    let mut loc = String::new();
    let impl_txt = match &r1 {
        Ok(r) => dump_expr(&ctx, *r),
        Err(_) => {
            loc = last_panic_loc();
            stats.inc("impl_panics");
            "(panic)".to_string()
        }
    };
    // 2. dense cache
    let r2 = guarded(|| {
        let mut s = Simplifier::new(DenseExprMetaData::default());
        s.simplify(&mut ctx, e)
    });
    let dense_txt = match (&r1, &r2) {
        (Ok(a), Ok(b)) if a == b => "same".to_string(),
        (Err(_), Err(_)) => "same".to_string(),
        (_, Ok(b)) => dump_expr(&ctx, *b),
        (_, Err(_)) => "(panic)".to_string(),
    };
    // 3. the implementation's own type checker on every node of the result, and the result type
    let (tc, ty) = match &r1 {
        Ok(r) => (if type_checks(&ctx, *r) { "ok" } else { "fail" }, if r.get_type(&ctx) == e.get_type(&ctx) { "same" } else { "changed" }),
        Err(_) => ("na", "na"),
    };
    // 4. simplifying the result again returns the same reference
    let again = match &r1 {
        Ok(r) => match guarded(|| simplify_single_expression(&mut ctx, *r)) {
            Ok(r3) if r3 == *r => "same".to_string(),
            Ok(r3) => dump_expr(&ctx, r3),
            Err(_) => "(panic)".to_string(),
        },
        Err(_) => "na".to_string(),
    };
    stats.bump("result", if impl_txt == e_txt { "unchanged" } else if impl_txt == "(panic)" { "panic" } else { "rewritten" });
    format!("(case {id} (expr {e_txt}) (impl {impl_txt}) (impl_dense {dense_txt}) (tc {tc}) (ty {ty}) (again {again}) (panicloc {}))", quote(&loc))
}
