//! C19: arithmetic e-graph rewrites (patronus-egraphs).  One case per line, `(kind K)` selects:
//!
//! (case ID (kind table) (rules (rule "name" LHS RHS) ...))
//!     the pattern ASTs of `create_rewrites()` ("generated facts")
//! (case ID (kind cond) (rule "name") (assign ("?wo" 3) ...) (impl true|false|(panic)))
//!     `ArithRewrite::eval_condition` on one width/sign assignment
//! (case ID (kind inst) (rule "name") (assign ..) (lhs ARITH) (rhs ARITH) (cond ..)
//!          (impl_lhs EXPR|(panic)) (impl_rhs EXPR|(panic)) (syms ("a" 3) ..) (exhaustive 0|1)
//!          (vals (va vb .. l r) ...))
//!     both patterns instantiated (as tools/egraphs-cond-synth/src/samples.rs does), lowered with the
//!     real `from_arith`, evaluated with the real `eval_expr` on operand values
//! (case ID (kind roundtrip) (expr E) (impl_arith ARITH|(panic)) (impl_back EXPR|(panic)) (same_ref 0|1)
//!          (syms ("x" 3) ..) (vals (v1 .. l r) ...))
//!     `to_arith` / `from_arith` on a generated expression; l = value of E, r = value of the result
//! (case ID (kind lower) (arith ARITH) (impl EXPR|(panic)))
//!     `from_arith` on a hand-made or randomly damaged term (model fidelity outside the rule shapes)
//!
//! ARITH: (OP c0 .. c6) with OP in + - * << >> >>>, (max+1 a b), (wlsh a b), (W n), (sign), (unsign),
//!        (const n), (symbol "x"), (var "?x").
use crate::dump::*;
use crate::exprgen::lit_value;
use crate::rng::Rng;
use crate::sexp::{Sexp, build_expr, read_cases};
use crate::util::*;
use baa::{BitVecOps, BitVecValue, Value};
use egg::{ENodeOrVar, Id, Language, PatternAst, RecExpr, Var};
use patronus::expr::*;
use patronus_egraphs::*;
use std::collections::{BTreeMap, BTreeSet, HashSet};
use std::io::Write;
use std::str::FromStr;

// ------------------------------------------------------------------------------------------ dumping

fn arith_head(n: &Arith, out: &mut String) -> bool {
    // returns true when the node has children (which the caller prints)
    match n {
        Arith::Add(_) => out.push_str("(+"),
        Arith::Sub(_) => out.push_str("(-"),
        Arith::Mul(_) => out.push_str("(*"),
        Arith::LeftShift(_) => out.push_str("(<<"),
        Arith::RightShift(_) => out.push_str("(>>"),
        Arith::ArithmeticRightShift(_) => out.push_str("(>>>"),
        Arith::WidthMaxPlus1(_) => out.push_str("(max+1"),
        Arith::WidthLeftShift(_) => out.push_str("(wlsh"),
        Arith::Width(w) => {
            let w: WidthInt = (*w).into();
            out.push_str(&format!("(W {w})"));
            return false;
        }
        Arith::Sign(Sign::Signed) => {
            out.push_str("(sign)");
            return false;
        }
        Arith::Sign(Sign::Unsigned) => {
            out.push_str("(unsign)");
            return false;
        }
        Arith::Const(v) => {
            out.push_str(&format!("(const {v})"));
            return false;
        }
        Arith::Symbol(s) => {
            out.push_str(&format!("(symbol {})", quote(s)));
            return false;
        }
    }
    true
}

fn dump_arith_rec(nodes: &[Arith], i: usize, out: &mut String) {
    let n = &nodes[i];
    if arith_head(n, out) {
        for c in n.children() {
            out.push(' ');
            dump_arith_rec(nodes, usize::from(*c), out);
        }
        out.push(')');
    }
}

pub fn dump_arith(e: &RecExpr<Arith>) -> String {
    let nodes = e.as_ref();
    let mut s = String::new();
    dump_arith_rec(nodes, nodes.len() - 1, &mut s);
    s
}

fn dump_pat_rec(nodes: &[ENodeOrVar<Arith>], i: usize, out: &mut String) {
    match &nodes[i] {
        ENodeOrVar::Var(v) => out.push_str(&format!("(var {})", quote(&v.to_string()))),
        ENodeOrVar::ENode(n) => {
            if arith_head(n, out) {
                for c in n.children() {
                    out.push(' ');
                    dump_pat_rec(nodes, usize::from(*c), out);
                }
                out.push(')');
            }
        }
    }
}

fn dump_pat(p: &PatternAst<Arith>) -> String {
    let nodes = p.as_ref();
    let mut s = String::new();
    dump_pat_rec(nodes, nodes.len() - 1, &mut s);
    s
}

/// rebuild a ground term from its dump (replay)
fn build_arith(x: &Sexp, out: &mut RecExpr<Arith>) -> Id {
    let l = x.list();
    let tag = l[0].atom();
    let mut kids = |out: &mut RecExpr<Arith>| -> Vec<Id> { l[1..].iter().map(|c| build_arith(c, out)).collect() };
    let node = match tag {
        "W" => Arith::from(l[1].num() as WidthInt),
        "sign" => Arith::Sign(Sign::Signed),
        "unsign" => Arith::Sign(Sign::Unsigned),
        "const" => Arith::Const(l[1].num()),
        "symbol" => Arith::Symbol(l[1].atom().to_string()),
        "max+1" => {
            let k = kids(out);
            Arith::WidthMaxPlus1([k[0], k[1]])
        }
        "wlsh" => {
            let k = kids(out);
            Arith::WidthLeftShift([k[0], k[1]])
        }
        op => {
            let k = kids(out);
            let a: [Id; 7] = [k[0], k[1], k[2], k[3], k[4], k[5], k[6]];
            match op {
                "+" => Arith::Add(a),
                "-" => Arith::Sub(a),
                "*" => Arith::Mul(a),
                "<<" => Arith::LeftShift(a),
                ">>" => Arith::RightShift(a),
                ">>>" => Arith::ArithmeticRightShift(a),
                other => panic!("unknown arith tag {other}"),
            }
        }
    };
    out.add(node)
}

// ------------------------------------------------------------------------------------------ rules

struct RuleVars {
    widths: Vec<String>,
    signs: Vec<String>,
    others: Vec<String>,
}

fn rule_vars(r: &ArithRewrite) -> RuleVars {
    let (l, rr) = r.patterns();
    let mut all = BTreeSet::new();
    for p in [l, rr] {
        for n in p.as_ref() {
            if let ENodeOrVar::Var(v) = n {
                all.insert(v.to_string());
            }
        }
    }
    let mut rv = RuleVars { widths: vec![], signs: vec![], others: vec![] };
    for v in all {
        match v.chars().nth(1) {
            Some('w') => rv.widths.push(v),
            Some('s') => rv.signs.push(v),
            _ => rv.others.push(v),
        }
    }
    rv
}

type Asg = Vec<(String, WidthInt)>;

fn asg_txt(a: &Asg) -> String {
    a.iter().map(|(k, v)| format!(" ({} {})", quote(k), v)).collect()
}

fn parse_asg(items: &[Sexp]) -> Asg {
    items.iter().map(|p| (p.list()[0].atom().to_string(), p.list()[1].num() as WidthInt)).collect()
}

fn egg_asg(a: &Asg) -> Vec<(Var, WidthInt)> {
    a.iter().map(|(k, v)| (Var::from_str(k).unwrap(), *v)).collect()
}

/// samples.rs: gen_substitution + instantiate_pattern
fn instantiate(p: &PatternAst<Arith>, a: &Asg) -> RecExpr<Arith> {
    let m: BTreeMap<&str, WidthInt> = a.iter().map(|(k, v)| (k.as_str(), *v)).collect();
    let mut out = RecExpr::default();
    for el in p.as_ref() {
        let node = match el {
            ENodeOrVar::ENode(n) => n.clone(),
            ENodeOrVar::Var(v) => {
                let name = v.to_string();
                match name.chars().nth(1) {
                    Some('w') => Arith::from(m[name.as_str()]),
                    Some('s') => match m[name.as_str()] {
                        0 => Arith::Sign(Sign::Unsigned),
                        _ => Arith::Sign(Sign::Signed),
                    },
                    _ => Arith::Symbol(name.chars().skip(1).collect()),
                }
            }
        };
        out.add(node);
    }
    out
}

fn cond_txt(r: &ArithRewrite, a: &Asg) -> String {
    let ea = egg_asg(a);
    match guarded(|| r.eval_condition(&ea)) {
        Ok(true) => "true".into(),
        Ok(false) => "false".into(),
        Err(_) => "(panic)".into(),
    }
}

fn table_case(id: &str) -> String {
    let mut s = format!("(case {id} (kind table) (rules");
    for r in create_rewrites() {
        let (l, rr) = r.patterns();
        s.push_str(&format!(" (rule {} {} {})", quote(r.name()), dump_pat(l), dump_pat(rr)));
    }
    s.push_str("))");
    s
}

fn cond_case(id: &str, r: &ArithRewrite, a: &Asg) -> String {
    format!("(case {id} (kind cond) (rule {}) (assign{}) (impl {}))", quote(r.name()), asg_txt(a), cond_txt(r, a))
}

fn collect_syms(ctx: &Context, e: ExprRef, acc: &mut BTreeMap<(String, WidthInt), ExprRef>) {
    for s in crate::exprgen::collect_symbols(ctx, e) {
        if let Expr::BVSymbol { name, width } = &ctx[s] {
            acc.insert((ctx[*name].to_string(), *width), s);
        }
    }
}

fn bv_of_u64(v: u64, w: WidthInt) -> BitVecValue {
    BitVecValue::from_u64(v, w)
}

/// value tuples for the symbols: exhaustive when the total number of bits is at most `exh_bits`
fn value_tuples(rng: &mut Rng, widths: &[WidthInt], exh_bits: u32, n_samples: usize) -> (bool, Vec<Vec<BitVecValue>>) {
    let total: u32 = widths.iter().sum();
    if total <= exh_bits {
        let mut out = vec![];
        for k in 0..(1u64 << total) {
            let mut rest = k;
            let mut t = vec![];
            for w in widths {
                t.push(bv_of_u64(rest & ((1u64 << w) - 1), *w));
                rest >>= w;
            }
            out.push(t);
        }
        (true, out)
    } else {
        let mut out: Vec<Vec<BitVecValue>> = vec![];
        // corners first: all zero, all ones, msb only, one
        out.push(widths.iter().map(|w| BitVecValue::zero(*w)).collect());
        out.push(widths.iter().map(|w| BitVecValue::ones(*w)).collect());
        out.push(
            widths
                .iter()
                .map(|w| {
                    let mut b = vec![b'0'; *w as usize];
                    b[0] = b'1';
                    BitVecValue::from_bit_str(std::str::from_utf8(&b).unwrap()).unwrap()
                })
                .collect(),
        );
        out.push(widths.iter().map(|w| bv_of_u64(1, *w)).collect());
        while out.len() < n_samples {
            out.push(widths.iter().map(|w| lit_value(rng, *w)).collect());
        }
        (false, out)
    }
}

fn eval_txt(ctx: &Context, pairs: &[(ExprRef, BitVecValue)], e: Option<ExprRef>) -> String {
    match e {
        None => "x".into(),
        Some(e) => match guarded(|| eval_expr(ctx, pairs, e)) {
            Ok(Value::BitVec(v)) => bv_tok(&v),
            Ok(_) => "array".into(),
            Err(_) => "panic".into(),
        },
    }
}

struct InstOpts {
    exh_bits: u32,
    samples_true: usize,
    samples_false: usize,
    /// widths above this are lowered but not evaluated
    eval_max_width: WidthInt,
}

fn inst_case(id: &str, r: &ArithRewrite, a: &Asg, fixed_vals: Option<&[Sexp]>, opts: &InstOpts, rng: &mut Rng, stats: &mut Stats) -> String {
    let (lp, rp) = r.patterns();
    let lhs = instantiate(lp, a);
    let rhs = instantiate(rp, a);
    let cond = cond_txt(r, a);
    let mut ctx = Context::default();
    let el = guarded(|| from_arith(&mut ctx, &lhs));
    let loc_l = if el.is_err() { last_panic_loc() } else { String::new() };
    let er = guarded(|| from_arith(&mut ctx, &rhs));
    let loc_r = if er.is_err() { last_panic_loc() } else { String::new() };
    let show = |ctx: &Context, e: &Result<ExprRef, String>| match e {
        Ok(e) => dump_expr(ctx, *e),
        Err(_) => "(panic)".to_string(),
    };
    let mut syms = BTreeMap::new();
    for e in [&el, &er] {
        if let Ok(e) = e {
            collect_syms(&ctx, *e, &mut syms);
        }
    }
    let sym_list: Vec<((String, WidthInt), ExprRef)> = syms.into_iter().collect();
    let widths: Vec<WidthInt> = sym_list.iter().map(|((_, w), _)| *w).collect();
    let max_w = {
        let mut m = widths.iter().copied().max().unwrap_or(0);
        for e in [&el, &er] {
            if let Ok(e) = e {
                for n in crate::exprgen::collect_nodes(&ctx, *e) {
                    if let Some(w) = n.get_bv_type(&ctx) {
                        m = m.max(w);
                    }
                }
            }
        }
        m
    };
    let (exhaustive, tuples): (bool, Vec<Vec<BitVecValue>>) = if let Some(vs) = fixed_vals {
        (false, vs.iter().map(|t| t.list()[..widths.len()].iter().map(|x| x.bits()).collect()).collect())
    } else if max_w > opts.eval_max_width || sym_list.is_empty() {
        (false, vec![])
    } else {
        let n = if cond == "true" { opts.samples_true } else { opts.samples_false };
        let exh = if cond == "true" { opts.exh_bits } else { opts.exh_bits.min(6) };
        value_tuples(rng, &widths, exh, n)
    };
    let mut vals = String::new();
    let mut differ = false;
    for t in tuples.iter() {
        let pairs: Vec<(ExprRef, BitVecValue)> = sym_list.iter().zip(t.iter()).map(|((_, s), v)| (*s, v.clone())).collect();
        let l = eval_txt(&ctx, &pairs, el.as_ref().ok().copied());
        let rr = eval_txt(&ctx, &pairs, er.as_ref().ok().copied());
        if l != rr {
            differ = true;
        }
        vals.push_str(" (");
        for v in t {
            vals.push_str(&bv_tok(v));
            vals.push(' ');
        }
        vals.push_str(&format!("{l} {rr})"));
    }
    stats.bump("inst_rule_cond", &format!("{}:{}", r.name(), cond));
    if cond == "false" {
        stats.bump("inst_cond_false_sides", if differ { "differ-on-some-value" } else { "agree-on-all-tried-values" });
    }
    stats.bump("inst_values", if tuples.is_empty() { "lowered-only" } else if exhaustive { "exhaustive" } else { "sampled" });
    stats.add("inst_value_tuples", tuples.len() as u64);
    stats.bump("inst_max_width", &width_bucket(max_w));
    let syms_txt: String = sym_list.iter().map(|((n, w), _)| format!(" ({} {})", quote(n), w)).collect();
    format!(
        "(case {id} (kind inst) (rule {}) (assign{}) (lhs {}) (rhs {}) (cond {cond}) (impl_lhs {}) (impl_rhs {}) (syms{syms_txt}) (exhaustive {}) (vals{vals}) (panicloc {} {}))",
        quote(r.name()),
        asg_txt(a),
        dump_arith(&lhs),
        dump_arith(&rhs),
        show(&ctx, &el),
        show(&ctx, &er),
        exhaustive as u8,
        quote(&loc_l),
        quote(&loc_r)
    )
}

fn width_bucket(w: WidthInt) -> String {
    match w {
        0..=8 => format!("{w}"),
        9..=16 => "9-16".into(),
        17..=32 => "17-32".into(),
        33..=64 => "33-64".into(),
        65..=128 => "65-128".into(),
        129..=4096 => "129-4096".into(),
        _ => ">4096".into(),
    }
}

/// all assignments with every width in 1..=bound and both signs (samples.rs: get_assignment)
fn all_assignments(rv: &RuleVars, bound: WidthInt) -> Vec<Asg> {
    let nw = rv.widths.len() as u32;
    let ns = rv.signs.len() as u32;
    let total = (bound as u64).pow(nw) * 2u64.pow(ns);
    let mut out = Vec::with_capacity(total as usize);
    for mut idx in 0..total {
        let mut a: Asg = vec![];
        for w in rv.widths.iter() {
            a.push((w.clone(), (idx % bound as u64) as WidthInt + 1));
            idx /= bound as u64;
        }
        for s in rv.signs.iter() {
            a.push((s.clone(), (idx % 2) as WidthInt));
            idx /= 2;
        }
        out.push(a);
    }
    out
}

fn set(a: &mut Asg, k: &str, v: WidthInt) {
    for (n, x) in a.iter_mut() {
        if n == k {
            *x = v;
        }
    }
}

fn get(a: &Asg, k: &str) -> WidthInt {
    a.iter().find(|(n, _)| n == k).map(|(_, v)| *v).unwrap_or(0)
}

/// a random assignment with widths up to `maxw`, pushed towards satisfying the rule's side condition
fn directed_assignment(rng: &mut Rng, r: &ArithRewrite, rv: &RuleVars, maxw: WidthInt) -> Asg {
    let pick = |rng: &mut Rng, hi: WidthInt| -> WidthInt {
        let hi = hi.max(1);
        match rng.below(4) {
            0 => rng.range(1, (hi as u64).min(4)) as WidthInt,
            1 => rng.range(1, (hi as u64).min(8)) as WidthInt,
            _ => rng.range(1, hi as u64) as WidthInt,
        }
    };
    let mut a: Asg = vec![];
    for w in rv.widths.iter() {
        a.push((w.clone(), pick(rng, maxw)));
    }
    for s in rv.signs.iter() {
        a.push((s.clone(), rng.below(2) as WidthInt));
    }
    let want_true = rng.chance(5, 6);
    match r.name() {
        "merge-left-shift" => {
            // shift amounts are values: keep their widths small enough for the result to stay evaluable
            set(&mut a, "?wb", rng.range(1, 7) as WidthInt);
            set(&mut a, "?wc", rng.range(1, 7) as WidthInt);
            if want_true {
                let wo = get(&a, "?wo");
                set(&mut a, "?wab", wo + rng.below(1 + (maxw as u64).saturating_sub(wo as u64).min(9)) as WidthInt);
            }
        }
        "unmerge-left-shift" => {
            let wb = rng.range(1, 6) as WidthInt;
            let wc = rng.range(1, 6) as WidthInt;
            set(&mut a, "?wb", wb);
            set(&mut a, "?wc", wc);
            if want_true {
                set(&mut a, "?wbc", wb.max(wc) + 1 + rng.below(4) as WidthInt);
            } else {
                set(&mut a, "?wbc", rng.range(1, 8) as WidthInt);
            }
        }
        "left-shift-mult" => {
            let wc = rng.range(1, 5) as WidthInt;
            let wa = rng.range(1, (maxw as u64 / 3).max(1)) as WidthInt;
            let wb = rng.range(1, (maxw as u64 / 3).max(1)) as WidthInt;
            set(&mut a, "?wc", wc);
            set(&mut a, "?wa", wa);
            set(&mut a, "?wb", wb);
            if want_true {
                let wab = wa + wb + rng.below(3) as WidthInt;
                set(&mut a, "?wab", wab);
                set(&mut a, "?wo", wab + (1 << wc) - 1 + rng.below(3) as WidthInt);
            }
        }
        "mult-to-add" => {
            if rng.chance(1, 3) {
                set(&mut a, "?wb", rng.range(1, 3) as WidthInt);
            }
        }
        _ => {}
    }
    a
}

/// assignments at the edge of `u32`: the terms are lowered (never evaluated)
fn extreme_assignments(r: &ArithRewrite, rv: &RuleVars, rng: &mut Rng, n: usize) -> Vec<Asg> {
    let pool: [WidthInt; 10] = [1, 2, 31, 32, 33, 64, 1 << 16, (1u32 << 31) - 1, u32::MAX - 1, u32::MAX];
    let mut out = vec![];
    for _ in 0..n {
        let mut a: Asg = vec![];
        for w in rv.widths.iter() {
            let mut v = *rng.pick(&pool);
            // the constant 2 of mult-to-add is materialised as a literal of ?wb bits: keep that allocation small
            if r.name() == "mult-to-add" && w == "?wb" {
                v = v.min(1 << 16);
            }
            a.push((w.clone(), v));
        }
        for s in rv.signs.iter() {
            a.push((s.clone(), rng.below(2) as WidthInt));
        }
        out.push(a);
    }
    out
}

// ------------------------------------------------------------------------------------------ round trip

const RT_WIDTHS: &[WidthInt] = &[1, 1, 2, 2, 3, 4, 5, 6, 7, 8, 8, 16, 31, 32, 33, 63, 64, 65, 127, 128];

struct RtGen<'a> {
    ctx: &'a mut Context,
    rng: &'a mut Rng,
    feat: Vec<String>,
}

impl<'a> RtGen<'a> {
    fn sym(&mut self, w: WidthInt) -> ExprRef {
        let names = ["x", "y", "z", "u"];
        let n = *self.rng.pick(&names);
        self.ctx.bv_symbol(n, w)
    }
    /// a non-extension expression of width w
    fn core(&mut self, w: WidthInt, depth: u32, outside: bool) -> ExprRef {
        self.core_at(w, depth, outside, false)
    }
    fn core_at(&mut self, w: WidthInt, depth: u32, outside: bool, root: bool) -> ExprRef {
        if depth == 0 || (!root && self.rng.chance(1, 4)) {
            if outside && self.rng.chance(1, 3) {
                self.feat.push("literal-leaf".into());
                let v = lit_value(self.rng, w);
                return self.ctx.bv_lit(&v);
            }
            return self.sym(w);
        }
        if outside && self.rng.chance(1, 6) {
            self.feat.push("other-op".into());
            let a = self.core(w, depth - 1, false);
            return match self.rng.below(3) {
                0 => self.ctx.not(a),
                1 => self.ctx.negate(a),
                _ => {
                    let b = self.sym(w);
                    self.ctx.and(a, b)
                }
            };
        }
        let a = self.operand(w, depth - 1, outside);
        let b = self.operand(w, depth - 1, outside);
        let op = self.rng.below(6);
        // baa cannot multiply above 128 bits (todo!): stay below
        let op = if op == 2 && w > 128 { 0 } else { op };
        self.feat.push(["add", "sub", "mul", "shl", "lshr", "ashr"][op as usize].into());
        match op {
            0 => self.ctx.add(a, b),
            1 => self.ctx.sub(a, b),
            2 => self.ctx.mul(a, b),
            3 => self.ctx.shift_left(a, b),
            4 => self.ctx.shift_right(a, b),
            _ => self.ctx.arithmetic_shift_right(a, b),
        }
    }
    fn ext(&mut self, e: ExprRef, by: WidthInt, signed: bool) -> ExprRef {
        if signed { self.ctx.sign_extend(e, by) } else { self.ctx.zero_extend(e, by) }
    }
    /// an operand of width w: a core expression under 0, 1, 2 or 3 extensions
    fn operand(&mut self, w: WidthInt, depth: u32, outside: bool) -> ExprRef {
        let n_ext = if w == 1 {
            0
        } else {
            match self.rng.below(20) {
                0..=5 => 0,
                6..=13 => 1,
                14..=17 => 2,
                _ => 3,
            }
        };
        let n_ext = n_ext.min(w - 1);
        if n_ext == 0 {
            self.feat.push("ext0".into());
            return self.core(w, depth, outside);
        }
        // split w into a base width and n_ext positive increments
        let mut cuts: Vec<WidthInt> = vec![];
        let mut left = w;
        for k in 0..n_ext {
            let max_by = left - 1 - (n_ext - 1 - k);
            let by = if self.rng.chance(1, 2) { 1 } else { self.rng.range(1, max_by as u64) as WidthInt };
            cuts.push(by);
            left -= by;
        }
        let base = self.core(left, depth, outside);
        let kinds: Vec<bool> = match self.rng.below(3) {
            0 => vec![false; n_ext as usize],
            1 => vec![true; n_ext as usize],
            _ => (0..n_ext).map(|_| self.rng.chance(1, 2)).collect(),
        };
        let uniform = kinds.iter().all(|k| *k == kinds[0]);
        self.feat.push(format!("ext{}{}", n_ext, if n_ext == 1 { "" } else if uniform { "-uniform" } else { "-mixed" }));
        let mut e = base;
        // innermost extension first; cuts were drawn outermost first
        for (k, by) in cuts.iter().rev().enumerate() {
            e = self.ext(e, *by, kinds[k]);
        }
        e
    }
}

fn gen_roundtrip(rng: &mut Rng, stats: &mut Stats, small: bool) -> (Context, ExprRef) {
    let mut ctx = Context::default();
    let w = if small { rng.range(1, 6) as WidthInt } else { *rng.pick(RT_WIDTHS) };
    let depth = 1 + rng.below(3) as u32;
    let shape = rng.below(40);
    let mut g = RtGen { ctx: &mut ctx, rng, feat: vec![] };
    let root = match shape {
        0 => {
            g.feat.push("root-symbol".into());
            g.sym(w)
        }
        1 => {
            g.feat.push("root-extension".into());
            let inner = g.core(w, depth, false);
            g.ext(inner, 2, shape % 2 == 0)
        }
        2 | 3 => g.core_at(w, depth, true, true),
        _ => g.core_at(w, depth, false, true),
    };
    for f in g.feat.iter() {
        stats.bump("roundtrip_features", f);
    }
    (ctx, root)
}

fn roundtrip_case(id: &str, ctx: &mut Context, root: ExprRef, fixed_vals: Option<&[Sexp]>, rng: &mut Rng, stats: &mut Stats) -> String {
    let ar = guarded(|| to_arith(ctx, root));
    let loc_a = if ar.is_err() { last_panic_loc() } else { String::new() };
    let back: Result<ExprRef, String> = match &ar {
        Ok(t) => guarded(|| from_arith(ctx, t)),
        Err(m) => Err(m.clone()),
    };
    let loc_b = if ar.is_ok() && back.is_err() { last_panic_loc() } else { String::new() };
    let mut syms = BTreeMap::new();
    collect_syms(ctx, root, &mut syms);
    if let Ok(b) = &back {
        collect_syms(ctx, *b, &mut syms);
    }
    let sym_list: Vec<((String, WidthInt), ExprRef)> = syms.into_iter().collect();
    let widths: Vec<WidthInt> = sym_list.iter().map(|((_, w), _)| *w).collect();
    let tuples: Vec<Vec<BitVecValue>> = if let Some(vs) = fixed_vals {
        vs.iter().map(|t| t.list()[..widths.len()].iter().map(|x| x.bits()).collect()).collect()
    } else if back.is_err() {
        vec![]
    } else {
        value_tuples(rng, &widths, 8, 12).1
    };
    let mut vals = String::new();
    for t in tuples.iter() {
        let pairs: Vec<(ExprRef, BitVecValue)> = sym_list.iter().zip(t.iter()).map(|((_, s), v)| (*s, v.clone())).collect();
        let l = eval_txt(ctx, &pairs, Some(root));
        let r = eval_txt(ctx, &pairs, back.as_ref().ok().copied());
        vals.push_str(" (");
        for v in t {
            vals.push_str(&bv_tok(v));
            vals.push(' ');
        }
        vals.push_str(&format!("{l} {r})"));
    }
    stats.bump("roundtrip_outcome", match (&ar, &back) {
        (Err(_), _) => "to_arith-panics",
        (Ok(_), Err(_)) => "from_arith-panics",
        (Ok(_), Ok(b)) if *b == root => "same-expression",
        _ => "different-expression",
    });
    stats.bump("roundtrip_root_width", &width_bucket(root.get_bv_type(ctx).unwrap_or(0)));
    let syms_txt: String = sym_list.iter().map(|((n, w), _)| format!(" ({} {})", quote(n), w)).collect();
    format!(
        "(case {id} (kind roundtrip) (expr {}) (impl_arith {}) (impl_back {}) (same_ref {}) (syms{syms_txt}) (vals{vals}) (panicloc {} {}))",
        dump_expr(ctx, root),
        match &ar {
            Ok(t) => dump_arith(t),
            Err(_) => "(panic)".into(),
        },
        match &back {
            Ok(b) => dump_expr(ctx, *b),
            Err(_) => "(panic)".into(),
        },
        matches!(&back, Ok(b) if *b == root) as u8,
        quote(&loc_a),
        quote(&loc_b)
    )
}

// ------------------------------------------------------------------------------------------ lower

fn lower_case(id: &str, t: &RecExpr<Arith>, stats: &mut Stats) -> String {
    let mut ctx = Context::default();
    let r = guarded(|| from_arith(&mut ctx, t));
    let loc = if r.is_err() { last_panic_loc() } else { String::new() };
    stats.bump("lower_outcome", if r.is_ok() { "ok" } else { "panic" });
    format!(
        "(case {id} (kind lower) (arith {}) (impl {}) (panicloc {}))",
        dump_arith(t),
        match &r {
            Ok(e) => dump_expr(&ctx, *e),
            Err(_) => "(panic)".into(),
        },
        quote(&loc)
    )
}

/// random, mostly ill-shaped ground terms: any node kind in any child position
/// value of a width term if it is one (mirror of get_width, used only to steer the generator away from
/// literals of absurd widths)
fn wild_width(nodes: &[Arith], i: usize) -> Option<u64> {
    match &nodes[i] {
        Arith::Width(w) => {
            let w: WidthInt = (*w).into();
            Some(w as u64)
        }
        Arith::WidthMaxPlus1([a, b]) => Some(wild_width(nodes, usize::from(*a))?.max(wild_width(nodes, usize::from(*b))?) + 1),
        Arith::WidthLeftShift([a, b]) => {
            let (a, b) = (wild_width(nodes, usize::from(*a))?, wild_width(nodes, usize::from(*b))?);
            if b >= 32 { Some(u32::MAX as u64) } else { Some(a + (1u64 << b) - 1) }
        }
        _ => None,
    }
}

fn gen_wild(rng: &mut Rng, out: &mut RecExpr<Arith>, depth: u32, pos: usize) -> Id {
    gen_wild_w(rng, out, depth, pos, true, None)
}

/// `want`: the width the parent declares for this operand (a nested operation usually gets it as its
/// output width, otherwise the debug assertion in `extend` fires and nothing deeper is exercised)
fn gen_wild_w(rng: &mut Rng, out: &mut RecExpr<Arith>, depth: u32, pos: usize, allow_const: bool, want: Option<u64>) -> Id {
    // pos: 0 width position, 1 sign position, 2 operand position
    let well = rng.chance(11, 12);
    let kind = if well {
        match pos {
            0 => {
                if depth > 0 && rng.chance(1, 4) { 10 + rng.below(2) } else { 0 }
            }
            1 => 1,
            _ => {
                if depth > 0 && rng.chance(1, 2) { 20 } else if rng.chance(1, 6) { 2 } else { 3 }
            }
        }
    } else {
        *rng.pick(&[0u64, 1, 2, 3, 10, 11, 20])
    };
    let kind = if kind == 2 && !allow_const { 3 } else { kind };
    let widths: [WidthInt; 12] = [0, 1, 1, 2, 2, 3, 3, 5, 8, 32, 32, 33];
    match kind {
        0 => out.add(Arith::from(*rng.pick(&widths))),
        1 => out.add(Arith::Sign(if rng.chance(1, 2) { Sign::Signed } else { Sign::Unsigned })),
        2 => out.add(Arith::Const(*rng.pick(&[0u64, 1, 2, 3, 255, 1 << 32, u64::MAX]))),
        3 => out.add(Arith::Symbol((*rng.pick(&["a", "b", "c"])).to_string())),
        10 | 11 => {
            let a = gen_wild(rng, out, depth.saturating_sub(1), 0);
            let b = gen_wild(rng, out, depth.saturating_sub(1), 0);
            out.add(if kind == 10 { Arith::WidthMaxPlus1([a, b]) } else { Arith::WidthLeftShift([a, b]) })
        }
        _ => {
            let d = depth.saturating_sub(1);
            let c0 = match want {
                Some(w) if w <= u32::MAX as u64 && rng.chance(9, 10) => out.add(Arith::from(w as WidthInt)),
                _ => gen_wild(rng, out, d, 0),
            };
            let c1 = gen_wild(rng, out, d, 0);
            let c2 = gen_wild(rng, out, d, 1);
            let wa = wild_width(out.as_ref(), usize::from(c1));
            let small_a = wa.map(|w| w <= 4096).unwrap_or(true);
            let c3 = gen_wild_w(rng, out, d, 2, small_a, wa);
            let c4 = gen_wild(rng, out, d, 0);
            let c5 = gen_wild(rng, out, d, 1);
            let wb = wild_width(out.as_ref(), usize::from(c4));
            let small_b = wb.map(|w| w <= 4096).unwrap_or(true);
            let c6 = gen_wild_w(rng, out, d, 2, small_b, wb);
            let c = [c0, c1, c2, c3, c4, c5, c6];
            out.add(match rng.below(6) {
                0 => Arith::Add(c),
                1 => Arith::Sub(c),
                2 => Arith::Mul(c),
                3 => Arith::LeftShift(c),
                4 => Arith::RightShift(c),
                _ => Arith::ArithmeticRightShift(c),
            })
        }
    }
}

// ------------------------------------------------------------------------------------------ driver

fn replay_case(c: &Sexp, rng: &mut Rng, stats: &mut Stats) -> String {
    let id = c.list()[1].atom().to_string();
    let kind = c.field("kind").map(|k| k[0].atom().to_string()).unwrap_or_default();
    let rules = create_rewrites();
    let find = |name: &str| rules.iter().find(|r| r.name() == name);
    match kind.as_str() {
        "table" => table_case(&id),
        "cond" => {
            let name = c.field("rule").unwrap()[0].atom();
            let a = parse_asg(c.field("assign").unwrap());
            match find(name) {
                Some(r) => cond_case(&id, r, &a),
                None => format!("(case {id} (kind cond) (rule {}) (assign{}) (impl (norule)))", quote(name), asg_txt(&a)),
            }
        }
        "inst" => {
            let name = c.field("rule").unwrap()[0].atom();
            let a = parse_asg(c.field("assign").unwrap());
            // with a (vals ..) field: exactly those operand tuples; without: fresh samples (used by the search
            // that turns diverging side-condition cases into evaluated instances)
            let opts = InstOpts { exh_bits: 10, samples_true: 48, samples_false: 8, eval_max_width: 4096 };
            match find(name) {
                Some(r) => inst_case(&id, r, &a, c.field("vals"), &opts, rng, stats),
                None => format!("(case {id} (kind inst) (rule {}) (assign{}) (norule))", quote(name), asg_txt(&a)),
            }
        }
        "roundtrip" => {
            let mut ctx = Context::default();
            let root = build_expr(&mut ctx, &c.field("expr").unwrap()[0]);
            roundtrip_case(&id, &mut ctx, root, Some(c.field("vals").unwrap_or(&[])), rng, stats)
        }
        "lower" => {
            let mut t = RecExpr::default();
            build_arith(&c.field("arith").unwrap()[0], &mut t);
            lower_case(&id, &t, stats)
        }
        other => panic!("unknown case kind {other}"),
    }
}

pub fn run(args: &Args) {
    let mut rng = Rng::new(args.seed);
    let mut out = std::io::BufWriter::new(std::fs::File::create(&args.out).expect("out file"));
    let mut stats = Stats::default();
    let mut distinct: HashSet<String> = HashSet::new();
    let mut emit = |line: String, stats: &mut Stats, out: &mut std::io::BufWriter<std::fs::File>| {
        // distinct inputs: the line without its id
        let key = line.splitn(3, ' ').nth(2).unwrap_or("").to_string();
        let kind = key.split(')').next().unwrap_or("").trim_start_matches("(kind ").to_string();
        stats.bump("kind", &kind);
        if distinct.insert(key) {
            stats.inc("distinct_cases");
        }
        stats.sample(&line, 4);
        writeln!(out, "{line}").unwrap();
    };
    if let Some(path) = args.get("cases-in") {
        for c in read_cases(path).iter() {
            let line = replay_case(c, &mut rng.fork(), &mut stats);
            emit(line, &mut stats, &mut out);
        }
        stats.write(&args.out);
        return;
    }
    let mode = args.get("mode").unwrap_or("table").to_string();
    let rules = create_rewrites();
    let mut next_id = 0u64;
    let mut id = |p: &str| {
        next_id += 1;
        format!("{p}{}", next_id - 1)
    };
    match mode.as_str() {
        "table" => emit(table_case(&id("t")), &mut stats, &mut out),
        "cond" => {
            let bound = args.get_u64("bound", 6) as WidthInt;
            for r in rules.iter() {
                let rv = rule_vars(r);
                for a in all_assignments(&rv, bound) {
                    let line = cond_case(&id("c"), r, &a);
                    stats.bump("cond_rule_result", &format!("{}:{}", r.name(), &line[line.rfind("(impl ").unwrap() + 6..line.len() - 2]));
                    emit(line, &mut stats, &mut out);
                }
                for a in extreme_assignments(r, &rv, &mut rng, args.get_u64("extreme", 40) as usize) {
                    let line = cond_case(&id("cx"), r, &a);
                    stats.bump("cond_extreme_result", &format!("{}:{}", r.name(), &line[line.rfind("(impl ").unwrap() + 6..line.len() - 2]));
                    emit(line, &mut stats, &mut out);
                }
                // widths of every magnitude (log-uniform up to u32::MAX): the closure is only evaluated, nothing is lowered
                for _ in 0..args.get_u64("random", 2000) {
                    let mut a: Asg = vec![];
                    for w in rv.widths.iter() {
                        let bits = rng.range(1, 32);
                        let v = (rng.next_u64() & ((1u64 << bits) - 1)).max(1) as WidthInt;
                        a.push((w.clone(), v));
                    }
                    // related widths are more interesting than independent ones: copy / offset a few
                    if a.len() >= 2 && rng.chance(1, 2) {
                        let i = rng.below(a.len() as u64) as usize;
                        let j = rng.below(a.len() as u64) as usize;
                        let d = rng.below(5) as i64 - 2;
                        a[i].1 = (a[j].1 as i64 + d).clamp(1, u32::MAX as i64) as WidthInt;
                    }
                    for s in rv.signs.iter() {
                        a.push((s.clone(), rng.below(2) as WidthInt));
                    }
                    let line = cond_case(&id("cr"), r, &a);
                    stats.bump("cond_random_result", &format!("{}:{}", r.name(), &line[line.rfind("(impl ").unwrap() + 6..line.len() - 2]));
                    emit(line, &mut stats, &mut out);
                }
            }
        }
        "inst" => {
            let bound = args.get_u64("bound", 4) as WidthInt;
            let opts = InstOpts {
                exh_bits: args.get_u64("exh_bits", 12) as u32,
                samples_true: args.get_u64("samples", 64) as usize,
                samples_false: args.get_u64("samples_false", 8) as usize,
                eval_max_width: 4096,
            };
            for r in rules.iter() {
                if let Some(only) = args.get("rule") {
                    if only != r.name() {
                        continue;
                    }
                }
                let rv = rule_vars(r);
                for a in all_assignments(&rv, bound) {
                    let line = inst_case(&id("i"), r, &a, None, &opts, &mut rng.fork(), &mut stats);
                    emit(line, &mut stats, &mut out);
                }
            }
        }
        "sample" => {
            let maxw = args.get_u64("maxw", 64) as WidthInt;
            let opts = InstOpts {
                exh_bits: args.get_u64("exh_bits", 10) as u32,
                samples_true: args.get_u64("samples", 48) as usize,
                samples_false: args.get_u64("samples_false", 8) as usize,
                eval_max_width: 4096,
            };
            for k in 0..args.count {
                let r = &rules[(k % rules.len() as u64) as usize];
                let rv = rule_vars(r);
                let mut rr = rng.fork();
                let a = if k % 16 == 15 { extreme_assignments(r, &rv, &mut rr, 1).pop().unwrap() } else { directed_assignment(&mut rr, r, &rv, maxw) };
                let line = inst_case(&id("s"), r, &a, None, &opts, &mut rr, &mut stats);
                emit(line, &mut stats, &mut out);
            }
        }
        "roundtrip" => {
            for k in 0..args.count {
                let mut rr = rng.fork();
                let (mut ctx, root) = gen_roundtrip(&mut rr, &mut stats, k % 3 == 0);
                let line = roundtrip_case(&id("r"), &mut ctx, root, None, &mut rr, &mut stats);
                emit(line, &mut stats, &mut out);
            }
        }
        "lower" => {
            for _ in 0..args.count {
                let mut rr = rng.fork();
                let mut t = RecExpr::default();
                if rr.chance(1, 20) {
                    gen_wild(&mut rr, &mut t, 2, 2);
                } else {
                    // rooted at an operation (kind 20 is forced by a non-zero depth and position 2 most of the time)
                    let mut tries = 0;
                    loop {
                        t = RecExpr::default();
                        gen_wild(&mut rr, &mut t, 3, 2);
                        tries += 1;
                        if is_bin_op(t.as_ref().last().unwrap()) || tries > 8 {
                            break;
                        }
                    }
                }
                let line = lower_case(&id("l"), &t, &mut stats);
                emit(line, &mut stats, &mut out);
            }
        }
        other => {
            eprintln!("C19: unknown mode {other}");
            std::process::exit(2);
        }
    }
    stats.write(&args.out);
}
