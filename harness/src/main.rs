//! verif-harness: generates cases, runs the implementation (rebuilt from /repo's working tree
//! through path dependencies), and dumps `(case ...)` lines for the extracted-model driver.
mod dump;
mod exprgen;
mod rng;
mod sexp;
mod util;

mod c06;

fn main() {
    let args = util::Args::parse();
    util::silence_panics();
    match args.prop.as_str() {
        "C06" => c06::run(&args),
        other => {
            eprintln!("unknown property {other}");
            std::process::exit(2);
        }
    }
}
