//! verif-harness: generates cases, runs the implementation (rebuilt from /repo's working tree
//! through path dependencies), and dumps `(case ...)` lines for the extracted-model driver.
#![allow(dead_code, unused_imports, unused_variables, unused_mut)]
mod dump;
mod exprgen;
mod rng;
mod sexp;
mod sysgen;
mod util;

mod c01;
mod c02;
mod c03;
mod c04;
mod c05;
mod c06;
mod c07;
mod c08;
mod c09;
mod c10;
mod c11;
mod c12;
mod c13;
mod c13meta;
mod c14;
mod c15;
mod c16;
mod c17;
mod c18;
mod c19;
mod c20;

fn main() {
    let args = util::Args::parse();
    util::silence_panics();
    match args.prop.as_str() {
        "C01" => c01::run(&args),
        "C02" => c02::run(&args),
        "C03" => c03::run(&args),
        "C04" => c04::run(&args),
        "C05" => c05::run(&args),
        "C06" => c06::run(&args),
        "C07" => c07::run(&args),
        "C08" => c08::run(&args),
        "C09" => c09::run(&args),
        "C10" => c10::run(&args),
        "C11" => c11::run(&args),
        "C12" => c12::run(&args),
        "C13" => c13::run(&args),
        "C14" => c14::run(&args),
        "C15" => c15::run(&args),
        "C16" => c16::run(&args),
        "C17" => c17::run(&args),
        "C18" => c18::run(&args),
        "C19" => c19::run(&args),
        "C20" => c20::run(&args),
        other => {
            eprintln!("unknown property {other}");
            std::process::exit(2);
        }
    }
}
