//! solver-shim: fault-injecting proxy for an SMT-LIB solver process (property C15).
//!
//! Installed under the solver's name (`z3`, `cvc5`) in a private directory that is first on the
//! PATH of the process under test.  It starts the real solver (`SHIM_REAL`, same arguments),
//! forwards every command line, relays every reply, and - told by the environment - misbehaves at
//! the n-th RESPONSE-BEARING point of the conversation (each `(check-sat)`, `(check-sat-assuming ..)`,
//! `(get-value ..)`, `(get-unsat-assumptions)`; patronus has no handshake that reads a reply).
//!
//!   SHIM_REAL   absolute path of the real solver
//!   SHIM_LOG    file the shim appends to (shared by consecutive shim instances of one run, so the
//!               response index is global over solver restarts):
//!                 `P <idx> <kind> <n> <hash> <real reply, escaped>`  one per response point; n = command lines
//!                              received by this instance so far (this one included), hash = FNV-1a of those lines
//!                 `O <bytes written to stdout, escaped>`    everything the client can read, in order
//!                 `X <exit status> <stderr text, escaped>`  the shim terminated itself (fault)
//!                 `E <n>`                                   end of client input (normal shutdown); n = command
//!                                                           lines received by this instance, `(exit)` not counted
//!   SHIM_REPLAY log of the fault-free run of the same conversation.  As long as the commands received are
//!               byte-for-byte those of that run (running hash recorded with each point), its recorded
//!               replies are used and no real solver is started; on the first deviation the real solver is
//!               started, fed everything received so far, and the shim continues live.  (A real solver
//!               needs ~0.5 s per conversation, the conversations of the faulty runs are identical to the
//!               fault-free one up to the fault: this only saves time.  Absent = always live.)
//!   SHIM_AT     global index (0-based) of the response point to corrupt; absent = transparent proxy
//!   SHIM_FAULT  what to do there (see `fault()`)
//!
//! The real reply is always consumed first, so the real solver stays in step with the conversation.
use std::io::{BufRead, BufReader, Read, Write};
use std::process::{Child, Command, Stdio};

fn esc(s: &[u8]) -> String {
    let mut o = String::new();
    for &c in s {
        match c {
            b'\\' => o.push_str("\\\\"),
            b'\n' => o.push_str("\\n"),
            b'\r' => o.push_str("\\r"),
            b'\t' => o.push_str("\\t"),
            c if c < 32 || c > 126 => o.push_str(&format!("\\x{:02x}", c)),
            c => o.push(c as char),
        }
    }
    o
}

struct Real {
    child: Child,
    stdin: std::process::ChildStdin,
    stdout: BufReader<std::process::ChildStdout>,
}

struct Shim {
    log: Option<std::fs::File>,
    real_path: String,
    real_args: Vec<String>,
    real: Option<Real>,
    /// every command line received by this instance
    received: Vec<String>,
    /// how many of them have been forwarded to the real solver
    forwarded: usize,
    /// replies of the real solver consumed so far
    consumed: usize,
    /// response-bearing commands received so far
    asked: usize,
    out: std::io::Stdout,
    /// recorded fault-free run: global index -> (kind, hash, reply)
    replay: std::collections::HashMap<u64, (String, u64, Vec<u8>)>,
    live_starts: u64,
}

fn fnv(h: u64, bytes: &[u8]) -> u64 {
    let mut h = h;
    for &b in bytes {
        h ^= b as u64;
        h = h.wrapping_mul(0x100000001b3);
    }
    h
}

impl Shim {
    fn logln(&mut self, line: &str) {
        if let Some(f) = self.log.as_mut() {
            let _ = writeln!(f, "{line}");
            let _ = f.flush();
        }
    }
    /// write to the client (ignoring a closed pipe) and record exactly what was written
    fn emit(&mut self, bytes: &[u8]) {
        if bytes.is_empty() {
            return;
        }
        self.logln(&format!("O {}", esc(bytes)));
        let mut o = self.out.lock();
        let _ = o.write_all(bytes);
        let _ = o.flush();
    }
    fn go_live(&mut self) {
        if self.real.is_none() {
            let mut child = Command::new(&self.real_path).args(&self.real_args).stdin(Stdio::piped()).stdout(Stdio::piped()).stderr(Stdio::inherit()).spawn().expect("real solver");
            let stdin = child.stdin.take().unwrap();
            let stdout = BufReader::new(child.stdout.take().unwrap());
            self.real = Some(Real { child, stdin, stdout });
            self.live_starts += 1;
            self.logln("L");
        }
        let r = self.real.as_mut().unwrap();
        for l in self.received[self.forwarded..].iter() {
            let _ = r.stdin.write_all(l.as_bytes());
        }
        let _ = r.stdin.flush();
        self.forwarded = self.received.len();
    }
    /// one complete reply of the real solver: lines until the parentheses balance (or EOF)
    fn read_one(&mut self) -> Vec<u8> {
        let r = self.real.as_mut().unwrap();
        let mut buf: Vec<u8> = vec![];
        loop {
            let n = r.stdout.read_until(b'\n', &mut buf).unwrap_or(0);
            if n == 0 {
                break;
            }
            if paren_balance(&buf) <= 0 {
                break;
            }
        }
        self.consumed += 1;
        buf
    }
    /// the real solver's reply to the response-bearing command just received (the `asked`-th one)
    fn real_reply(&mut self) -> Vec<u8> {
        self.go_live();
        let mut last = vec![];
        while self.consumed < self.asked {
            last = self.read_one();
        }
        last
    }
    fn kill_real(&mut self) {
        if let Some(r) = self.real.as_mut() {
            let _ = r.child.kill();
            let _ = r.child.wait();
        }
    }
    /// Terminate in the middle of the conversation, deterministically as seen by the client:
    /// the real solver is killed, the text for stderr is written, then an EMITTER process (this
    /// binary again) inherits stdout and this process exits at once.  The emitter waits a moment,
    /// writes `bytes` and exits.  So when the client reads the bytes (and then end of stream) the
    /// exit status of its child is already available and its stdin pipe is already closed.
    fn die_emitting(&mut self, bytes: &[u8], code: i32, stderr_text: &str) -> ! {
        self.kill_real();
        if !stderr_text.is_empty() {
            let _ = std::io::stderr().write_all(stderr_text.as_bytes());
            let _ = std::io::stderr().flush();
        }
        if !bytes.is_empty() {
            self.logln(&format!("O {}", esc(bytes)));
        }
        self.logln(&format!("X {code} {}", esc(stderr_text.as_bytes())));
        let delay = std::env::var("SHIM_DELAY_MS").unwrap_or_else(|_| "20".into());
        let hex: String = bytes.iter().map(|b| format!("{b:02x}")).collect();
        let me = std::env::current_exe().expect("current_exe");
        let _ = Command::new(me).args(["--shim-emit", &hex, &delay, &std::process::id().to_string()]).stdin(Stdio::null()).stdout(Stdio::inherit()).stderr(Stdio::null()).spawn();
        std::process::exit(code);
    }
}

/// quote-aware balance (string literals and |quoted symbols| do not count): used only to find the
/// end of the REAL solver's reply
fn paren_balance(b: &[u8]) -> i64 {
    let mut n = 0i64;
    let mut in_str = false;
    let mut in_bar = false;
    for &c in b {
        if in_str {
            if c == b'"' {
                in_str = false;
            }
        } else if in_bar {
            if c == b'|' {
                in_bar = false;
            }
        } else {
            match c {
                b'"' => in_str = true,
                b'|' => in_bar = true,
                b'(' => n += 1,
                b')' => n -= 1,
                _ => {}
            }
        }
    }
    n
}

const ALPHABET: &[u8] = b"abcdefghijklmnopqrstuvwxyz0123456789 ABCDEFGHIJKLMNOPQRSTUVWXYZ:,.-_";

fn message_of_len(n: usize) -> Vec<u8> {
    (0..n).map(|i| ALPHABET[(i * 7 + 3) % ALPHABET.len()]).collect()
}

enum After {
    Continue,
    Exit(i32, String),
}

/// bytes to put on stdout instead of the real reply, and what happens afterwards
fn fault(kind: &str, real: &[u8]) -> (Vec<u8>, After) {
    let (name, arg) = match kind.split_once(':') {
        Some((a, b)) => (a, b),
        None => (kind, ""),
    };
    match name {
        // (error "<message of the given length>")
        "error" => {
            let n: usize = arg.parse().unwrap_or(0);
            let mut v = b"(error \"".to_vec();
            v.extend(message_of_len(n));
            v.extend(b"\")\n");
            (v, After::Continue)
        }
        // (error "<text>") with the text given verbatim (hex-free; '_' stays '_')
        "errortext" => {
            let mut v = b"(error \"".to_vec();
            v.extend(arg.as_bytes());
            v.extend(b"\")\n");
            (v, After::Continue)
        }
        // the error reply, then the solver dies with a failing status (what z3 does on a fatal error)
        "errorexit" => {
            let n: usize = arg.parse().unwrap_or(0);
            let mut v = b"(error \"".to_vec();
            v.extend(message_of_len(n));
            v.extend(b"\")\n");
            (v, After::Exit(1, "shim: fatal".into()))
        }
        "unknown" => (b"unknown\n".to_vec(), After::Continue),
        // a complete `unknown`, then the beginning of something more, then end of stream: the open
        // text is still unread when the client shuts the session down
        "unknowntrunc" => (b"unknown\n((".to_vec(), After::Exit(0, String::new())),
        "empty" => (b"\n".to_vec(), After::Continue),
        // an opened, never closed reply, then end of stream
        "truncopen" => {
            let code = if arg == "1" { 1 } else { 0 };
            let mut v: Vec<u8> = if real.first() == Some(&b'(') { real[..(real.len() / 2).max(1)].to_vec() } else { b"(error \"trunc".to_vec() };
            if paren_balance_raw(&v) <= 0 {
                v = b"((".to_vec();
            }
            (v, After::Exit(code, if code == 0 { String::new() } else { "shim: died in the middle of a reply".into() }))
        }
        // the same, but the truncated text ends with a newline
        "truncopennl" => {
            let mut v: Vec<u8> = b"((trunc\n".to_vec();
            if real.first() != Some(&b'(') {
                v = b"(error \"trunc\n".to_vec();
            }
            (v, After::Exit(0, String::new()))
        }
        // first half of the real reply (no newline), then end of stream; balanced prefix only
        "trunchalf" => {
            let t: Vec<u8> = real.iter().copied().take_while(|c| *c != b'(' && *c != b'\n').collect();
            let h = t[..t.len() / 2].to_vec();
            (h, After::Exit(0, String::new()))
        }
        "exit0" => (vec![], After::Exit(0, String::new())),
        "exit1" => (vec![], After::Exit(1, "shim: injected failure".into())),
        // exit 1 without any text on stderr
        "exit1quiet" => (vec![], After::Exit(1, String::new())),
        "garbage" => {
            let v: &[u8] = match arg {
                "0" => b"@@ %% garbage ~~\n",
                "1" => b")))\n",
                "2" => b"sat unsat\n",
                "3" => b"(sat)\n",
                "4" => b"SAT\n",
                "5" => b"unsatisfiable\n",
                "6" => b")(\n",
                "7" => b"\x00\x01\x7f\n",
                "8" => b"(unsupported)\n",
                "10" => b"((a \"a string literal\"))\n",
                "11" => b"((a b c))\n",
                "12" => b"(((a b)))\n",
                _ => b"success\n",
            };
            (v.to_vec(), After::Continue)
        }
        // the correct reply, with every blank inside parentheses replaced by a line break
        "split" => {
            let mut v = vec![];
            let mut depth = 0i64;
            let mut in_bar = false;
            let mut in_str = false;
            for &c in real {
                if c == b'"' && !in_bar {
                    in_str = !in_str;
                }
                if c == b'|' && !in_str {
                    in_bar = !in_bar;
                }
                if !in_bar && !in_str && c == b'(' {
                    depth += 1;
                }
                if !in_bar && !in_str && c == b')' {
                    depth -= 1;
                }
                // never inside a string literal or a quoted symbol: their contents must stay what they are
                if c == b' ' && depth > 0 && !in_bar && !in_str {
                    v.push(b'\n');
                } else {
                    v.push(c);
                }
            }
            (v, After::Continue)
        }
        // an error reply whose MESSAGE spans two lines (cvc5 prints such messages)
        "errormultiline" => (b"(error \"first line of the message\nsecond line\")\n".to_vec(), After::Continue),
        // the correct reply surrounded by blanks
        "pad" => {
            let mut v = b"  \t".to_vec();
            v.extend(real.iter().copied().filter(|c| *c != b'\n'));
            v.extend(b" \r\n");
            (v, After::Continue)
        }
        // the correct reply, then the solver dies (status 0 / 1) right after it
        "replyexit0" => (real.to_vec(), After::Exit(0, String::new())),
        "replyexit1" => (real.to_vec(), After::Exit(1, "shim: died after replying".into())),
        // the opposite answer (sat <-> unsat): NOT a detectable fault, used only to self-test the harness
        "flip" => {
            let t = String::from_utf8_lossy(real).trim().to_string();
            let v: Vec<u8> = match t.as_str() {
                "sat" => b"unsat\n".to_vec(),
                "unsat" => b"sat\n".to_vec(),
                _ => real.to_vec(),
            };
            (v, After::Continue)
        }
        _ => (real.to_vec(), After::Continue),
    }
}

fn paren_balance_raw(b: &[u8]) -> i64 {
    b.iter().fold(0i64, |n, c| match c {
        b'(' => n + 1,
        b')' => n - 1,
        _ => n,
    })
}

fn response_kind(line: &str) -> Option<&'static str> {
    let t = line.trim_start();
    if t.starts_with("(check-sat-assuming") {
        Some("check-sat-assuming")
    } else if t.starts_with("(check-sat") {
        Some("check-sat")
    } else if t.starts_with("(get-value") {
        Some("get-value")
    } else if t.starts_with("(get-unsat-assumptions") {
        Some("get-unsat-assumptions")
    } else {
        None
    }
}

fn my_ppid() -> u32 {
    let txt = std::fs::read_to_string("/proc/self/stat").unwrap_or_default();
    match txt.rfind(')') {
        Some(i) => txt[i + 1..].split_whitespace().nth(1).and_then(|v| v.parse().ok()).unwrap_or(0),
        None => 0,
    }
}

fn main() {
    let argv: Vec<String> = std::env::args().collect();
    if argv.len() >= 5 && argv[1] == "--shim-emit" {
        // emitter: wait until the shim that started us is gone (we get re-parented), then write
        let bytes: Vec<u8> = (0..argv[2].len() / 2).map(|i| u8::from_str_radix(&argv[2][2 * i..2 * i + 2], 16).unwrap_or(b'?')).collect();
        let parent: u32 = argv[4].parse().unwrap_or(0);
        let t0 = std::time::Instant::now();
        while my_ppid() == parent && t0.elapsed() < std::time::Duration::from_secs(20) {
            std::thread::sleep(std::time::Duration::from_millis(2));
        }
        std::thread::sleep(std::time::Duration::from_millis(argv[3].parse().unwrap_or(20)));
        let mut o = std::io::stdout();
        let _ = o.write_all(&bytes);
        let _ = o.flush();
        return;
    }
    let real_path = std::env::var("SHIM_REAL").expect("SHIM_REAL");
    let args: Vec<String> = std::env::args().skip(1).collect();
    let log_path = std::env::var("SHIM_LOG").ok();
    let at: Option<u64> = std::env::var("SHIM_AT").ok().and_then(|v| v.parse().ok());
    let kind = std::env::var("SHIM_FAULT").unwrap_or_default();

    // global response index: continue after the points already logged by earlier instances
    let mut idx: u64 = 0;
    if let Some(p) = &log_path {
        if let Ok(txt) = std::fs::read_to_string(p) {
            idx = txt.lines().filter(|l| l.starts_with("P ")).count() as u64;
        }
    }
    let log = log_path.as_ref().map(|p| std::fs::OpenOptions::new().create(true).append(true).open(p).expect("shim log"));

    let mut replay = std::collections::HashMap::new();
    if let Ok(p) = std::env::var("SHIM_REPLAY") {
        if let Ok(txt) = std::fs::read_to_string(&p) {
            for l in txt.lines() {
                if let Some(rest) = l.strip_prefix("P ") {
                    let mut it = rest.splitn(5, ' ');
                    let i: u64 = it.next().unwrap_or("0").parse().unwrap_or(0);
                    let k = it.next().unwrap_or("").to_string();
                    let _n = it.next();
                    let h: u64 = it.next().unwrap_or("0").parse().unwrap_or(0);
                    let reply = unesc(it.next().unwrap_or(""));
                    replay.insert(i, (k, h, reply));
                }
            }
        }
    }
    let live = replay.is_empty();
    let mut shim = Shim { log, real_path: real_path.clone(), real_args: args.clone(), real: None, received: vec![], forwarded: 0, consumed: 0, asked: 0, out: std::io::stdout(), replay, live_starts: 0 };
    shim.logln(&format!("S {} {}", real_path, args.join(" ")));
    if live {
        shim.go_live();
    }

    let stdin = std::io::stdin();
    let mut inp = stdin.lock();
    let mut line = String::new();
    let mut hash: u64 = 0xcbf29ce484222325;
    let mut saw_exit = false;
    loop {
        line.clear();
        let n = inp.read_line(&mut line).unwrap_or(0);
        if n == 0 {
            break;
        }
        shim.received.push(line.clone());
        hash = fnv(hash, line.as_bytes());
        let ncmds = shim.received.len();
        if shim.real.is_some() {
            shim.go_live(); // forward at once
        }
        if let Some(k) = response_kind(&line) {
            shim.asked += 1;
            let recorded = match shim.replay.get(&idx) {
                Some((rk, rh, reply)) if shim.real.is_none() && rk == k && *rh == hash => Some(reply.clone()),
                _ => None,
            };
            let reply = match recorded {
                Some(r) => r,
                None => shim.real_reply(),
            };
            shim.logln(&format!("P {idx} {k} {ncmds} {hash} {}", esc(&reply)));
            if at == Some(idx) {
                let (bytes, after) = fault(&kind, &reply);
                shim.logln(&format!("F {idx} {kind}"));
                match after {
                    After::Exit(code, text) => shim.die_emitting(&bytes, code, &text),
                    After::Continue => shim.emit(&bytes),
                }
            } else {
                shim.emit(&reply);
            }
            idx += 1;
        } else if line.trim_start().starts_with("(exit") {
            saw_exit = true;
            break;
        }
    }
    // end of client input: let the real solver finish
    let nplain = shim.received.len() - if saw_exit { 1 } else { 0 };
    shim.logln(&format!("E {nplain}"));
    if let Some(r) = shim.real.take() {
        let Real { mut child, stdin, mut stdout } = r;
        drop(stdin);
        let mut rest = vec![];
        let _ = stdout.read_to_end(&mut rest);
        let _ = child.wait();
    }
}

fn unesc(s: &str) -> Vec<u8> {
    let b = s.as_bytes();
    let mut o = vec![];
    let mut i = 0;
    while i < b.len() {
        if b[i] == b'\\' && i + 1 < b.len() {
            match b[i + 1] {
                b'n' => o.push(b'\n'),
                b'r' => o.push(b'\r'),
                b't' => o.push(b'\t'),
                b'\\' => o.push(b'\\'),
                b'x' => {
                    o.push(u8::from_str_radix(std::str::from_utf8(&b[i + 2..i + 4]).unwrap_or("3f"), 16).unwrap_or(b'?'));
                    i += 2;
                }
                c => o.push(c),
            }
            i += 2;
        } else {
            o.push(b[i]);
            i += 1;
        }
    }
    o
}
