//! C14: the SMT-LIB reader (patronus::smt::{parse_expr, parse_command, read_command}; the response readers
//! parse_get_value_response / parse_get_unsat_assumptions_response are reachable only through
//! SolverContext::{get_value, get_unsat_assumptions} and are driven through a scripted fake solver process).
//!
//! One case per line, `(case ID (kind K) ...)`:
//!   rt     (expr E) (st S..) (text "..") (impl R) (envs ..) (indices ..)          writer output of E read back by parse_expr
//!   text   (st S..) (text "..") (origin "..") (impl R)                            any text (malformed variants, hand-written) through parse_expr
//!   val    (text "value text") (response "((x value))") (impl R) (via "..")       value text through get_value (fake solver)
//!   cmd    (cmd C) (st S..) (text "..") (impl RC)                                 writer output of a command read back by parse_command
//!   script (st S..) (lines "l1" "l2" ..) (impl (step RC)..)                       read_command until EOF / panic / hang
//!   gua    (st S..) (response "..") (impl (ok E..)|(err ..)|(panic ..))           get_unsat_assumptions (fake solver)
//! R = (ok E) | (err "msg") | (panic "file:line" "message");  RC = (ok C) | (err "msg") | (panic "file:line" "message") | (hang) | (eof)
use crate::c05::*;
use crate::dump::*;
use crate::exprgen::lit_value;
use crate::rng::Rng;
use crate::sexp::{Sexp, build_expr, read_cases};
use crate::util::*;
use baa::{BitVecOps, BitVecValue};
use patronus::expr::*;
use patronus::smt::{Logic, SmtCommand, Solver, SolverContext, parse_command, read_command, serialize_cmd};
use rustc_hash::FxHashMap;
use std::collections::HashSet;
use std::io::{BufRead, Read, Write};

type SymTab = FxHashMap<String, ExprRef>;

fn symtab_of(ctx: &Context, syms: &[ExprRef]) -> SymTab {
    let mut st = SymTab::default();
    for s in syms {
        st.insert(ctx.get_symbol_name(*s).unwrap().to_string(), *s);
    }
    st
}

fn dump_st(ctx: &Context, syms: &[ExprRef]) -> String {
    syms.iter().map(|s| format!(" {}", dump_expr(ctx, *s))).collect()
}

fn dump_res(ctx: &Context, r: &Result<Result<ExprRef, String>, String>, stats: &mut Stats) -> String {
    match r {
        Ok(Ok(e)) => format!("(ok {})", dump_expr(ctx, *e)),
        Ok(Err(m)) => format!("(err {})", quote(m)),
        Err(m) => {
            stats.bump("impl_panic_loc", &last_panic_loc());
            format!("(panic {} {})", quote(&last_panic_loc()), quote(m))
        }
    }
}

fn run_parse_expr(ctx: &mut Context, st: &SymTab, text: &str) -> Result<Result<ExprRef, String>, String> {
    guarded(|| patronus::smt::parse_expr(ctx, st, text.as_bytes()).map_err(|e| format!("{e}")))
}

/// the term text inside `(get-value (TERM))`
fn term_text(ctx: &Context, e: ExprRef) -> Option<String> {
    let t = write_cmd(ctx, &SmtCommand::GetValue(e)).ok()?;
    let t = t.trim_end();
    Some(t.strip_prefix("(get-value (")?.strip_suffix("))")?.to_string())
}

fn indices_of(ty: Type) -> Vec<BitVecValue> {
    let mut indices = vec![];
    if let Type::Array(a) = ty {
        if a.index_width <= 6 {
            for i in 0..(1u64 << a.index_width) {
                indices.push(BitVecValue::from_u64(i, a.index_width));
            }
        } else {
            indices.push(BitVecValue::zero(a.index_width));
            indices.push(BitVecValue::ones(a.index_width));
        }
    }
    indices
}

// ------------------------------------------------------------------------------------------ malformed variants

fn variant(rng: &mut Rng, text: &str) -> (String, &'static str) {
    let b = text.as_bytes();
    let paren_pos: Vec<usize> = b.iter().enumerate().filter(|(_, c)| **c == b'(' || **c == b')').map(|(i, _)| i).collect();
    match rng.below(8) {
        0 | 1 => {
            // proper prefix at a random byte (kept on a character boundary)
            if text.len() < 2 {
                return (String::new(), "prefix-empty");
            }
            let mut k = 1 + rng.below(text.len() as u64 - 1) as usize;
            while !text.is_char_boundary(k) {
                k -= 1;
            }
            (text[..k].to_string(), "prefix-char")
        }
        2 => {
            // proper prefix that ends after a complete token
            let cut: Vec<usize> = b.iter().enumerate().filter(|(_, c)| **c == b' ').map(|(i, _)| i).collect();
            if cut.is_empty() {
                return (String::new(), "prefix-empty");
            }
            let k = *rng.pick(&cut);
            (text[..k].to_string(), "prefix-token")
        }
        3 => {
            if paren_pos.is_empty() {
                return (format!("{text})"), "extra-close-end");
            }
            let k = *rng.pick(&paren_pos);
            let mut s = text.to_string();
            s.remove(k);
            (s, if b[k] == b'(' { "delete-open" } else { "delete-close" })
        }
        4 => (format!("{text})"), "extra-close-end"),
        5 => {
            let k = if paren_pos.is_empty() { 0 } else { *rng.pick(&paren_pos) };
            let mut s = text.to_string();
            s.insert(k, if rng.chance(1, 2) { '(' } else { ')' });
            (s, "insert-paren")
        }
        6 => (format!("({text}"), "extra-open-start"),
        _ => {
            let junk = *rng.pick(&["x", "#b1", "\"str\"", "|q", ";", "; c\n", ";\n", ";\nx", "\"", "(", "1.5", "|a|"]);
            (format!("{text} {junk}"), "suffix")
        }
    }
}

// ------------------------------------------------------------------------------------------ value grammar

/// solver-style value text of the given type, with the width/shape pool of the other generators
fn gen_value(rng: &mut Rng, ty: Type, depth: u32, lets: &mut Vec<(String, Type)>, stats: &mut Stats) -> String {
    // a bound name of this type
    if !lets.is_empty() && rng.chance(1, 4) {
        let cands: Vec<String> = lets.iter().filter(|(_, t)| *t == ty).map(|(n, _)| n.clone()).collect();
        if !cands.is_empty() {
            stats.bump("value_form", "let-var");
            return rng.pick(&cands).clone();
        }
    }
    if depth > 0 && rng.chance(1, 6) {
        // (let ((name value)) body)
        let bty = if rng.chance(1, 2) {
            ty
        } else if rng.chance(1, 2) {
            Type::BV(*rng.pick(&[1u32, 2, 4, 8, 33]))
        } else {
            Type::Array(ArrayType { index_width: *rng.pick(&[1u32, 2, 3]), data_width: *rng.pick(&[1u32, 2, 8]) })
        };
        let name = format!("{}{}", rng.pick(&["a!", "x", "_let_", "k!"]), rng.below(4));
        let v = gen_value(rng, bty, depth - 1, lets, stats);
        lets.push((name.clone(), bty));
        let body = gen_value(rng, ty, depth - 1, lets, stats);
        lets.pop();
        stats.bump("value_form", "let");
        return format!("(let (({name} {v})) {body})");
    }
    match ty {
        Type::BV(w) => {
            let v = lit_value(rng, w);
            if w == 1 && rng.chance(2, 3) {
                stats.bump("value_form", "bool");
                return if v.is_true() { "true".into() } else { "false".into() };
            }
            match rng.below(10) {
                0..=4 => {
                    stats.bump("value_form", "#b");
                    format!("#b{}", v.to_bit_str())
                }
                5..=7 if w % 4 == 0 => {
                    stats.bump("value_form", "#x");
                    let h = v.to_hex_str();
                    let h = format!("{:0>width$}", h, width = (w / 4) as usize);
                    if rng.chance(1, 2) { format!("#x{}", h.to_uppercase()) } else { format!("#x{h}") }
                }
                8 if w <= 64 => {
                    stats.bump("value_form", "(_ bvN w)");
                    format!("(_ bv{} {w})", v.to_u64().unwrap())
                }
                _ => {
                    stats.bump("value_form", "#b");
                    format!("#b{}", v.to_bit_str())
                }
            }
        }
        Type::Array(a) => {
            let sort = format!("(Array {} {})", own_elem_sort(a.index_width), own_elem_sort(a.data_width));
            if depth == 0 || rng.chance(1, 3) {
                stats.bump("value_form", "as-const");
                let d = gen_value(rng, Type::BV(a.data_width), 0, lets, stats);
                format!("((as const {sort}) {d})")
            } else {
                stats.bump("value_form", "store");
                let base = gen_value(rng, ty, depth - 1, lets, stats);
                let i = gen_value(rng, Type::BV(a.index_width), 0, lets, stats);
                let d = gen_value(rng, Type::BV(a.data_width), 0, lets, stats);
                format!("(store {base} {i} {d})")
            }
        }
    }
}

// ------------------------------------------------------------------------------------------ fake solver (drives get_value / get_unsat_assumptions)

const FAKE_SOLVER: &str = r#"#!/bin/sh
# scripted solver: every response-producing command is answered with the next line of $FAKE_SOLVER_RESPONSES
# (byte 0x01 inside a line stands for a line break)
exec 3< "$FAKE_SOLVER_RESPONSES"
SOH=$(printf '\001')
while IFS= read -r line; do
  case "$line" in
    "(exit"*) exit 0;;
    "(check-sat"*|"(get-value"*|"(get-unsat-assumptions"*)
      if IFS= read -r resp <&3; then
        case "$resp" in
          *"$SOH"*) printf '%s\n' "$resp" | tr '\001' '\n';;
          *) printf '%s\n' "$resp";;
        esac
      else echo '(error "out of responses")'; fi;;
  esac
done
"#;

struct Fake {
    dir: String,
}

impl Fake {
    fn new(scratch: &str) -> Fake {
        let dir = format!("{scratch}.fake");
        std::fs::create_dir_all(&dir).unwrap();
        let exe = format!("{dir}/bitwuzla");
        std::fs::write(&exe, FAKE_SOLVER).unwrap();
        use std::os::unix::fs::PermissionsExt;
        std::fs::set_permissions(&exe, std::fs::Permissions::from_mode(0o755)).unwrap();
        let old = std::env::var("PATH").unwrap_or_default();
        if !old.starts_with(&dir) {
            unsafe { std::env::set_var("PATH", format!("{dir}:{old}")) };
        }
        Fake { dir }
    }
    /// a context whose response-producing commands are answered with `responses` in order
    fn start(&self, responses: &[String]) -> patronus::smt::SmtLibSolverCtx {
        let path = format!("{}/responses", self.dir);
        let enc: Vec<String> = responses.iter().map(|r| r.replace('\n', "\x01")).collect();
        std::fs::write(&path, enc.join("\n") + "\n").unwrap();
        unsafe { std::env::set_var("FAKE_SOLVER_RESPONSES", &path) };
        patronus::smt::BITWUZLA.start(None).expect("start fake solver")
    }
}

// ------------------------------------------------------------------------------------------ commands

fn dump_smt_cmd(ctx: &Context, c: &SmtCommand) -> String {
    let d = |e: &ExprRef| dump_expr(ctx, *e);
    match c {
        SmtCommand::Exit => "(exit)".into(),
        SmtCommand::CheckSat => "(checksat)".into(),
        SmtCommand::SetLogic(l) => format!("(setlogic {})", logic_name(l)),
        SmtCommand::SetOption(k, v) => format!("(setoption {} {})", quote(k), quote(v)),
        SmtCommand::SetInfo(k, v) => format!("(setinfo {} {})", quote(k), quote(v)),
        SmtCommand::Assert(e) => format!("(assert {})", d(e)),
        SmtCommand::DeclareConst(s) => format!("(declare {})", d(s)),
        SmtCommand::DefineConst(s, e) => format!("(define {} {})", d(s), d(e)),
        SmtCommand::CheckSatAssuming(es) => format!("(csa{})", es.iter().map(|e| format!(" {}", d(e))).collect::<String>()),
        SmtCommand::Push(n) => format!("(push {n})"),
        SmtCommand::Pop(n) => format!("(pop {n})"),
        SmtCommand::GetValue(e) => format!("(getvalue {})", d(e)),
        SmtCommand::GetUnsatAssumptions => "(gua)".into(),
    }
}

/// a reader that reports a hang (by panicking) when it is polled again and again after the end of the input
struct Limited<'a> {
    data: &'a [u8],
    pos: usize,
    eof_reads: usize,
}

impl<'a> Read for Limited<'a> {
    fn read(&mut self, buf: &mut [u8]) -> std::io::Result<usize> {
        let n = std::cmp::min(buf.len(), self.data.len() - self.pos);
        buf[..n].copy_from_slice(&self.data[self.pos..self.pos + n]);
        self.pos += n;
        Ok(n)
    }
}

impl<'a> BufRead for Limited<'a> {
    fn fill_buf(&mut self) -> std::io::Result<&[u8]> {
        if self.pos >= self.data.len() {
            self.eof_reads += 1;
            if self.eof_reads > 1000 {
                panic!("HANG: read_command keeps reading after the end of the input");
            }
        }
        Ok(&self.data[self.pos..])
    }
    fn consume(&mut self, amt: usize) {
        self.pos += amt;
    }
}

// ------------------------------------------------------------------------------------------ driver of the cases

struct Out {
    lines: Vec<String>,
    distinct: HashSet<String>,
}

impl Out {
    fn push(&mut self, stats: &mut Stats, line: String) {
        self.distinct.insert(line[line.find("(kind").unwrap_or(0)..].to_string());
        stats.sample(&line, 4);
        self.lines.push(line);
    }
}

fn case_rt(id: &str, ctx: &mut Context, root: ExprRef, envs: &[Env], stats: &mut Stats) -> Option<String> {
    let syms = symbols_of(ctx, &[root]);
    let st = symtab_of(ctx, &syms);
    let text = term_text(ctx, root)?;
    let res = run_parse_expr(ctx, &st, &text);
    let ty = root.get_type(ctx);
    let indices = indices_of(ty);
    stats.bump("rt_result", match &res { Ok(Ok(_)) => "ok", Ok(Err(_)) => "err", Err(_) => "panic" });
    let envs_txt: String = envs.iter().map(|e| format!(" {}", dump_env(ctx, e))).collect();
    let idx_txt: String = indices.iter().map(|i| format!(" {}", bv_tok(i))).collect();
    Some(format!(
        "(case {id} (kind rt) (expr {}) (st{}) (text {}) (impl {}) (envs{envs_txt}) (indices{idx_txt}))",
        dump_expr(ctx, root),
        dump_st(ctx, &syms),
        quote(&text),
        dump_res(ctx, &res, stats)
    ))
}

fn case_text(id: &str, ctx: &mut Context, syms: &[ExprRef], text: &str, origin: &str, stats: &mut Stats) -> String {
    let st = symtab_of(ctx, syms);
    let res = run_parse_expr(ctx, &st, text);
    stats.bump("text_origin", origin);
    stats.bump(&format!("text_result:{origin}"), match &res { Ok(Ok(_)) => "ok", Ok(Err(_)) => "err", Err(_) => "panic" });
    format!("(case {id} (kind text) (st{}) (text {}) (origin {}) (impl {}))", dump_st(ctx, syms), quote(text), quote(origin), dump_res(ctx, &res, stats))
}

fn dump_cmd_res(ctx: &Context, r: &Result<Result<SmtCommand, String>, String>, stats: &mut Stats) -> String {
    match r {
        Ok(Ok(c)) => format!("(ok {})", dump_smt_cmd(ctx, c)),
        Ok(Err(m)) => format!("(err {})", quote(m)),
        Err(m) => {
            if m.starts_with("HANG") {
                "(hang)".to_string()
            } else {
                stats.bump("impl_panic_loc", &last_panic_loc());
                format!("(panic {} {})", quote(&last_panic_loc()), quote(&m))
            }
        }
    }
}

fn case_cmd(id: &str, ctx: &mut Context, c: &CmdCase, stats: &mut Stats) -> String {
    let exprs = cmd_exprs(c);
    let syms = symbols_of(ctx, &exprs);
    let intro: Option<ExprRef> = match c {
        CmdCase::Declare(s) | CmdCase::Define(s, _) => Some(*s),
        _ => None,
    };
    let syms: Vec<ExprRef> = syms.into_iter().filter(|s| Some(*s) != intro).collect();
    let st = symtab_of(ctx, &syms);
    let (ctxt, kind) = dump_cmd(ctx, c);
    stats.bump("cmd_kind", kind);
    let text = match write_cmd(ctx, &cmd_to_impl(c)) {
        Ok(t) => t,
        Err(_) => "<panic>".to_string(),
    };
    let res = guarded(|| parse_command(ctx, &st, text.as_bytes()).map_err(|e| format!("{e}")));
    stats.bump(&format!("cmd_result:{kind}"), match &res { Ok(Ok(_)) => "ok", Ok(Err(_)) => "err", Err(_) => "panic" });
    format!("(case {id} (kind cmd) (cmd {ctxt}) (st{}) (text {}) (impl {}))", dump_st(ctx, &syms), quote(&text), dump_cmd_res(ctx, &res, stats))
}

/// arbitrary command text (alternative spellings, malformed variants) through parse_command
fn case_cmdtext(id: &str, ctx: &mut Context, syms: &[ExprRef], text: &str, origin: &str, stats: &mut Stats) -> String {
    let st = symtab_of(ctx, syms);
    let res = guarded(|| parse_command(ctx, &st, text.as_bytes()).map_err(|e| format!("{e}")));
    stats.bump("cmdtext_origin", origin);
    stats.bump(&format!("cmdtext_result:{origin}"), match &res { Ok(Ok(_)) => "ok", Ok(Err(_)) => "err", Err(_) => "panic" });
    format!("(case {id} (kind cmdtext) (st{}) (text {}) (origin {}) (impl {}))", dump_st(ctx, syms), quote(text), quote(origin), dump_cmd_res(ctx, &res, stats))
}

/// A balanced term `(op a1 .. an)`, operands of every kind (1-bit, 4-bit, 8-bit, arrays, sorts, nested terms) under every
/// operator / indexed operator the reader knows, with 1 to 4 operands: well-sorted only by chance.
fn ill_sorted_term(ctx: &mut Context, r: &mut Rng) -> (Vec<ExprRef>, String) {
    let syms = vec![
        ctx.bv_symbol("b1", 1),
        ctx.bv_symbol("b2", 1),
        ctx.bv_symbol("v4", 4),
        ctx.bv_symbol("w4", 4),
        ctx.bv_symbol("v8", 8),
        ctx.array_symbol("m", 2, 4),
        ctx.array_symbol("n", 1, 1),
    ];
    const ATOMS: &[&str] = &[
        "b1", "b2", "true", "false", "v4", "w4", "#b0101", "#xa", "v8", "#x3c", "#b1", "m", "n", "Bool", "(_ BitVec 4)", "(Array (_ BitVec 2) (_ BitVec 4))",
        "(bvadd v4 w4)", "(select m #b01)", "((_ extract 1 0) v4)", "(= v4 w4)", "(store m #b01 v4)", "((as const (Array (_ BitVec 2) (_ BitVec 4))) v4)", "unknown",
    ];
    const OPS: &[&str] = &[
        "not", "bvnot", "bvneg", "=", "=>", "distinct", "and", "or", "xor", "bvand", "bvor", "bvxor", "bvadd", "bvmul", "bvsub", "bvudiv", "bvsdiv", "bvurem",
        "bvsrem", "bvsmod", "bvshl", "bvlshr", "bvashr", "bvugt", "bvuge", "bvult", "bvsgt", "bvsge", "bvslt", "concat", "select", "store", "ite",
        "(_ zero_extend 0)", "(_ zero_extend 3)", "(_ sign_extend 0)", "(_ sign_extend 2)", "(_ extract 3 0)", "(_ extract 1 2)", "(_ extract 7 4)", "(_ extract 0 0)",
        "(as const (Array (_ BitVec 2) (_ BitVec 4)))", "(as const (Array Bool Bool))", "Array", "_",
    ];
    fn term(r: &mut Rng, depth: u32) -> String {
        if depth == 0 || r.chance(1, 2) {
            return r.pick(ATOMS).to_string();
        }
        let op = *r.pick(OPS);
        let n = match op {
            "not" | "bvnot" | "bvneg" => 1 + r.below(2),
            "ite" | "store" => 2 + r.below(3),
            _ if op.starts_with('(') => 1 + r.below(2),
            _ => 1 + r.below(3),
        };
        let args: Vec<String> = (0..n).map(|_| term(r, depth - 1)).collect();
        format!("({op} {})", args.join(" "))
    }
    let mut t = term(r, 2);
    if !t.starts_with('(') || ATOMS.contains(&t.as_str()) {
        let op = *r.pick(OPS);
        t = format!("({op} {t} {})", r.pick(ATOMS));
    }
    if r.chance(1, 10) {
        t = format!("(let ((z!0 {t})) (bvadd z!0 v4))");
    }
    (syms, t)
}

/// An incremental script that declares / defines ONE name twice, in two push/pop scopes, at two different sorts, and uses it after
/// each introduction (the symbol table of read_command must hold the latest declaration).  The uses are either generic
/// (`(= N <term of N's width>)`: read against a stale sort they do not type-check) or independent of the width
/// (`((_ extract 0 0) N)`, `(concat N N)`: read against a stale sort they silently denote something else).
fn gen_redeclare(g: &mut Gen) -> Vec<CmdCase> {
    let w1 = g.width();
    let mut w2 = g.width();
    if w2 == w1 {
        w2 = w1 + 1 + g.rng.below(3) as WidthInt;
    }
    let v1 = g.bv(w1, 1);
    let v2 = g.bv(w2, 1);
    let s1 = g.fresh_symbol(Type::BV(w1));
    let name = g.ctx.get_symbol_name(s1).unwrap().to_string();
    let use1 = use_of(g, s1, w1);
    // forget the name: the second symbol has another type
    g.used.retain(|(n, _)| *n != name);
    let s2 = g.ctx.bv_symbol(&name, w2);
    g.used.push((name.clone(), Type::BV(w2)));
    let use2 = use_of(g, s2, w2);
    let intro = |g: &mut Gen, s: ExprRef, v: ExprRef| if g.rng.chance(1, 3) { CmdCase::Define(s, v) } else { CmdCase::Declare(s) };
    let mut cmds = vec![CmdCase::Push(1), intro(g, s1, v1), CmdCase::Assert(use1), CmdCase::Pop(1), CmdCase::Push(1), intro(g, s2, v2)];
    cmds.push(if g.rng.chance(1, 3) { CmdCase::GetValue(use2) } else { CmdCase::Assert(use2) });
    if g.rng.chance(1, 2) {
        cmds.push(CmdCase::Pop(1));
    }
    cmds
}

/// One or two symbols whose names consist of lexical delimiters (`"`, `;`, parentheses, `#`, line breaks inside |..|, text that looks
/// like a string literal) are declared / defined and then used by later commands: where a command ends must not depend on the name.
fn gen_declare_use(g: &mut Gen) -> Vec<CmdCase> {
    let mut cmds = vec![];
    let mut syms = vec![];
    for _ in 0..(1 + g.rng.below(2)) {
        let w = g.width();
        let v = g.bv(w, 1);
        let s = g.delim_symbol(Type::BV(w));
        cmds.push(if g.rng.chance(1, 3) { CmdCase::Define(s, v) } else { CmdCase::Declare(s) });
        syms.push((s, w));
    }
    for (s, w) in syms {
        let u = use_of(g, s, w);
        cmds.push(if g.rng.chance(1, 4) { CmdCase::GetValue(u) } else { CmdCase::Assert(u) });
    }
    if g.rng.chance(1, 2) {
        cmds.push(CmdCase::CheckSat);
    }
    cmds
}

fn use_of(g: &mut Gen, s: ExprRef, w: WidthInt) -> ExprRef {
    match g.rng.below(4) {
        0 => {
            let bit = g.ctx.slice(s, 0, 0);
            let one = g.ctx.one(1);
            g.ctx.equal(bit, one)
        }
        1 => {
            let cc = g.ctx.concat(s, s);
            let z = g.ctx.zero(2 * w);
            g.ctx.greater(cc, z)
        }
        _ => {
            let rhs = g.bv(w, 1);
            g.ctx.equal(s, rhs)
        }
    }
}

/// Would `read_response` wait for another line after this answer?  It does while it counts more opening than closing
/// parentheses: every parenthesis in /repo as it is, only those outside "string literals" and |quoted symbols| with
/// patches/0003.  An answer goes through the scripted solver only if neither count is positive.
fn waits_for_more(answer: &str) -> bool {
    let plain: i64 = answer.chars().map(|c| if c == '(' { 1 } else if c == ')' { -1 } else { 0 }).sum();
    let (mut count, mut in_string, mut in_quoted) = (0i64, false, false);
    for c in answer.chars() {
        match c {
            '"' if !in_quoted => in_string = !in_string,
            '|' if !in_string => in_quoted = !in_quoted,
            '(' if !in_string && !in_quoted => count += 1,
            ')' if !in_string && !in_quoted => count -= 1,
            _ => {}
        }
    }
    plain > 0 || count > 0
}

fn case_script(id: &str, ctx: &mut Context, syms: &[ExprRef], lines: &[String], ncmds: u64, cmds_txt: &str, mutated: bool, stats: &mut Stats) -> String {
    let mut st = symtab_of(ctx, syms);
    let data: String = lines.concat();
    let mut inp = Limited { data: data.as_bytes(), pos: 0, eof_reads: 0 };
    let mut steps = String::new();
    for _ in 0..(lines.len() + 2) {
        let res: Result<Result<Option<SmtCommand>, String>, String> = guarded(|| read_command(&mut inp, ctx, &mut st).map_err(|e| format!("{e}")));
        match res {
            Ok(Ok(Some(c))) => steps.push_str(&format!(" (ok {})", dump_smt_cmd(ctx, &c))),
            Ok(Ok(None)) => {
                steps.push_str(" (eof)");
                stats.bump("script_end", "eof");
                break;
            }
            Ok(Err(m)) => {
                steps.push_str(&format!(" (err {})", quote(&m)));
                stats.bump("script_end", "err");
                break;
            }
            Err(m) => {
                if m.starts_with("HANG") {
                    steps.push_str(" (hang)");
                    stats.bump("script_end", "hang");
                } else {
                    steps.push_str(&format!(" (panic {} {})", quote(&last_panic_loc()), quote(&m)));
                    stats.bump("script_end", "panic");
                    stats.bump("impl_panic_loc", &last_panic_loc());
                }
                break;
            }
        }
    }
    let ltxt: String = lines.iter().map(|l| format!(" {}", quote(l))).collect();
    format!("(case {id} (kind script) (st{}) (lines{ltxt}) (cmds{cmds_txt}) (ncmds {ncmds}) (mutated {}) (impl{steps}))", dump_st(ctx, syms), mutated as u8)
}

pub fn run(args: &Args) {
    if let Err(m) = guarded(|| run_inner(args)) {
        eprintln!("C14 harness panicked: {m} @ {}", last_panic_loc());
        std::process::exit(2);
    }
}

fn run_inner(args: &Args) {
    let mut rng = Rng::new(args.seed);
    let mut outf = std::io::BufWriter::new(std::fs::File::create(&args.out).expect("out file"));
    let mut stats = Stats::default();
    let mut out = Out { lines: vec![], distinct: HashSet::new() };
    let scratch = format!("{}.scratch", args.out);
    let only = args.get("only").unwrap_or("all").to_string();
    let solvers: Vec<String> = args.get("solver").map(|s| s.split(',').map(|x| x.to_string()).collect()).unwrap_or_default();

    // ---- replay of dumped cases
    if let Some(path) = args.get("cases-in") {
        let fake = Fake::new(&scratch);
        for c in read_cases(path).iter() {
            let id = c.list()[1].atom().to_string();
            let kind = c.field("kind").map(|k| k[0].atom().to_string()).unwrap_or_default();
            let mut ctx = Context::default();
            let syms: Vec<ExprRef> = c.field("st").unwrap_or(&[]).iter().map(|s| build_expr(&mut ctx, s)).collect();
            let line = match kind.as_str() {
                "rt" => {
                    let root = build_expr(&mut ctx, &c.field("expr").unwrap()[0]);
                    let envs: Vec<Env> = c.field("envs").unwrap_or(&[]).iter().map(|e| parse_env(&mut ctx, e)).collect();
                    case_rt(&id, &mut ctx, root, &envs, &mut stats).unwrap_or_default()
                }
                "text" => {
                    let text = c.field("text").unwrap()[0].atom().to_string();
                    let origin = c.field("origin").map(|o| o[0].atom().to_string()).unwrap_or_default();
                    case_text(&id, &mut ctx, &syms, &text, &origin, &mut stats)
                }
                "cmd" => {
                    let cc = parse_cmd(&mut ctx, &c.field("cmd").unwrap()[0]);
                    case_cmd(&id, &mut ctx, &cc, &mut stats)
                }
                "cmdtext" => {
                    let text = c.field("text").unwrap()[0].atom().to_string();
                    let origin = c.field("origin").map(|o| o[0].atom().to_string()).unwrap_or_default();
                    case_cmdtext(&id, &mut ctx, &syms, &text, &origin, &mut stats)
                }
                "script" => {
                    let lines: Vec<String> = c.field("lines").unwrap_or(&[]).iter().map(|l| l.atom().to_string()).collect();
                    let ncmds = c.field("ncmds").map(|n| n[0].num()).unwrap_or(0);
                    let cmds_txt: String = c.field("cmds").unwrap_or(&[]).iter().map(|x| format!(" {}", sexp_to_string(x))).collect();
                    let mutated = c.field("mutated").map(|n| n[0].num() != 0).unwrap_or(cmds_txt.is_empty());
                    case_script(&id, &mut ctx, &syms, &lines, ncmds, &cmds_txt, mutated, &mut stats)
                }
                "val" => {
                    let text = c.field("text").unwrap()[0].atom().to_string();
                    let response = c.field("response").unwrap()[0].atom().to_string();
                    let via = c.field("via").map(|o| o[0].atom().to_string()).unwrap_or_default();
                    let mut sc = fake.start(&[response.clone()]);
                    let q = ctx.bv_symbol("q", 1);
                    let res = guarded(|| sc.get_value(&mut ctx, q).map_err(|e| format!("{e}")));
                    format!("(case {id} (kind val) (text {}) (response {}) (impl {}) (via {}))", quote(&text), quote(&response), dump_res(&ctx, &res, &mut stats), quote(&via))
                }
                "gua" => {
                    let response = c.field("response").unwrap()[0].atom().to_string();
                    run_gua(&id, &fake, &mut ctx, &syms, &response, &mut stats)
                }
                _ => String::new(),
            };
            if !line.is_empty() {
                out.push(&mut stats, line);
            }
        }
    }

    // ---- generated cases
    let mut val_queue: Vec<(String, String, String, String)> = vec![]; // (id, value text, response, via)
    let mut gua_queue: Vec<(String, Vec<(String, WidthInt)>, String)> = vec![];
    let mut solver_batch: Vec<(String, SolverBatch)> = solvers.iter().map(|s| (s.clone(), SolverBatch::default())).collect();
    let mut solver_meta: Vec<(String, Type)> = vec![];
    for n in 0..args.count {
        let id = format!("{n}");
        let mut r = rng.fork();
        let mut ctx = Context::default();
        let pick = if only == "all" { r.below(100) } else { 0 };
        let kind = match only.as_str() {
            "rt" => "rt",
            "text" => "text",
            "val" => "val",
            "cmd" => "cmd",
            "cmdtext" => "cmdtext",
            "script" => "script",
            "gua" => "gua",
            "solverval" => "solverval",
            _ => match pick {
                0..=34 => "rt",
                35..=59 => "text",
                60..=74 => "val",
                75..=82 => "cmd",
                83..=86 => "cmdtext",
                87..=94 => "script",
                _ => "gua",
            },
        };
        stats.bump("case_kind", kind);
        match kind {
            "rt" | "text" | "solverval" => {
                let plain = kind != "rt" || r.chance(1, 3);
                let root = {
                    let mut g = Gen::new(&mut ctx, &mut r);
                    g.plain_names = plain || args.get("names") == Some("plain");
                    let depth = 1 + g.rng.below(if kind == "rt" { 5 } else { 3 }) as u32;
                    let root = g.root(depth);
                    for (k, v) in g.ops.iter() {
                        stats.bump_n("ops", k, *v);
                    }
                    root
                };
                let syms = symbols_of(&ctx, &[root]);
                if kind == "rt" {
                    for s in syms.iter() {
                        stats.bump("name_class", name_class(ctx.get_symbol_name(*s).unwrap()));
                    }
                    position_hist(&ctx, root, &mut stats);
                    let envs: Vec<Env> = (0..2).map(|_| random_env(&ctx, &mut r, &syms)).collect();
                    if let Some(line) = case_rt(&id, &mut ctx, root, &envs, &mut stats) {
                        out.push(&mut stats, line);
                    }
                } else if kind == "text" && r.chance(1, 6) {
                    // balanced terms with operands of every kind under every operator the reader knows: most are ill-sorted
                    // (the reader has to answer with an error, the builders of Context must not be reached with such operands)
                    let (syms, t) = ill_sorted_term(&mut ctx, &mut r);
                    let line = case_text(&id, &mut ctx, &syms, &t, "ill-sorted", &mut stats);
                    out.push(&mut stats, line);
                } else if kind == "text" && r.chance(1, 4) {
                    // well-formed terms with operators and forms the writer never emits (n-ary, bvult/bvslt/distinct, let scopes)
                    let w = match root.get_type(&ctx) {
                        Type::BV(w) => w,
                        Type::Array(_) => continue,
                    };
                    let (b, c) = {
                        let mut g = Gen::new(&mut ctx, &mut r);
                        g.plain_names = true;
                        g.used = syms.iter().map(|s| (g.ctx.get_symbol_name(*s).unwrap().to_string(), s.get_type(g.ctx))).collect();
                        (g.bv(w, 1), g.bv(w, 1))
                    };
                    let all_syms = symbols_of(&ctx, &[root, b, c]);
                    let (Some(ta), Some(tb), Some(tc)) = (term_text(&ctx, root), term_text(&ctx, b), term_text(&ctx, c)) else { continue };
                    let shadow = all_syms.iter().find(|s| s.get_type(&ctx) == Type::BV(w)).map(|s| ctx.get_symbol_name(*s).unwrap().to_string());
                    let (bool_ops, bv_ops): (&[&str], &[&str]) = (&["and", "or", "xor", "="], &["bvand", "bvor", "bvxor", "bvadd", "bvmul"]);
                    let t = match r.below(9) {
                        0 => format!("(bvult {ta} {tb})"),
                        1 => format!("(bvslt {ta} {tb})"),
                        2 => format!("(distinct {ta} {tb})"),
                        3 => {
                            let op = if w == 1 { *r.pick(bool_ops) } else { *r.pick(bv_ops) };
                            format!("({op} {ta} {tb} {tc})")
                        }
                        4 => format!("(let ((tmp!1 {ta})) (= tmp!1 (let ((tmp!2 {tb})) (ite (= tmp!2 tmp!1) tmp!2 {tc}))))"),
                        5 => match &shadow {
                            // the let-bound name shadows a declared symbol only inside the let
                            Some(x) if !x.contains(' ') => format!("(= (let (({x} {ta})) {x}) {x})"),
                            _ => format!("(= {ta} {tb} {tc})"),
                        },
                        6 => format!("(let ((a {ta}) (b {tb})) (= a b))"),
                        7 => format!("(=> (= {ta} {tb}) (= {tb} {tc}) (= {ta} {tc}))"),
                        _ => format!("(ite (bvult {ta} {tb}) {tc} (({ta})))"),
                    };
                    let line = case_text(&id, &mut ctx, &all_syms, &t, "extra-forms", &mut stats);
                    out.push(&mut stats, line);
                } else if kind == "text" {
                    let Some(text) = term_text(&ctx, root) else { continue };
                    let (v, origin) = variant(&mut r, &text);
                    let line = case_text(&id, &mut ctx, &syms, &v, origin, &mut stats);
                    out.push(&mut stats, line);
                } else {
                    // real solver answers: collected in one session per solver, parsed below through get_value
                    let Some(text) = term_text(&ctx, root) else { continue };
                    let env = random_env(&ctx, &mut r, &syms);
                    let decls: Vec<String> = syms.iter().map(|s| write_cmd(&ctx, &SmtCommand::DeclareConst(*s)).unwrap_or_default()).collect();
                    let ty = root.get_type(&ctx);
                    let nonlit_aconst = crate::exprgen::collect_nodes(&ctx, root)
                        .iter()
                        .any(|n| matches!(&ctx[*n], Expr::ArrayConstant { e, .. } if !matches!(ctx[*e], Expr::BVLiteral(_))));
                    // the whole term (also array-typed ones: the answer is then a store chain / const array)
                    let mut script = String::new();
                    if let Some(s) = solver_script(&ctx, &decls, &text, Type::BV(1), &env, &[]) {
                        script.push_str(&s);
                        for (name, b) in solver_batch.iter_mut() {
                            if name == "cvc5" && nonlit_aconst {
                                continue;
                            }
                            b.add(&id, &script);
                        }
                        solver_meta.push((id.clone(), ty));
                    }
                }
            }
            "val" => {
                let ty = if r.chance(1, 2) {
                    Type::BV(*r.pick(&[1u32, 1, 2, 3, 4, 8, 16, 32, 33, 64, 65, 128, 129]))
                } else {
                    Type::Array(ArrayType { index_width: *r.pick(&[1u32, 1, 2, 3, 5, 8, 32]), data_width: *r.pick(&[1u32, 1, 2, 4, 8, 33, 64]) })
                };
                let depth = r.below(4) as u32;
                let mut lets = vec![];
                let v = gen_value(&mut r, ty, depth, &mut lets, &mut stats);
                let (v, via) = if r.chance(1, 6) {
                    let (m, origin) = variant(&mut r, &v);
                    (m, format!("grammar:{origin}"))
                } else {
                    (v, "grammar".to_string())
                };
                let term = *r.pick(&["x", "|a b|", "(select m #b01)", "(f x y)", "((_ extract 3 0) x)", "\"s\""]);
                let response = match r.below(12) {
                    0 => format!("(({term} {v})"),
                    1 => format!("({term} {v})"),
                    2 => format!("(({v}))"),
                    3 => format!("(({term} {v})) ; trailing"),
                    _ => format!("(({term} {v}))"),
                };
                // get_value waits for more lines while the answer has more opening than closing parentheses (it would
                // block on the scripted solver): such texts go through parse_expr instead
                if waits_for_more(&response) || response.contains('\n') {
                    let line = case_text(&id, &mut ctx, &[], &v, &format!("value-{via}"), &mut stats);
                    out.push(&mut stats, line);
                } else {
                    val_queue.push((id, v, response, via));
                }
            }
            "cmd" => {
                let c = {
                    let mut g = Gen::new(&mut ctx, &mut r);
                    g.plain_names = g.rng.chance(1, 2);
                    gen_cmd(&mut g, &mut stats)
                };
                let line = case_cmd(&id, &mut ctx, &c, &mut stats);
                out.push(&mut stats, line);
            }
            "cmdtext" => {
                let c = {
                    let mut g = Gen::new(&mut ctx, &mut r);
                    g.plain_names = true;
                    gen_cmd(&mut g, &mut stats)
                };
                let exprs = cmd_exprs(&c);
                let intro: Option<ExprRef> = match &c {
                    CmdCase::Declare(s) | CmdCase::Define(s, _) => Some(*s),
                    _ => None,
                };
                let syms: Vec<ExprRef> = symbols_of(&ctx, &exprs).into_iter().filter(|s| Some(*s) != intro).collect();
                let Ok(text) = write_cmd(&ctx, &cmd_to_impl(&c)) else { continue };
                let text = text.trim_end().to_string();
                if r.chance(1, 8) {
                    // definitions whose value has another sort than declared, sorts of width zero, ill-sorted terms inside commands
                    let (isyms, term) = ill_sorted_term(&mut ctx, &mut r);
                    let sort = *r.pick(&["Bool", "(_ BitVec 1)", "(_ BitVec 4)", "(_ BitVec 8)", "(_ BitVec 0)", "(Array (_ BitVec 2) (_ BitVec 4))", "(Array (_ BitVec 0) Bool)", "(Array Bool (_ BitVec 0))"]);
                    let t = match r.below(6) {
                        0 => format!("(define-fun fresh!0 () {sort} {term})"),
                        1 => format!("(define-const fresh!0 {sort} {term})"),
                        2 => format!("(declare-const fresh!0 {sort})"),
                        3 => format!("(declare-fun fresh!0 () {sort})"),
                        4 => format!("(assert {term})"),
                        _ => format!("(check-sat-assuming ({term} b1))"),
                    };
                    let line = case_cmdtext(&id, &mut ctx, &isyms, &t, "ill-sorted", &mut stats);
                    out.push(&mut stats, line);
                    continue;
                }
                let (t, origin) = match r.below(6) {
                    0 if text.starts_with("(declare-const ") => {
                        // (declare-fun n () T)
                        let rest = &text["(declare-const ".len()..];
                        let sp = rest.find(' ').unwrap_or(0);
                        (format!("(declare-fun {} (){}", &rest[..sp], &rest[sp..]), "declare-fun")
                    }
                    0 | 1 if text.starts_with("(define-fun ") => {
                        // (define-const n T e)
                        (text.replacen("(define-fun ", "(define-const ", 1).replacen(" () ", " ", 1), "define-const")
                    }
                    2 => (format!("; comment\n{text} ; trailing"), "comments"),
                    _ => {
                        let (v, o) = variant(&mut r, &text);
                        (v, o)
                    }
                };
                let line = case_cmdtext(&id, &mut ctx, &syms, &t, origin, &mut stats);
                out.push(&mut stats, line);
            }
            "script" => {
                // a few commands as the writer prints them, one per line; sometimes cut / with comments and blank lines
                let mut lines: Vec<String> = vec![];
                let mut cmds_list: Vec<String> = vec![];
                let mut mutated = false;
                let mut pre_syms: Vec<ExprRef> = vec![];
                {
                    let mut g = Gen::new(&mut ctx, &mut r);
                    g.plain_names = g.rng.chance(2, 3);
                    let k = 1 + g.rng.below(4);
                    let mut cmds = vec![];
                    if g.rng.chance(1, 4) {
                        cmds = gen_redeclare(&mut g);
                        stats.bump("script_shape", "redeclare");
                    } else if g.rng.chance(1, 3) {
                        cmds = gen_declare_use(&mut g);
                        stats.bump("script_shape", "declare-use");
                    } else {
                        for _ in 0..k {
                            cmds.push(gen_cmd(&mut g, &mut stats));
                        }
                        stats.bump("script_shape", "random");
                    }
                    drop(g);
                    let mut declared: Vec<ExprRef> = vec![];
                    for c in cmds.iter() {
                        for s in symbols_of(&ctx, &cmd_exprs(c)) {
                            let intro = matches!(c, CmdCase::Declare(x) | CmdCase::Define(x, _) if *x == s);
                            if !intro && !declared.contains(&s) && !pre_syms.contains(&s) {
                                pre_syms.push(s);
                            }
                        }
                        if let CmdCase::Declare(x) | CmdCase::Define(x, _) = c {
                            declared.push(*x);
                        }
                        if let Ok(t) = write_cmd(&ctx, &cmd_to_impl(c)) {
                            lines.push(t);
                            cmds_list.push(format!(" {}", dump_cmd(&ctx, c).0));
                        }
                    }
                }
                let mut ncmds = lines.len() as u64;
                match r.below(8) {
                    0 => lines.insert(0, "; a comment line\n".to_string()),
                    1 => lines.insert(0, "   \n".to_string()),
                    2 => {
                        // the last command broken over two lines
                        if let Some(l) = lines.pop() {
                            if let Some(p) = l.find(' ') {
                                lines.push(format!("{}\n", &l[..p]));
                                lines.push(l[p + 1..].to_string());
                            } else {
                                lines.push(l);
                            }
                        }
                    }
                    3 => {
                        // truncated last command
                        if let Some(l) = lines.pop() {
                            let (v, _) = variant(&mut r, l.trim_end());
                            lines.push(format!("{v}\n"));
                            ncmds -= 1;
                            cmds_list.pop();
                            mutated = true;
                        }
                    }
                    4 => {
                        if let Some(l) = lines.last_mut() {
                            *l = l.trim_end().to_string(); // no final newline
                        }
                    }
                    _ => {}
                }
                // the commands that are kept intact are recorded (the oracle compares them); `mutated` = the last line is a malformed variant
                // lines as read_line delivers them (a quoted symbol may contain a line break)
                let lines: Vec<String> = lines.concat().split_inclusive('\n').map(|l| l.to_string()).collect();
                let cmds_txt: String = cmds_list.concat();
                let line = case_script(&id, &mut ctx, &pre_syms, &lines, ncmds, &cmds_txt, mutated, &mut stats);
                out.push(&mut stats, line);
            }
            _ => {
                // get-unsat-assumptions responses over a few declared 1-bit and wider symbols
                let names: Vec<(String, WidthInt)> = vec![("l0".into(), 1), ("l1".into(), 1), ("a b".into(), 1), ("v".into(), 4)];
                let mut items: Vec<String> = vec![];
                for _ in 0..r.below(4) {
                    items.push(
                        match r.below(6) {
                            0 => "l0",
                            1 => "(not l1)",
                            2 => "|a b|",
                            3 => "(= v #b0001)",
                            4 => "(not (= v #x3))",
                            _ => "unknown_sym",
                        }
                        .to_string(),
                    );
                }
                let response = match r.below(8) {
                    0 => format!("(({}) x)", items.join(" ")),
                    1 => format!("{})", items.join(" ")),
                    2 => format!("({})) x", items.join(" ")),
                    _ => format!("({})", items.join(" ")),
                };
                gua_queue.push((id, names, response));
            }
        }
    }

    // ---- real solver answers become `val` cases
    if !solver_batch.is_empty() && !solver_meta.is_empty() {
        for (name, b) in solver_batch.iter() {
            let outs = b.run(name, &scratch);
            for (id, _ty) in solver_meta.iter() {
                if let Some(o) = outs.get(id) {
                    // "sat\n((term value))\n": keep the answer part
                    let mut lines = o.lines();
                    if lines.next() != Some("sat") {
                        stats.bump("solver_answer", &format!("{name}:not-sat"));
                        continue;
                    }
                    let answer: String = lines.collect::<Vec<_>>().join("\n");
                    if answer.trim_start().starts_with("(error") || answer.trim().is_empty() {
                        stats.bump("solver_answer", &format!("{name}:error"));
                        continue;
                    }
                    if waits_for_more(&answer) {
                        stats.bump("solver_answer", &format!("{name}:unbalanced"));
                        continue;
                    }
                    stats.bump("solver_answer", &format!("{name}:value"));
                    val_queue.push((format!("{id}{name}"), String::new(), answer, format!("solver:{name}")));
                }
            }
        }
    }

    // ---- fake-solver sessions
    if !val_queue.is_empty() {
        let fake = Fake::new(&scratch);
        let responses: Vec<String> = val_queue.iter().map(|(_, _, resp, _)| resp.clone()).collect();
        let mut ctx = Context::default();
        let q = ctx.bv_symbol("q", 1);
        let mut sc = fake.start(&responses);
        for (id, text, response, via) in val_queue.iter() {
            let res = guarded(|| sc.get_value(&mut ctx, q).map_err(|e| format!("{e}")));
            stats.bump(&format!("val_result:{}", via.split(':').next().unwrap_or("")), match &res { Ok(Ok(_)) => "ok", Ok(Err(_)) => "err", Err(_) => "panic" });
            let line = format!("(case {id} (kind val) (text {}) (response {}) (impl {}) (via {}))", quote(text), quote(response), dump_res(&ctx, &res, &mut stats), quote(via));
            out.push(&mut stats, line);
        }
    }
    if !gua_queue.is_empty() {
        let fake = Fake::new(&scratch);
        let mut ctx = Context::default();
        let names = gua_queue[0].1.clone();
        let syms: Vec<ExprRef> = names.iter().map(|(n, w)| ctx.bv_symbol(n, *w)).collect();
        let mut responses = vec![];
        for (_, _, r) in gua_queue.iter() {
            responses.push("unsat".to_string());
            responses.push(r.clone());
        }
        let mut sc = fake.start(&responses);
        for s in syms.iter() {
            sc.declare_const(&ctx, *s).expect("declare");
        }
        for (id, _, response) in gua_queue.iter() {
            let line = gua_step(id, &mut sc, &mut ctx, &syms, response, &mut stats);
            out.push(&mut stats, line);
        }
    }

    for line in out.lines.iter() {
        writeln!(outf, "{line}").unwrap();
    }
    stats.add("distinct_cases", out.distinct.len() as u64);
    stats.write(&args.out);
}

fn gua_step(id: &str, sc: &mut patronus::smt::SmtLibSolverCtx, ctx: &mut Context, syms: &[ExprRef], response: &str, stats: &mut Stats) -> String {
    let res: Result<Result<Vec<ExprRef>, String>, String> = guarded(|| {
        sc.check_sat().map_err(|e| format!("{e}"))?;
        sc.get_unsat_assumptions(ctx).map_err(|e| format!("{e}"))
    });
    let r = match &res {
        Ok(Ok(es)) => format!("(ok{})", es.iter().map(|e| format!(" {}", dump_expr(ctx, *e))).collect::<String>()),
        Ok(Err(m)) => format!("(err {})", quote(m)),
        Err(m) => {
            stats.bump("impl_panic_loc", &last_panic_loc());
            format!("(panic {} {})", quote(&last_panic_loc()), quote(m))
        }
    };
    stats.bump("gua_result", match &res { Ok(Ok(_)) => "ok", Ok(Err(_)) => "err", Err(_) => "panic" });
    format!("(case {id} (kind gua) (st{}) (response {}) (impl {r}))", dump_st(ctx, syms), quote(response))
}

fn run_gua(id: &str, fake: &Fake, ctx: &mut Context, syms: &[ExprRef], response: &str, stats: &mut Stats) -> String {
    let mut sc = fake.start(&["unsat".to_string(), response.to_string()]);
    for s in syms {
        sc.declare_const(ctx, *s).expect("declare");
    }
    gua_step(id, &mut sc, ctx, syms, response, stats)
}

fn sexp_to_string(x: &Sexp) -> String {
    match x {
        Sexp::Atom(a) => a.clone(),
        Sexp::Str(s) => quote(s),
        Sexp::List(l) => format!("({})", l.iter().map(sexp_to_string).collect::<Vec<_>>().join(" ")),
    }
}
