//! C03: every counterexample returned by `patronus::mc::bmc` is a real execution.
//! Same runner and case format as C02 (see c02.rs), restricted to systems that have a counterexample
//! within the bound, each run under several solver profiles and model-diversity settings
//! (z3 random seeds / phase selection through the shims' command line, and cvc5), plus, per system,
//! `bmc` with check_constraints = true (individual checking on z3, either mode behind the push/pop profile)
//! and `patronus::mc::pdr` on z3 (time-limited child process): every Fail witness of every entry point goes
//! to the extracted `check_witness`, and its recorded get-value calls to the model of `get_witness`.
use crate::util::Args;

pub fn run(args: &Args) {
    crate::c02::run_mc(args, true);
}
