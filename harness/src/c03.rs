//! C03: every counterexample returned by `patronus::mc::bmc` is a real execution.
//! Same runner and case format as C02 (see c02.rs), restricted to systems that have a counterexample
//! within the bound, each run under several solver profiles and model-diversity settings
//! (z3 random seeds / phase selection through the shims' command line, and cvc5).
use crate::util::Args;

pub fn run(args: &Args) {
    crate::c02::run_mc(args, true);
}
