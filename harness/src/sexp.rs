//! S-expression reader (same syntax as ocaml/driver/sexp.ml) and expression re-builder, used to
//! replay dumped cases against the implementation.
use baa::BitVecValue;
use patronus::expr::*;

#[derive(Clone, Debug, PartialEq)]
pub enum Sexp {
    Atom(String),
    Str(String),
    List(Vec<Sexp>),
}

impl Sexp {
    pub fn parse(s: &str) -> Result<Sexp, String> {
        let b = s.as_bytes();
        let mut pos = 0usize;
        let r = parse_item(b, &mut pos)?;
        skip_ws(b, &mut pos);
        if pos != b.len() {
            return Err("trailing input".into());
        }
        Ok(r)
    }
    pub fn atom(&self) -> &str {
        match self {
            Sexp::Atom(a) => a,
            Sexp::Str(a) => a,
            Sexp::List(_) => panic!("expected atom, got list"),
        }
    }
    pub fn list(&self) -> &[Sexp] {
        match self {
            Sexp::List(l) => l,
            _ => panic!("expected list"),
        }
    }
    pub fn head(&self) -> &str {
        self.list()[0].atom()
    }
    /// `(key v...)` lookup among the items of a list
    pub fn field(&self, name: &str) -> Option<&[Sexp]> {
        for it in self.list() {
            if let Sexp::List(l) = it {
                if let Some(Sexp::Atom(k)) = l.first() {
                    if k == name {
                        return Some(&l[1..]);
                    }
                }
            }
        }
        None
    }
    pub fn num(&self) -> u64 {
        self.atom().parse().expect("number")
    }
    pub fn bits(&self) -> BitVecValue {
        let a = self.atom();
        assert!(a.starts_with('b'), "expected b<bits>, got {a}");
        BitVecValue::from_bit_str(&a[1..]).unwrap()
    }
}

fn skip_ws(b: &[u8], pos: &mut usize) {
    while *pos < b.len() && (b[*pos] as char).is_ascii_whitespace() {
        *pos += 1;
    }
}

fn parse_item(b: &[u8], pos: &mut usize) -> Result<Sexp, String> {
    skip_ws(b, pos);
    if *pos >= b.len() {
        return Err("unexpected end".into());
    }
    match b[*pos] {
        b'(' => {
            *pos += 1;
            let mut items = vec![];
            loop {
                skip_ws(b, pos);
                if *pos >= b.len() {
                    return Err("unclosed paren".into());
                }
                if b[*pos] == b')' {
                    *pos += 1;
                    break;
                }
                items.push(parse_item(b, pos)?);
            }
            Ok(Sexp::List(items))
        }
        b')' => Err("unexpected )".into()),
        b'"' => {
            *pos += 1;
            let mut out: Vec<u8> = vec![];
            loop {
                if *pos >= b.len() {
                    return Err("unclosed string".into());
                }
                let c = b[*pos];
                *pos += 1;
                if c == b'"' {
                    break;
                }
                if c == b'\\' {
                    let e = b[*pos];
                    *pos += 1;
                    match e {
                        b'n' => out.push(b'\n'),
                        b't' => out.push(b'\t'),
                        b'r' => out.push(b'\r'),
                        b'x' => {
                            let h = std::str::from_utf8(&b[*pos..*pos + 2]).unwrap();
                            out.push(u8::from_str_radix(h, 16).unwrap());
                            *pos += 2;
                        }
                        c => out.push(c),
                    }
                } else {
                    out.push(c);
                }
            }
            Ok(Sexp::Str(String::from_utf8_lossy(&out).into_owned()))
        }
        _ => {
            let start = *pos;
            while *pos < b.len() && !matches!(b[*pos], b' ' | b'\t' | b'\n' | b'\r' | b'(' | b')' | b'"') {
                *pos += 1;
            }
            Ok(Sexp::Atom(String::from_utf8_lossy(&b[start..*pos]).into_owned()))
        }
    }
}

/// Rebuild an expression from its tree dump through the public builders.
pub fn build_expr(ctx: &mut Context, x: &Sexp) -> ExprRef {
    let l = x.list();
    let tag = l[0].atom();
    let w = |i: usize| l[i].num() as WidthInt;
    match tag {
        "sym" => ctx.bv_symbol(l[1].atom(), w(2)),
        "lit" => {
            let v = l[2].bits();
            ctx.bv_lit(&v)
        }
        "asym" => ctx.array_symbol(l[1].atom(), w(2), w(3)),
        _ => {
            let a = build_expr(ctx, &l[1]);
            match tag {
                "zext" => ctx.zero_extend(a, w(2)),
                "sext" => ctx.sign_extend(a, w(2)),
                "slice" => ctx.slice(a, w(2), w(3)),
                "not" => ctx.not(a),
                "neg" => ctx.negate(a),
                "aconst" => ctx.array_const(a, w(2)),
                _ => {
                    let b = build_expr(ctx, &l[2]);
                    match tag {
                        "eq" | "aeq" => ctx.equal(a, b),
                        "implies" => ctx.implies(a, b),
                        "ugt" => ctx.greater(a, b),
                        "sgt" => ctx.greater_signed(a, b),
                        "uge" => ctx.greater_or_equal(a, b),
                        "sge" => ctx.greater_or_equal_signed(a, b),
                        "concat" => ctx.concat(a, b),
                        "and" => ctx.and(a, b),
                        "or" => ctx.or(a, b),
                        "xor" => ctx.xor(a, b),
                        "shl" => ctx.shift_left(a, b),
                        "ashr" => ctx.arithmetic_shift_right(a, b),
                        "lshr" => ctx.shift_right(a, b),
                        "add" => ctx.add(a, b),
                        "mul" => ctx.mul(a, b),
                        "sdiv" => ctx.signed_div(a, b),
                        "udiv" => ctx.div(a, b),
                        "smod" => ctx.signed_mod(a, b),
                        "srem" => ctx.signed_remainder(a, b),
                        "urem" => ctx.remainder(a, b),
                        "sub" => ctx.sub(a, b),
                        "read" => ctx.array_read(a, b),
                        _ => {
                            let c = build_expr(ctx, &l[3]);
                            match tag {
                                "ite" | "aite" => ctx.ite(a, b, c),
                                "store" => ctx.array_store(a, b, c),
                                other => panic!("unknown expression tag {other}"),
                            }
                        }
                    }
                }
            }
        }
    }
}

/// read the `(case ...)` lines of a file (comment lines start with ';')
pub fn read_cases(path: &str) -> Vec<Sexp> {
    let txt = std::fs::read_to_string(path).expect("cases file");
    txt.lines().filter(|l| !l.trim().is_empty() && !l.starts_with(';')).map(|l| Sexp::parse(l).expect("case line")).collect()
}
