//! C02 (and, through `run_mc`, C03): the real `patronus::mc::bmc` against real solvers.
//! One case per system:
//! (case ID (sys ..) (named ..) (names ..) (k K) (simp (sys ..))?
//!   (runs (run (profile P) (session fresh|reused|child) (mode indiv|joint|indiv+cc|joint+cc|pdr) (simp raw|simplified) (z3args "..") RESULT)..))
//! mode: indiv/joint = bmc(.., false, individually, k); +cc = check_constraints = true; pdr = patronus::mc::pdr (C03 only,
//! in a time-limited child process; its witness is the one of the BMC fallback after the solver restart)
//! RESULT  = (success) | (unknown) | (err "msg") | (panic "msg") | (fail WITNESS (sim "ok"|"skipped: .."|"mismatch: .."))
//! WITNESS = (witness (init (v NAME VAL)..) (inputs (step (v NAME VAL)..)..) (failed idx..))
//! NAME    = "name" | (noname);   VAL = (bv w bits) | (arr iw dw bits..) | (none)
//!
//! Profiles: z3 and cvc5 drive the real SmtLibSolverCtx directly (patronus::smt::Z3 / CVC5); bitwuzla and
//! yices-smt2 are not installed: harness/shims/{bitwuzla,yices-smt2} put z3 behind the BITWUZLA / YICES2
//! capability profiles (check-sat-assuming vs push/pop emulation, logic selection), found through a private
//! PATH entry.  Solver processes are expensive here, so most runs share one process per profile: each run is
//! bracketed by push/pop (declarations are scoped) and the repeated set-logic is swallowed; every few runs
//! a fresh process is used exactly as a user of the library would.
use crate::c04::mcgen::*;
use crate::c04::sexp_to_string;
use crate::dump::*;
use crate::exprgen::*;
use crate::rng::Rng;
use crate::sexp::{Sexp, read_cases};
use crate::sysgen::dump_sys;
use crate::util::*;
use baa::{ArrayOps, BitVecOps, BitVecValue, Value};
use patronus::expr::*;
use patronus::mc::{InitValue, ModelCheckResult, Witness, bmc, pdr};
use patronus::sim::{InitKind, Interpreter, Simulator};
use patronus::smt::*;
use patronus::system::transform::simplify_expressions;
use patronus::system::*;
use std::collections::HashMap;
use std::io::Write;

pub const PROFILES: [&str; 4] = ["z3", "cvc5", "bitwuzla", "yices-smt2"];

pub fn solver_of(p: &str) -> SmtLibSolver {
    match p {
        "z3" => Z3,
        "cvc5" => CVC5,
        "bitwuzla" => BITWUZLA,
        "yices-smt2" => YICES2,
        other => panic!("unknown profile {other}"),
    }
}

/// put the shim directory in front of PATH (once)
pub fn setup_path() {
    let dir = std::env::var("VERIF_SHIM_DIR").unwrap_or_else(|_| {
        // the real location of this source file's crate: follow the src symlink of scratch copies
        let src = std::fs::canonicalize(concat!(env!("CARGO_MANIFEST_DIR"), "/src")).expect("src dir");
        src.parent().unwrap().join("shims").to_string_lossy().into_owned()
    });
    let old = std::env::var("PATH").unwrap_or_default();
    if !old.starts_with(&dir) {
        // SAFETY: single-threaded harness
        unsafe { std::env::set_var("PATH", format!("{dir}:{old}")) };
    }
}

pub fn set_z3_args(a: &str) {
    unsafe { std::env::set_var("SHIM_Z3_ARGS", a) };
}

/// the logic `start_bmc_or_pdr` selects for a solver
fn logic_for(s: &impl SolverMetaData) -> Logic {
    if s.name() == "z3" {
        Logic::All
    } else if s.supports_uf() {
        Logic::QfAufbv
    } else {
        Logic::QfAbv
    }
}

/// A view of a long-lived solver process for one run: forwards everything, swallows the repeated
/// set-logic (it was sent when the process was started), counts push/pop so that the caller can
/// restore the outer level.
pub struct Wrap<'a> {
    inner: &'a mut SmtLibSolverCtx,
    depth: usize,
    logic_mismatch: bool,
    /// a fresh process: set-logic is forwarded
    pass_logic: bool,
    /// the get-value calls: the queried expression and the value the library reads back
    /// (`get_smt_value`: the answer evaluated without symbols), both dumped
    values: Vec<(String, String)>,
}

impl SolverMetaData for Wrap<'_> {
    fn name(&self) -> &str {
        self.inner.name()
    }
    fn supports_check_assuming(&self) -> bool {
        self.inner.supports_check_assuming()
    }
    fn supports_uf(&self) -> bool {
        self.inner.supports_uf()
    }
    fn supports_const_array(&self) -> bool {
        self.inner.supports_const_array()
    }
    fn supports_get_unsat_assumptions(&self) -> bool {
        self.inner.supports_get_unsat_assumptions()
    }
}

impl SolverContext for Wrap<'_> {
    fn restart(&mut self) -> Result<()> {
        // pdr restarts the solver before its BMC fallback: the get-value calls of the PDR part are not
        // part of the witness extraction that follows
        self.values.clear();
        self.inner.restart()
    }
    fn set_logic(&mut self, option: Logic) -> Result<()> {
        if self.pass_logic {
            return self.inner.set_logic(option);
        }
        if option != logic_for(self.inner) {
            self.logic_mismatch = true;
        }
        Ok(())
    }
    fn assert(&mut self, ctx: &Context, e: ExprRef) -> Result<()> {
        self.inner.assert(ctx, e)
    }
    fn declare_const(&mut self, ctx: &Context, symbol: ExprRef) -> Result<()> {
        self.inner.declare_const(ctx, symbol)
    }
    fn define_const(&mut self, ctx: &Context, symbol: ExprRef, expr: ExprRef) -> Result<()> {
        self.inner.define_const(ctx, symbol, expr)
    }
    fn check_sat_assuming(&mut self, ctx: &Context, props: impl IntoIterator<Item = ExprRef>) -> Result<CheckSatResponse> {
        self.inner.check_sat_assuming(ctx, props)
    }
    fn check_sat(&mut self) -> Result<CheckSatResponse> {
        self.inner.check_sat()
    }
    fn push(&mut self) -> Result<()> {
        self.depth += 1;
        self.inner.push()
    }
    fn pop(&mut self) -> Result<()> {
        self.depth = self.depth.saturating_sub(1);
        self.inner.pop()
    }
    fn get_value(&mut self, ctx: &mut Context, e: ExprRef) -> Result<ExprRef> {
        let v = self.inner.get_value(ctx, e)?;
        // what `get_smt_value` makes of the answer (it panics on the same answers as this does)
        let empty: rustc_hash::FxHashMap<ExprRef, BitVecValue> = rustc_hash::FxHashMap::default();
        let value = eval_expr(ctx, &empty, v);
        self.values.push((dump_expr(ctx, e), dump_value(&value)));
        Ok(v)
    }
    fn get_unsat_assumptions(&mut self, ctx: &mut Context) -> Result<Vec<ExprRef>> {
        self.inner.get_unsat_assumptions(ctx)
    }
}

pub struct Pool {
    sessions: HashMap<String, SmtLibSolverCtx>,
    pub launches: u64,
    /// the get-value calls of the last `run_bmc`
    pub last_queries: Vec<(String, String)>,
}

impl Pool {
    pub fn new() -> Self {
        Pool { sessions: HashMap::new(), launches: 0, last_queries: Vec::new() }
    }
    pub fn drop_all(&mut self) {
        self.sessions.clear();
    }
    pub fn drop_profile(&mut self, p: &str) {
        self.sessions.remove(p);
    }
}

pub enum RunResult {
    Success,
    Unknown,
    Fail(Witness),
    Err(String),
    Panic(String),
}

/// Wall-clock guard around the calls into the library: the library can spin for ever when a solver
/// process dies (read_response on EOF).  A watchdog thread ends the harness with a diagnostic (exit
/// code 3: infrastructure failure) instead of hanging the check.
static WATCH_DEADLINE: std::sync::atomic::AtomicU64 = std::sync::atomic::AtomicU64::new(0);
static WATCH_STARTED: std::sync::Once = std::sync::Once::new();

fn now_s() -> u64 {
    std::time::SystemTime::now().duration_since(std::time::UNIX_EPOCH).map(|d| d.as_secs()).unwrap_or(0)
}

pub fn watchdog_arm(limit_s: u64, what: &str) {
    WATCH_STARTED.call_once(|| {
        std::thread::spawn(|| loop {
            std::thread::sleep(std::time::Duration::from_millis(500));
            let d = WATCH_DEADLINE.load(std::sync::atomic::Ordering::SeqCst);
            if d != 0 && now_s() > d {
                let what = std::fs::read_to_string(format!("c02-current-run-{}.txt", std::process::id())).unwrap_or_default();
                eprintln!("harness watchdog: a call into patronus::mc::bmc did not return in time (the library spins when the solver process has exited); current run:\n{what}");
                std::process::exit(3);
            }
        });
    });
    let _ = std::fs::write(format!("c02-current-run-{}.txt", std::process::id()), what);
    WATCH_DEADLINE.store(now_s() + limit_s, std::sync::atomic::Ordering::SeqCst);
}

pub fn watchdog_disarm() {
    WATCH_DEADLINE.store(0, std::sync::atomic::Ordering::SeqCst);
}

/// which entry point of patronus::mc a run calls (C03: the witnesses of all of them are checked)
#[derive(Clone, Copy, PartialEq, Eq, Debug)]
pub enum Engine {
    /// bmc(.., check_constraints = false, ..)
    Bmc,
    /// bmc(.., check_constraints = true, ..)
    BmcCc,
    /// pdr(.., disable_unsat_cores = false): the witness comes from its BMC fallback after a restart
    Pdr,
}

impl Engine {
    pub fn mode_str(self, individually: bool) -> &'static str {
        match (self, individually) {
            (Engine::Bmc, true) => "indiv",
            (Engine::Bmc, false) => "joint",
            (Engine::BmcCc, true) => "indiv+cc",
            (Engine::BmcCc, false) => "joint+cc",
            (Engine::Pdr, _) => "pdr",
        }
    }
    pub fn parse(mode: &str) -> (Engine, bool) {
        match mode {
            "indiv" => (Engine::Bmc, true),
            "joint" => (Engine::Bmc, false),
            "indiv+cc" => (Engine::BmcCc, true),
            "joint+cc" => (Engine::BmcCc, false),
            "pdr" => (Engine::Pdr, false),
            other => panic!("unknown mode {other}"),
        }
    }
}

/// one call of the real `bmc`
pub fn run_bmc(pool: &mut Pool, profile: &str, fresh: bool, ctx: &mut Context, sys: &TransitionSystem, individually: bool, k: u64) -> RunResult {
    run_engine(pool, profile, fresh, ctx, sys, Engine::Bmc, individually, k)
}

fn call_engine(engine: Engine, ctx: &mut Context, w: &mut Wrap, sys: &TransitionSystem, individually: bool, k: u64) -> Result<ModelCheckResult> {
    match engine {
        Engine::Bmc => bmc(ctx, w, sys, false, individually, k),
        Engine::BmcCc => bmc(ctx, w, sys, true, individually, k),
        Engine::Pdr => pdr(ctx, w, sys, false),
    }
}

/// one call of the real `bmc` / `pdr`
#[allow(clippy::too_many_arguments)]
pub fn run_engine(pool: &mut Pool, profile: &str, fresh: bool, ctx: &mut Context, sys: &TransitionSystem, engine: Engine, individually: bool, k: u64) -> RunResult {
    let solver = solver_of(profile);
    // pdr restarts the solver process: never on a shared session
    let fresh = fresh || engine == Engine::Pdr;
    pool.last_queries.clear();
    let to_res = |r: std::result::Result<Result<ModelCheckResult>, String>| match r {
        Ok(Ok(ModelCheckResult::Success)) => RunResult::Success,
        Ok(Ok(ModelCheckResult::Unknown)) => RunResult::Unknown,
        Ok(Ok(ModelCheckResult::Fail(w))) => RunResult::Fail(w),
        Ok(Err(e)) => RunResult::Err(format!("{e}")),
        Err(p) => RunResult::Panic(format!("{p} @ {}", last_panic_loc())),
    };
    if fresh {
        pool.launches += 1;
        // debugging aid: VERIF_SMT_REPLAY=<file> makes fresh runs write patronus' replay file
        let replay = std::env::var("VERIF_SMT_REPLAY").ok().and_then(|p| std::fs::File::create(p).ok());
        let mut smt = match solver.start(replay) {
            Ok(s) => s,
            Err(e) => return RunResult::Err(format!("cannot start {profile}: {e}")),
        };
        let (res, values) = {
            let mut w = Wrap { inner: &mut smt, depth: 0, logic_mismatch: false, pass_logic: true, values: Vec::new() };
            let r = guarded(|| call_engine(engine, ctx, &mut w, sys, individually, k));
            (r, w.values)
        };
        pool.last_queries = values;
        return to_res(res);
    }
    if !pool.sessions.contains_key(profile) {
        pool.launches += 1;
        let mut s = match solver.start(None) {
            Ok(s) => s,
            Err(e) => return RunResult::Err(format!("cannot start {profile}: {e}")),
        };
        let l = logic_for(&s);
        if let Err(e) = s.set_logic(l) {
            return RunResult::Err(format!("set-logic: {e}"));
        }
        pool.sessions.insert(profile.to_string(), s);
    }
    let inner = pool.sessions.get_mut(profile).unwrap();
    if let Err(e) = inner.push() {
        pool.sessions.remove(profile);
        return RunResult::Err(format!("outer push: {e}"));
    }
    let (res, depth, mismatch, values) = {
        let mut w = Wrap { inner, depth: 0, logic_mismatch: false, pass_logic: false, values: Vec::new() };
        let r = guarded(|| call_engine(engine, ctx, &mut w, sys, individually, k));
        (r, w.depth, w.logic_mismatch, w.values)
    };
    pool.last_queries = values;
    let res = to_res(res);
    let broken = matches!(res, RunResult::Err(_) | RunResult::Panic(_));
    if broken {
        // the session may be out of step with the solver's output: discard it
        pool.sessions.remove(profile);
    } else {
        let inner = pool.sessions.get_mut(profile).unwrap();
        let mut ok = true;
        for _ in 0..=depth {
            ok &= inner.pop().is_ok();
        }
        if !ok {
            pool.sessions.remove(profile);
        }
    }
    if mismatch {
        return RunResult::Err("harness: bmc selected another logic than the session was started with".to_string());
    }
    res
}

// ---------------------------------------------------------------- dumps
pub fn dump_value(v: &Value) -> String {
    match v {
        Value::BitVec(b) => format!("(bv {} {})", b.width(), bv_tok(b)),
        Value::Array(a) => {
            let mut s = format!("(arr {} {}", a.index_width(), a.data_width());
            for i in 0..a.num_elements() {
                let idx = BitVecValue::from_u64(i as u64, a.index_width());
                s.push(' ');
                s.push_str(&bv_tok(&a.select(&idx)));
            }
            s.push(')');
            s
        }
    }
}

fn dump_name(n: &Option<String>) -> String {
    match n {
        Some(s) => quote(s),
        None => "(noname)".to_string(),
    }
}

pub fn dump_witness(w: &Witness) -> String {
    let mut s = String::from("(witness (init");
    for (k, v) in w.init.iter().enumerate() {
        let name = w.init_names.get(k).cloned().unwrap_or(None);
        let val = match v {
            InitValue::BitVec(b) => dump_value(&Value::BitVec(b.clone())),
            InitValue::Array(a, _) => dump_value(&Value::Array(a.clone())),
            InitValue::None => "(none)".to_string(),
        };
        s.push_str(&format!(" (v {} {})", dump_name(&name), val));
    }
    // names without a value are kept visible
    for k in w.init.len()..w.init_names.len() {
        s.push_str(&format!(" (v {} (none))", dump_name(&w.init_names[k])));
    }
    s.push_str(") (inputs");
    for step in w.inputs.iter() {
        s.push_str(" (step");
        for (k, v) in step.iter().enumerate() {
            let name = w.input_names.get(k).cloned().unwrap_or(None);
            let val = match v {
                Some(v) => dump_value(v),
                None => "(none)".to_string(),
            };
            s.push_str(&format!(" (v {} {})", dump_name(&name), val));
        }
        s.push(')');
    }
    s.push_str(") (input-names");
    for n in w.input_names.iter() {
        s.push(' ');
        s.push_str(&dump_name(n));
    }
    s.push_str(") (failed");
    for f in w.failed_safety.iter() {
        s.push_str(&format!(" {f}"));
    }
    s.push_str("))");
    s
}

/// Replay a witness through patronus' own simulator.  "ok" | "skipped: why" | "mismatch: what"
pub fn sim_replay(ctx: &Context, sys: &TransitionSystem, w: &Witness) -> String {
    if sys.states.iter().any(|s| matches!(s.symbol.get_type(ctx), Type::Array(_))) {
        return "skipped: array state (Interpreter::set takes bit-vectors only)".to_string();
    }
    if w.init.len() != sys.states.len() || w.inputs.is_empty() || w.inputs.iter().any(|s| s.len() != sys.inputs.len()) {
        return "mismatch: witness shape".to_string();
    }
    let nextless = sys.states.iter().any(|s| s.next.is_none());
    let r = guarded(|| -> String {
        let mut sim = Interpreter::new(ctx, sys);
        sim.init(InitKind::Zero);
        for (st, v) in sys.states.iter().zip(w.init.iter()) {
            match v {
                InitValue::BitVec(b) => sim.set(st.symbol, b),
                _ => return "mismatch: state without bit-vector value".to_string(),
            }
        }
        let set_inputs = |sim: &mut Interpreter, step: &Vec<Option<Value>>| -> bool {
            for (i, v) in sys.inputs.iter().zip(step.iter()) {
                match v {
                    Some(Value::BitVec(b)) => sim.set(*i, b),
                    _ => return false,
                }
            }
            true
        };
        if !set_inputs(&mut sim, &w.inputs[0]) {
            return "mismatch: input without bit-vector value".to_string();
        }
        // initial values agree with the init expressions
        for (st, v) in sys.states.iter().zip(w.init.iter()) {
            if let (Some(init), InitValue::BitVec(b)) = (st.init, v) {
                match sim.get(init) {
                    Value::BitVec(x) if x.is_equal(b) => {}
                    _ => return format!("mismatch: init of {}", ctx.get_symbol_name(st.symbol).unwrap_or("?")),
                }
            }
        }
        let last = w.inputs.len() - 1;
        for (k, step) in w.inputs.iter().enumerate() {
            if !set_inputs(&mut sim, step) {
                return "mismatch: input without bit-vector value".to_string();
            }
            for (ci, c) in sys.constraints.iter().enumerate() {
                match sim.get(*c) {
                    Value::BitVec(x) if !x.is_zero() => {}
                    _ => return format!("mismatch: constraint {ci} violated at step {k}"),
                }
            }
            if k == last {
                let mut any = false;
                for (bi, b) in sys.bad_states.iter().enumerate() {
                    let holds = matches!(sim.get(*b), Value::BitVec(x) if !x.is_zero());
                    any |= holds;
                    if holds != w.failed_safety.contains(&(bi as u32)) {
                        return format!("mismatch: bad state {bi} holds={holds} at the last step, failed_safety={:?}", w.failed_safety);
                    }
                }
                if !any {
                    return "mismatch: no bad state at the last step".to_string();
                }
            } else {
                sim.step();
            }
        }
        "ok".to_string()
    });
    match r {
        Ok(s) if s.starts_with("mismatch") && nextless && w.inputs.len() > 1 => format!("skipped: state without next function (free in the encoding, kept by the simulator); replay said {s}"),
        Ok(s) => s,
        Err(p) => format!("skipped: simulator panicked: {p} @ {}", last_panic_loc()),
    }
}

/// does the system contain (as const ..) applied to something that is not a literal?  cvc5 refuses
/// such a term, prints a multi-line parse error and EXITS; patronus' read_response then spins on EOF.
pub fn has_nonvalue_const_array(ctx: &Context, sys: &TransitionSystem) -> bool {
    // a literal that is itself a constraint / bad state becomes a signal: the encoding then
    // replaces it by its step symbol everywhere, also below (as const ..)
    let literal_root = sys.constraints.iter().chain(sys.bad_states.iter()).any(|e| matches!(ctx[*e], Expr::BVLiteral(_)));
    all_nodes(ctx, sys).iter().any(|n| match &ctx[*n] {
        Expr::ArrayConstant { e, .. } => literal_root || !matches!(ctx[*e], Expr::BVLiteral(_)),
        _ => false,
    })
}

/// Run one (profile, mode, simp) in a child process of this harness with a wall-clock limit: used for
/// runs that are known to be able to hang the library (see above).  Returns the `(run ..)` text.
pub fn run_in_child(case_txt: &str, r: &RunSpec, limit_s: u64) -> String {
    let stem = format!("c02-child-{}", std::process::id());
    let inp = format!("{stem}.in");
    let outp = format!("{stem}.out");
    std::fs::write(&inp, format!("{case_txt}\n")).expect("child input");
    let _ = std::fs::remove_file(&outp);
    let spec = format!("{},{},{}", r.profile, r.engine.mode_str(r.individually), if r.simplified { "simplified" } else { "raw" });
    let exe = std::env::current_exe().expect("current exe");
    let child = std::process::Command::new(exe)
        .args(["C02", "--count", "0", "--cases-in", &inp, "--out", &outp, "--one-run", &spec])
        .stdout(std::process::Stdio::null())
        .stderr(std::process::Stdio::null())
        .spawn();
    let head = format!(
        "(run (profile {}) (session child) (mode {}) (simp {}) (z3args \"\")",
        r.profile,
        r.engine.mode_str(r.individually),
        if r.simplified { "simplified" } else { "raw" }
    );
    let mut child = match child {
        Ok(c) => c,
        Err(e) => return format!("{head} (err {}))", quote(&format!("harness: cannot start child: {e}"))),
    };
    let t0 = std::time::Instant::now();
    let mut finished = false;
    while t0.elapsed().as_secs() < limit_s {
        match child.try_wait() {
            Ok(Some(_)) => {
                finished = true;
                break;
            }
            _ => std::thread::sleep(std::time::Duration::from_millis(50)),
        }
    }
    let res = if !finished {
        let _ = child.kill();
        let _ = child.wait();
        // the solver process of the child, if it is still there
        let _ = std::process::Command::new("pkill").args(["-P", &format!("{}", child.id())]).status();
        format!("{head} (hang {}))", quote(&format!("no result within {limit_s} s (child process killed)")))
    } else {
        let txt = std::fs::read_to_string(&outp).unwrap_or_default();
        match txt.find("(runs (run ") {
            Some(i) => {
                // "(runs (run ...))" + ")" of the case
                let body = &txt[i + "(runs ".len()..];
                let body = body.trim_end();
                let body = &body[..body.len().saturating_sub(2)];
                body.replace("(session fresh)", "(session child)")
            }
            None => format!("{head} (err \"harness: child produced no result\"))"),
        }
    };
    let _ = std::fs::remove_file(&inp);
    let _ = std::fs::remove_file(&outp);
    let _ = std::fs::remove_file(format!("{outp}.stats.json"));
    res
}

// ---------------------------------------------------------------- the case
pub struct RunSpec {
    pub profile: &'static str,
    pub fresh: bool,
    pub individually: bool,
    pub simplified: bool,
    /// this process IS the time-limited child: run directly
    pub in_child: bool,
    /// which entry point is called
    pub engine: Engine,
}

pub struct McInput {
    pub ctx: Context,
    pub sys: TransitionSystem,
    pub k: u64,
    pub features: Vec<&'static str>,
}

pub fn run_case(id: &str, inp: McInput, plan: &[RunSpec], pool: &mut Pool, z3args: &str, stats: &mut Stats, child_budget: &mut u64) -> (String, bool) {
    let McInput { mut ctx, sys, k, features } = inp;
    let sys_txt = dump_sys(&ctx, &sys);
    let named = dump_named(&ctx, &sys);
    let names = dump_names(&ctx, &sys);
    // the simplified copy
    let mut simp_sys = sys.clone();
    let simp_ok = guarded(|| simplify_expressions(&mut ctx, &mut simp_sys)).is_ok();
    let simp_txt = if simp_ok { format!(" (simp {})", dump_sys(&ctx, &simp_sys)) } else { String::new() };
    let mut runs = String::from("(runs");
    let mut any_fail = false;
    // did z3 reject the script of the raw / simplified system?  (None: no z3 run on it yet)
    let mut z3_err: [Option<bool>; 2] = [None, None];
    let case_txt = format!("(case {id} {sys_txt} {named} (k {k}))");
    for r in plan {
        if r.simplified && !simp_ok {
            continue;
        }
        let the_sys = if r.simplified { &simp_sys } else { &sys };
        if r.profile == "cvc5" && !r.in_child {
            // cvc5 exits on the first error and the library then spins: probe with z3 first
            let vi = r.simplified as usize;
            if z3_err[vi].is_none() {
                let probe = run_bmc(pool, "z3", false, &mut ctx, the_sys, r.individually, k);
                z3_err[vi] = Some(matches!(probe, RunResult::Err(_) | RunResult::Panic(_)));
                stats.inc("z3_probe_runs_before_cvc5");
            }
            let risky = z3_err[vi] == Some(true) || has_nonvalue_const_array(&ctx, the_sys);
            if risky {
                if *child_budget > 0 {
                    *child_budget -= 1;
                    stats.inc("cvc5_runs_in_child_process_with_time_limit");
                    let txt = run_in_child(&case_txt, r, 8);
                    stats.bump("verdict", if txt.contains("(hang ") { "hang" } else { "child" });
                    runs.push(' ');
                    runs.push_str(&txt);
                } else {
                    stats.inc("cvc5_runs_not_performed_would_hang");
                    runs.push_str(&format!(
                        " (run (profile cvc5) (session none) (mode {}) (simp {}) (z3args \"\") (notrun \"cvc5 would reject the script and exit; the library then spins (observed on the first such cases of this run)\"))",
                        if r.individually { "indiv" } else { "joint" },
                        if r.simplified { "simplified" } else { "raw" }
                    ));
                }
                continue;
            }
        }
        if r.engine == Engine::Pdr && !r.in_child {
            // pdr's loops have no bound the harness could rely on: a child process with a wall-clock limit
            stats.inc("pdr_runs_in_child_process_with_time_limit");
            let txt = run_in_child(&case_txt, r, 40);
            let verdict = if txt.contains("(hang ") {
                "pdr:hang"
            } else if txt.contains("(fail (witness") {
                any_fail = true;
                "pdr:fail"
            } else if txt.contains("(unknown)") {
                "pdr:unknown"
            } else if txt.contains("(success)") {
                "pdr:success"
            } else if txt.contains("(panic ") {
                "pdr:panic"
            } else {
                "pdr:err"
            };
            stats.bump("verdict", verdict);
            stats.bump("config", &format!("{}/pdr/{}", r.profile, if r.simplified { "simplified" } else { "raw" }));
            runs.push(' ');
            runs.push_str(&txt);
            continue;
        }
        watchdog_arm(120, &format!("{} {} {}\n{}", r.profile, r.engine.mode_str(r.individually), if r.simplified { "simplified" } else { "raw" }, case_txt));
        let res = run_engine(pool, r.profile, r.fresh, &mut ctx, the_sys, r.engine, r.individually, k);
        watchdog_disarm();
        if r.profile == "z3" {
            z3_err[r.simplified as usize] = Some(matches!(res, RunResult::Err(_) | RunResult::Panic(_)));
        }
        let res_txt = match &res {
            RunResult::Success => {
                stats.bump("verdict", "success");
                "(success)".to_string()
            }
            RunResult::Unknown => {
                stats.bump("verdict", "unknown");
                "(unknown)".to_string()
            }
            RunResult::Err(m) => {
                stats.bump("verdict", "err");
                format!("(err {})", quote(m))
            }
            RunResult::Panic(m) => {
                stats.bump("verdict", "panic");
                format!("(panic {})", quote(m))
            }
            RunResult::Fail(w) => {
                any_fail = true;
                stats.bump("verdict", "fail");
                stats.bump("cex_length", &format!("{}", w.inputs.len()));
                let sim = sim_replay(&ctx, the_sys, w);
                stats.bump("sim_replay", sim.split(':').next().unwrap_or("?"));
                let mut q = String::from("(queries");
                for (e, v) in pool.last_queries.iter() {
                    q.push_str(&format!(" (q {e} {v})"));
                }
                q.push(')');
                format!("(fail {} (sim {}) {})", dump_witness(w), quote(&sim), q)
            }
        };
        stats.bump("config", &format!("{}/{}/{}", r.profile, r.engine.mode_str(r.individually), if r.simplified { "simplified" } else { "raw" }));
        stats.bump("session", if r.fresh { "fresh-process" } else { "shared-process" });
        runs.push_str(&format!(
            " (run (profile {}) (session {}) (mode {}) (simp {}) (z3args {}) {})",
            r.profile,
            if r.fresh || r.engine == Engine::Pdr { "fresh" } else { "reused" },
            r.engine.mode_str(r.individually),
            if r.simplified { "simplified" } else { "raw" },
            quote(if r.profile == "bitwuzla" || r.profile == "yices-smt2" { z3args } else { "" }),
            res_txt
        ));
    }
    runs.push(')');
    // the loop itself, against a recording solver that answers "unsat" to everything
    let ca = stats.counters.get("loop_recordings").copied().unwrap_or(0) % 2 == 0;
    let indiv = (stats.counters.get("loop_recordings").copied().unwrap_or(0) / 2) % 2 == 0;
    stats.inc("loop_recordings");
    let mut rec = crate::c04::Recorder::new(ca);
    let loop_res = guarded(|| bmc(&mut ctx, &mut rec, &sys, false, indiv, k));
    let mut loop_txt = format!("(loop (check-assuming {}) (mode {}) ", if ca { "yes" } else { "no" }, if indiv { "indiv" } else { "joint" });
    match loop_res {
        Ok(Ok(ModelCheckResult::Success)) => {
            loop_txt.push_str("(events");
            for c in rec.cmds.iter() {
                if matches!(c, crate::c04::RCmd::SetLogic(_)) {
                    continue;
                }
                loop_txt.push(' ');
                loop_txt.push_str(&crate::c04::dump_cmd(&ctx, c));
            }
            loop_txt.push_str("))");
        }
        Ok(_) => loop_txt.push_str("(unexpected))"),
        Err(m) => loop_txt.push_str(&format!("(panic {}))", quote(&format!("{m} @ {}", last_panic_loc())))),
    }
    for f in features.iter() {
        stats.bump("features", f);
    }
    stats.bump("k", &format!("{k}"));
    stats.bump("bads", &format!("{}", sys.bad_states.len()));
    stats.bump("constraints", &format!("{}", sys.constraints.len()));
    (format!("(case {id} {sys_txt} {named} {names} (k {k}){simp_txt} {loop_txt} {runs})"), any_fail)
}

pub const Z3_ARG_SETS: [&str; 6] = [
    "",
    "smt.random_seed=7 sat.random_seed=11",
    "smt.phase_selection=5 smt.random_seed=3 sat.random_seed=5 sat.phase=random",
    "smt.phase_selection=1 sat.phase=always_true",
    "smt.phase_selection=0 sat.phase=always_false smt.random_seed=99",
    "smt.arith.random_initial_value=true smt.random_seed=1234 sat.random_seed=4321 smt.phase_selection=5",
];

/// C02: a constraint under which the executions of many small systems die out after a few steps
/// (`s != v` or `s < v` for a bit-vector state s): with check_constraints = true bmc then meets
/// unsatisfiable constraints at some step.
fn add_dying_constraint(ctx: &mut Context, sys: &mut TransitionSystem, rng: &mut Rng) -> bool {
    let cand: Vec<(ExprRef, WidthInt)> = sys
        .states
        .iter()
        .filter_map(|s| match s.symbol.get_type(ctx) {
            Type::BV(w) if (2..=8).contains(&w) => Some((s.symbol, w)),
            _ => None,
        })
        .collect();
    if cand.is_empty() || rng.chance(1, 2) {
        // a counter of its own: `dc` counts up from 0 and must stay below v, so every execution ends
        // after exactly v - 1 steps (the constraints are unsatisfiable from step v on)
        let w = rng.range(2, 3) as WidthInt;
        let v = rng.range(1, (1u64 << w) - 1);
        let dc = ctx.bv_symbol("dc", w);
        let one = ctx.bit_vec_val(1, w);
        let zero = ctx.bit_vec_val(0, w);
        let next = ctx.add(dc, one);
        sys.add_state(ctx, State { symbol: dc, init: Some(zero), next: Some(next) });
        let l = ctx.bit_vec_val(v, w);
        let c = ctx.greater(l, dc);
        sys.constraints.push(c);
        return true;
    }
    let (sym, w) = cand[rng.below(cand.len() as u64) as usize];
    let v = rng.range(1, (1u64 << w) - 1);
    let l = ctx.bit_vec_val(v, w);
    let c = if rng.chance(1, 2) {
        let e = ctx.equal(sym, l);
        ctx.not(e)
    } else {
        ctx.greater(l, sym)
    };
    sys.constraints.push(c);
    true
}

/// shared by C02 (`witness_focus = false`) and C03 (`true`: only failing systems are kept, and each
/// is re-run under several model-diversity settings)
pub fn run_mc(args: &Args, witness_focus: bool) {
    setup_path();
    let mut rng = Rng::new(args.seed);
    let mut out = std::io::BufWriter::new(std::fs::File::create(&args.out).expect("out file"));
    let mut stats = Stats::default();
    let mut distinct = std::collections::HashSet::new();
    let mut pool = Pool::new();
    let fresh_every = args.get_u64("fresh-every", 12);
    let reseed_every = args.get_u64("reseed-every", 25);
    let kmax = args.get_u64("kmax", 8);
    let mut z3args = Z3_ARG_SETS[0];
    set_z3_args(z3args);
    let mut run_no = 0u64;
    let mut child_budget = args.get_u64("child-runs", 3);
    let mut emit = |line: String, stats: &mut Stats, distinct: &mut std::collections::HashSet<String>| {
        let key_from = line.find("(sys").unwrap_or(0);
        let key_to = line.find("(runs").unwrap_or(line.len());
        distinct.insert(line[key_from..key_to].to_string());
        stats.sample(&line, 2);
        writeln!(out, "{line}").unwrap();
    };
    let mut plan_for = |rng: &mut Rng, run_no: &mut u64, diversity: bool| -> Vec<RunSpec> {
        let mut plan = vec![];
        for p in PROFILES.iter() {
            *run_no += 1;
            plan.push(RunSpec { profile: p, fresh: fresh_every > 0 && *run_no % fresh_every == 0, individually: rng.chance(1, 2), simplified: rng.chance(1, 2), in_child: false, engine: Engine::Bmc });
        }
        if diversity {
            // the same query again, other modes
            plan.push(RunSpec { profile: "bitwuzla", fresh: false, individually: true, simplified: false, in_child: false, engine: Engine::Bmc });
            plan.push(RunSpec { profile: "yices-smt2", fresh: false, individually: false, simplified: false, in_child: false, engine: Engine::Bmc });
            // the other parameters of bmc and the other engine: check_constraints = true with individual
            // checking (z3), check_constraints = true in the other mode behind the push/pop profile, and
            // pdr (its witness is built by a BMC run after a solver restart)
            plan.push(RunSpec { profile: "z3", fresh: false, individually: true, simplified: false, in_child: false, engine: Engine::BmcCc });
            plan.push(RunSpec { profile: "yices-smt2", fresh: false, individually: rng.chance(1, 2), simplified: rng.chance(1, 3), in_child: false, engine: Engine::BmcCc });
            plan.push(RunSpec { profile: "z3", fresh: true, individually: false, simplified: false, in_child: false, engine: Engine::Pdr });
        } else {
            // C02: the verdict with check_constraints = true (Fail at the same depth; Success only if the
            // constraints stay satisfiable; the documented assert_eq! panic otherwise: C02_bmc_full_exact)
            plan.push(RunSpec { profile: "z3", fresh: false, individually: rng.chance(1, 2), simplified: false, in_child: false, engine: Engine::BmcCc });
        }
        plan
    };
    if let Some(path) = args.get("cases-in") {
        for c in read_cases(path).iter() {
            let id = c.list()[1].atom().to_string();
            let mut ctx = Context::default();
            let sys = sys_from_case(&mut ctx, c);
            let k = c.field("k").map(|f| f[0].num()).unwrap_or(4);
            let mut plan = vec![];
            if let Some(spec) = args.get("one-run") {
                // time-limited child of another harness process: exactly one run, directly
                let parts: Vec<&str> = spec.split(',').collect();
                let profile = *PROFILES.iter().find(|p| **p == parts[0]).expect("profile");
                let (engine, individually) = Engine::parse(parts[1]);
                plan.push(RunSpec { profile, fresh: true, individually, simplified: parts[2] == "simplified", in_child: true, engine });
            } else {
                // replay: every profile, both modes, raw and simplified, fresh processes
                for p in PROFILES.iter() {
                    for (ind, simp) in [(true, false), (false, false), (true, true), (false, true)] {
                        plan.push(RunSpec { profile: p, fresh: true, individually: ind, simplified: simp, in_child: false, engine: Engine::Bmc });
                    }
                }
                if !witness_focus {
                    plan.push(RunSpec { profile: "z3", fresh: true, individually: true, simplified: false, in_child: false, engine: Engine::BmcCc });
                    plan.push(RunSpec { profile: "z3", fresh: true, individually: false, simplified: false, in_child: false, engine: Engine::BmcCc });
                }
                if witness_focus {
                    plan.push(RunSpec { profile: "z3", fresh: true, individually: true, simplified: false, in_child: false, engine: Engine::BmcCc });
                    plan.push(RunSpec { profile: "yices-smt2", fresh: true, individually: false, simplified: false, in_child: false, engine: Engine::BmcCc });
                    plan.push(RunSpec { profile: "z3", fresh: true, individually: false, simplified: false, in_child: false, engine: Engine::Pdr });
                }
            }
            let (line, _) = run_case(&id, McInput { ctx, sys, k, features: vec![] }, &plan, &mut pool, z3args, &mut stats, &mut child_budget);
            emit(line, &mut stats, &mut distinct);
        }
    }
    let cfg = McCfg { max_state_bits: args.get_u64("state-bits", 8) as u32, max_input_bits: args.get_u64("input-bits", 4) as u32, ..McCfg::default() };
    let mut n = 0u64;
    let mut produced = 0u64;
    let mut attempts = 0u64;
    while produced < args.count && attempts < args.count * 40 {
        attempts += 1;
        let mut r = rng.fork();
        if reseed_every > 0 && n % reseed_every == 0 {
            // new model-diversity settings for the z3-backed shims: needs new processes
            z3args = Z3_ARG_SETS[((n / reseed_every) % Z3_ARG_SETS.len() as u64) as usize];
            set_z3_args(z3args);
            pool.drop_profile("bitwuzla");
            pool.drop_profile("yices-smt2");
        }
        n += 1;
        let mut ctx = Context::default();
        let mut g = gen_mc_sys(&mut ctx, &mut r, &cfg, &mut stats);
        if !witness_focus && r.chance(1, 3) && add_dying_constraint(&mut ctx, &mut g.sys, &mut r) {
            g.features.push("dying-constraint");
        }
        // "all bounds k" includes the bound 0 (the mc tool passes it for systems without states)
        let k = if r.chance(1, 12) {
            stats.inc("bound_zero");
            0
        } else {
            match g.depth_hint {
                Some(v) if r.chance(3, 4) => r.range(v.saturating_sub(1).max(1), (v + 3).min(kmax)),
                _ => r.range(1, kmax),
            }
        };
        if witness_focus {
            // keep only systems that fail under z3
            let probe = run_bmc(&mut pool, "z3", false, &mut ctx, &g.sys, false, k);
            match &probe {
                RunResult::Fail(w) => {
                    // most counterexamples are at depth 0: keep only a third of those
                    if w.inputs.len() == 1 && r.chance(2, 3) {
                        stats.inc("depth0_counterexamples_thinned_out");
                        continue;
                    }
                }
                _ => {
                    stats.inc("systems_without_counterexample_skipped");
                    continue;
                }
            }
        }
        let plan = plan_for(&mut r, &mut run_no, witness_focus);
        let (line, _) = run_case(&format!("{produced}"), McInput { ctx, sys: g.sys, k, features: g.features }, &plan, &mut pool, z3args, &mut stats, &mut child_budget);
        emit(line, &mut stats, &mut distinct);
        produced += 1;
    }
    pool.drop_all();
    stats.add("solver_processes_started", pool.launches);
    stats.add("distinct_cases", distinct.len() as u64);
    stats.write(&args.out);
}

pub fn run(args: &Args) {
    run_mc(args, false);
}
