//! C17: cone of influence (patronus::system::analysis::cone_of_influence{,_init,_comb}).
//! One case per generated system; every expression of the system and every sub-expression
//! (plus a few roots that are not part of the system) is used as root, for all three variants.
//!
//! (case ID (kind K) (sys ...)
//!          (roots (r E (full S..) (init S..) (comb S..)) ...)      S = reported symbol, in report order, or (panic)
//!          (trials (t (base V V ..) (alt V V ..)) ...)             V = (v (bvenv ..) (arrenv ..)), total over all symbols
//!          (panicloc ".."))
//! The valuations are used by the driver's property oracle (perturbation outside the reported
//! cone in the reference semantics); they are generated here so that every case replays exactly.
use crate::dump::*;
use crate::exprgen::*;
use crate::rng::Rng;
use crate::sexp::{Sexp, build_expr, read_cases};
use crate::sysgen::*;
use crate::util::*;
use baa::{BitVecOps, BitVecValue};
use patronus::expr::*;
use patronus::system::analysis::{cone_of_influence, cone_of_influence_comb, cone_of_influence_init};
use patronus::system::*;
use std::collections::HashSet;
use std::io::Write;

const STEPS: usize = 3;

struct Case {
    ctx: Context,
    sys: TransitionSystem,
    kind: String,
    /// roots that are not (sub-)expressions of the system
    extra_roots: Vec<ExprRef>,
    /// pre-recorded trials (replay); generated when empty
    trials: Option<String>,
}

pub fn run(args: &Args) {
    let mut rng = Rng::new(args.seed);
    let mut out = std::io::BufWriter::new(std::fs::File::create(&args.out).expect("out file"));
    let mut stats = Stats::default();
    let mut distinct: HashSet<String> = HashSet::new();
    let n_trials = args.get_u64("trials", 3);
    if let Some(path) = args.get("cases-in") {
        for c in read_cases(path).iter() {
            let id = c.list()[1].atom().to_string();
            let case = parse_case(c);
            let line = run_case(&id, case, &mut rng.fork(), &mut stats, n_trials, &mut distinct);
            stats.sample(&line, 2);
            writeln!(out, "{line}").unwrap();
        }
    }
    for id in 0..args.count {
        let mut r = rng.fork();
        let case = gen_case(&mut r, &mut stats, args);
        let line = run_case(&format!("{id}"), case, &mut r, &mut stats, n_trials, &mut distinct);
        stats.sample(&line, 2);
        writeln!(out, "{line}").unwrap();
    }
    // distinct = distinct (system, root) pairs with a non-empty full cone; each is evaluated for the three variants
    stats.add("distinct_cases", distinct.len() as u64);
    stats.write(&args.out);
}

// ------------------------------------------------------------------------------------ generators

/// sparse systems: many states, shallow next/init functions, so that cones are proper subsets and
/// dependency chains through next/init links are long
fn gen_sparse(ctx: &mut Context, rng: &mut Rng) -> TransitionSystem {
    let mut sys = TransitionSystem::new("sparse".to_string());
    let widths: [WidthInt; 3] = [1, 2, 3];
    let n_states = rng.range(2, 8) as usize;
    let n_inputs = rng.range(0, 4) as usize;
    // few distinct widths so that symbols can be combined
    let w0 = *rng.pick(&widths);
    let w1 = *rng.pick(&widths);
    let pickw = |rng: &mut Rng| if rng.chance(2, 3) { w0 } else { w1 };
    let mut states: Vec<ExprRef> = vec![];
    for k in 0..n_states {
        let w = pickw(rng);
        states.push(ctx.bv_symbol(&format!("s{k}"), w));
    }
    let mut has_mem = false;
    if rng.chance(1, 4) {
        let pos = rng.below(states.len() as u64 + 1) as usize;
        states.insert(pos, ctx.array_symbol("mem", rng.range(1, 2) as WidthInt, w0));
        has_mem = true;
    }
    let mut inputs: Vec<ExprRef> = vec![];
    for k in 0..n_inputs {
        let w = pickw(rng);
        inputs.push(ctx.bv_symbol(&format!("i{k}"), w));
    }
    for i in inputs.iter() {
        sys.add_input(ctx, *i);
    }
    let all: Vec<ExprRef> = states.iter().chain(inputs.iter()).copied().collect();
    // a shallow expression of the type of `like` over symbols of `pool`
    fn shallow(ctx: &mut Context, rng: &mut Rng, pool: &[ExprRef], like: ExprRef) -> ExprRef {
        let tpe = like.get_type(ctx);
        let same: Vec<ExprRef> = pool.iter().copied().filter(|s| s.get_type(ctx) == tpe).collect();
        match tpe {
            Type::BV(w) => {
                let leaf = |ctx: &mut Context, rng: &mut Rng| -> ExprRef {
                    if same.is_empty() || rng.chance(1, 5) {
                        let v = lit_value(rng, w);
                        ctx.bv_lit(&v)
                    } else {
                        *rng.pick(&same)
                    }
                };
                let arrs: Vec<ExprRef> = pool.iter().copied().filter(|s| matches!(s.get_type(ctx), Type::Array(a) if a.data_width == w)).collect();
                match rng.below(11) {
                    0 | 1 => leaf(ctx, rng),
                    2 => {
                        let a = leaf(ctx, rng);
                        ctx.not(a)
                    }
                    3 => {
                        let a = leaf(ctx, rng);
                        let b = leaf(ctx, rng);
                        ctx.add(a, b)
                    }
                    4 => {
                        let a = leaf(ctx, rng);
                        let b = leaf(ctx, rng);
                        ctx.xor(a, b)
                    }
                    5 => {
                        let a = leaf(ctx, rng);
                        let b = leaf(ctx, rng);
                        ctx.and(a, b)
                    }
                    6 => {
                        // ite with a condition over any 1-bit symbol or a comparison
                        let bits: Vec<ExprRef> = pool.iter().copied().filter(|s| s.get_type(ctx) == Type::BV(1)).collect();
                        let c = if !bits.is_empty() && rng.chance(1, 2) {
                            *rng.pick(&bits)
                        } else {
                            let a = leaf(ctx, rng);
                            let b = leaf(ctx, rng);
                            ctx.equal(a, b)
                        };
                        let t = leaf(ctx, rng);
                        let f = leaf(ctx, rng);
                        ctx.ite(c, t, f)
                    }
                    7 if !arrs.is_empty() => {
                        let m = *rng.pick(&arrs);
                        let iw = m.get_array_type(ctx).unwrap().index_width;
                        let idxs: Vec<ExprRef> = pool.iter().copied().filter(|s| s.get_type(ctx) == Type::BV(iw)).collect();
                        let i = if idxs.is_empty() || rng.chance(1, 3) {
                            let v = lit_value(rng, iw);
                            ctx.bv_lit(&v)
                        } else {
                            *rng.pick(&idxs)
                        };
                        ctx.array_read(m, i)
                    }
                    8 => {
                        let a = leaf(ctx, rng);
                        let b = leaf(ctx, rng);
                        match rng.below(5) {
                            0 => ctx.div(a, b),
                            1 => ctx.signed_div(a, b),
                            2 => ctx.remainder(a, b),
                            3 => ctx.signed_remainder(a, b),
                            _ => ctx.signed_mod(a, b),
                        }
                    }
                    9 if w == 1 => {
                        // comparison of two arrays (ArrayEqual) when an array symbol is around
                        let all_arrs: Vec<ExprRef> = pool.iter().copied().filter(|s| matches!(s.get_type(ctx), Type::Array(_))).collect();
                        if all_arrs.is_empty() {
                            leaf(ctx, rng)
                        } else {
                            let m = *rng.pick(&all_arrs);
                            let t = m.get_array_type(ctx).unwrap();
                            let d = {
                                let v = lit_value(rng, t.data_width);
                                ctx.bv_lit(&v)
                            };
                            let other = if rng.chance(1, 2) {
                                ctx.array_const(d, t.index_width)
                            } else {
                                let iv = lit_value(rng, t.index_width);
                                let i = ctx.bv_lit(&iv);
                                ctx.array_store(m, i, d)
                            };
                            ctx.equal(m, other)
                        }
                    }
                    _ => {
                        let a = leaf(ctx, rng);
                        let b = leaf(ctx, rng);
                        ctx.sub(a, b)
                    }
                }
            }
            Type::Array(a) => {
                let base = if same.is_empty() || rng.chance(1, 4) {
                    let v = lit_value(rng, a.data_width);
                    let d = ctx.bv_lit(&v);
                    ctx.array_const(d, a.index_width)
                } else {
                    *rng.pick(&same)
                };
                if rng.chance(1, 2) {
                    return base;
                }
                let idxs: Vec<ExprRef> = pool.iter().copied().filter(|s| s.get_type(ctx) == Type::BV(a.index_width)).collect();
                let dats: Vec<ExprRef> = pool.iter().copied().filter(|s| s.get_type(ctx) == Type::BV(a.data_width)).collect();
                let i = if idxs.is_empty() || rng.chance(1, 3) {
                    let v = lit_value(rng, a.index_width);
                    ctx.bv_lit(&v)
                } else {
                    *rng.pick(&idxs)
                };
                let d = if dats.is_empty() || rng.chance(1, 3) {
                    let v = lit_value(rng, a.data_width);
                    ctx.bv_lit(&v)
                } else {
                    *rng.pick(&dats)
                };
                ctx.array_store(base, i, d)
            }
        }
    }
    for (k, s) in states.iter().enumerate() {
        let init = match rng.below(5) {
            0 | 1 => None,
            2 => Some(shallow(ctx, rng, &[], *s)),
            3 => Some(shallow(ctx, rng, &inputs, *s)),
            _ => {
                // may read any state (earlier, later, itself): the sequential initialisation of
                // Spec/System.v gives all of these a meaning
                let pool: Vec<ExprRef> = if rng.chance(1, 2) { states[..k].iter().chain(inputs.iter()).copied().collect() } else { all.clone() };
                Some(shallow(ctx, rng, &pool, *s))
            }
        };
        let next = match rng.below(8) {
            0 => None,
            1 => Some(*s),
            _ => Some(shallow(ctx, rng, &all, *s)),
        };
        sys.add_state(ctx, State { symbol: *s, init, next });
    }
    for k in 0..rng.range(0, 2) {
        let like = *rng.pick(&all);
        if matches!(like.get_type(ctx), Type::Array(_)) {
            continue;
        }
        let e = shallow(ctx, rng, &all, like);
        sys.add_output(ctx, format!("o{k}").into(), e);
    }
    for _ in 0..rng.range(0, 2) {
        let a = *rng.pick(&all);
        if matches!(a.get_type(ctx), Type::Array(_)) {
            continue;
        }
        let b = shallow(ctx, rng, &all, a);
        let e = ctx.equal(a, b);
        sys.bad_states.push(e);
    }
    if rng.chance(1, 3) {
        let a = *rng.pick(&all);
        if !matches!(a.get_type(ctx), Type::Array(_)) {
            let b = shallow(ctx, rng, &all, a);
            let e = ctx.greater_or_equal(a, b);
            sys.constraints.push(e);
        }
    }
    let _ = has_mem;
    sys
}

fn gen_case(rng: &mut Rng, stats: &mut Stats, args: &Args) -> Case {
    let mut ctx = Context::default();
    let mut kind;
    let mut sys = if rng.chance(1, 2) {
        kind = "sparse".to_string();
        gen_sparse(&mut ctx, rng)
    } else {
        kind = "gen".to_string();
        let mut cfg = SysCfg::default();
        cfg.max_bv_states = rng.range(1, 6);
        cfg.max_inputs = rng.range(0, 4);
        cfg.max_depth = rng.range(1, 3) as u32;
        cfg.max_outputs = 2;
        // the division family is not implemented by patronus' evaluator but has a meaning in Spec/Eval.v,
        // and the cone analysis must traverse it like every other operator
        cfg.div_rem = rng.chance(1, 3);
        if rng.chance(1, 5) {
            // wider values: the cone is syntactic, but the perturbation oracle evaluates the semantics
            cfg.widths = vec![1, 4, 8, 16, 33, 65];
            kind.push_str("+wide");
        }
        gen_sys(&mut ctx, rng, &cfg)
    };
    let mut extra_roots: Vec<ExprRef> = vec![];
    // ---- twists
    // a symbol that is neither input nor state, used inside the system and as a root
    if rng.chance(1, 4) {
        let w = rng.range(1, 3) as WidthInt;
        let z = ctx.bv_symbol("z", w);
        let cands: Vec<ExprRef> = sys.inputs.iter().copied().chain(sys.states.iter().map(|s| s.symbol)).filter(|s| s.get_type(&ctx) == Type::BV(w)).collect();
        let e = if cands.is_empty() { ctx.not(z) } else { let c = *rng.pick(&cands); ctx.xor(c, z) };
        sys.add_output(&mut ctx, "oz".into(), e);
        // also inside a next-state function
        if rng.chance(1, 2) {
            let idx: Vec<usize> = (0..sys.states.len()).filter(|k| sys.states[*k].symbol.get_type(&ctx) == Type::BV(w)).collect();
            if !idx.is_empty() {
                let k = *rng.pick(&idx);
                let old = sys.states[k].next.unwrap_or(sys.states[k].symbol);
                sys.states[k].next = Some(ctx.add(old, z));
            }
        }
        extra_roots.push(z);
        kind.push_str("+nonsys");
    }
    // a symbol with the name of a state but another width (a different symbol)
    if rng.chance(1, 8) && !sys.states.is_empty() {
        let k = rng.below(sys.states.len() as u64) as usize;
        if let Type::BV(w) = sys.states[k].symbol.get_type(&ctx) {
            let name = ctx.get_symbol_name(sys.states[k].symbol).unwrap().to_string();
            if rng.chance(1, 2) {
                let twin = ctx.bv_symbol(&name, w + 1);
                let e = ctx.slice(twin, w - 1, 0);
                sys.add_output(&mut ctx, "otwin".into(), e);
                extra_roots.push(twin);
            } else {
                // an array symbol with the name of a bit-vector state
                let twin = ctx.array_symbol(&name, 1, w);
                let i = ctx.bv_lit(&BitVecValue::from_u64(1, 1));
                let e = ctx.array_read(twin, i);
                sys.add_output(&mut ctx, "otwin".into(), e);
                extra_roots.push(twin);
            }
            kind.push_str("+twin");
        }
    }
    // a symbol that is both an input and a state
    if rng.chance(1, 10) && !sys.states.is_empty() {
        let k = rng.below(sys.states.len() as u64) as usize;
        let s = sys.states[k].symbol;
        sys.add_input(&ctx, s);
        kind.push_str("+inputstate");
    }
    // ill-formed: two states with the same symbol (outside the property's domain; model vs
    // implementation only)
    if rng.chance(1, 12) && !sys.states.is_empty() {
        let k = rng.below(sys.states.len() as u64) as usize;
        let mut st = sys.states[k];
        match rng.below(3) {
            0 => st.init = None,
            1 => st.next = None,
            _ => {
                let o = sys.states[rng.below(sys.states.len() as u64) as usize];
                if o.symbol.get_type(&ctx) == st.symbol.get_type(&ctx) {
                    st.next = o.next;
                    st.init = o.init;
                }
            }
        }
        if rng.chance(1, 2) {
            sys.states.push(st);
        } else {
            sys.states.insert(0, st);
        }
        kind.push_str("+dupstate");
    }
    // roots outside the system: a literal, a fresh combination of system symbols
    {
        let v = lit_value(rng, 2);
        extra_roots.push(ctx.bv_lit(&v));
        let syms: Vec<ExprRef> = sys.inputs.iter().copied().chain(sys.states.iter().map(|s| s.symbol)).collect();
        if syms.len() >= 2 {
            let a = *rng.pick(&syms);
            let same: Vec<ExprRef> = syms.iter().copied().filter(|s| s.get_type(&ctx) == a.get_type(&ctx)).collect();
            let b = *rng.pick(&same);
            let e = match a.get_type(&ctx) {
                Type::BV(_) => ctx.add(a, b),
                Type::Array(_) => ctx.equal(a, b),
            };
            extra_roots.push(e);
        }
    }
    let _ = args;
    {
        let mut parts = kind.split('+');
        stats.bump("generator", parts.next().unwrap_or("?"));
        let mut any = false;
        for t in parts {
            stats.bump("twist", t);
            any = true;
        }
        if !any {
            stats.bump("twist", "(none)");
        }
    }
    Case { ctx, sys, kind, extra_roots, trials: None }
}

fn parse_case(c: &Sexp) -> Case {
    let mut ctx = Context::default();
    let sysx = c.list().iter().find(|x| matches!(x, Sexp::List(l) if !l.is_empty() && matches!(&l[0], Sexp::Atom(a) if a == "sys"))).expect("sys");
    let sys = build_sys(&mut ctx, sysx);
    let mut sys_nodes: HashSet<ExprRef> = HashSet::new();
    for r in all_roots(&ctx, &sys, &[]) {
        sys_nodes.insert(r);
    }
    let mut extra_roots = vec![];
    for r in c.field("roots").unwrap_or(&[]) {
        let e = build_expr(&mut ctx, &r.list()[1]);
        if !sys_nodes.contains(&e) {
            extra_roots.push(e);
        }
    }
    let kind = c.field("kind").map(|k| k[0].atom().to_string()).unwrap_or_else(|| "replay".into());
    let trials = c.field("trials").map(|t| t.iter().map(sexp_to_string).collect::<Vec<_>>().join(" "));
    Case { ctx, sys, kind, extra_roots, trials }
}

fn sexp_to_string(x: &Sexp) -> String {
    match x {
        Sexp::Atom(a) => a.clone(),
        Sexp::Str(s) => quote(s),
        Sexp::List(l) => format!("({})", l.iter().map(sexp_to_string).collect::<Vec<_>>().join(" ")),
    }
}

/// all expressions of the system and all their sub-expressions (distinct), then the extra roots
fn all_roots(ctx: &Context, sys: &TransitionSystem, extra: &[ExprRef]) -> Vec<ExprRef> {
    let mut seen: HashSet<ExprRef> = HashSet::new();
    let mut out = vec![];
    for top in sys.get_all_exprs().into_iter().chain(extra.iter().copied()) {
        for n in collect_nodes(ctx, top) {
            if seen.insert(n) {
                out.push(n);
            }
        }
    }
    out
}

fn dump_cone(ctx: &Context, r: &Result<Vec<ExprRef>, String>) -> String {
    match r {
        Err(_) => " (panic)".to_string(),
        Ok(v) => v.iter().map(|s| format!(" {}", dump_expr(ctx, *s))).collect(),
    }
}

fn random_valuation(ctx: &Context, rng: &mut Rng, syms: &[ExprRef]) -> String {
    let mut bv = String::new();
    let mut arr = String::new();
    for s in syms {
        let name = ctx.get_symbol_name(*s).unwrap().to_string();
        match s.get_type(ctx) {
            Type::BV(w) => {
                let v = lit_value(rng, w);
                bv.push_str(&format!(" ({} {} {})", quote(&name), w, bv_tok(&v)));
            }
            Type::Array(a) => {
                let d = lit_value(rng, a.data_width);
                arr.push_str(&format!(" ({} {} {} {}", quote(&name), a.index_width, a.data_width, bv_tok(&d)));
                if a.index_width <= 4 {
                    for i in 0..(1u64 << a.index_width) {
                        if rng.chance(2, 3) {
                            let v = lit_value(rng, a.data_width);
                            arr.push_str(&format!(" ({} {})", bv_tok(&BitVecValue::from_u64(i, a.index_width)), bv_tok(&v)));
                        }
                    }
                }
                arr.push(')');
            }
        }
    }
    format!("(v (bvenv{bv}) (arrenv{arr}))")
}

fn run_case(id: &str, case: Case, rng: &mut Rng, stats: &mut Stats, n_trials: u64, distinct: &mut HashSet<String>) -> String {
    let Case { ctx, sys, kind, extra_roots, trials } = case;
    let roots = all_roots(&ctx, &sys, &extra_roots);
    let sys_txt = dump_sys(&ctx, &sys);
    let sys_hash = {
        use std::hash::{Hash, Hasher};
        let mut h = std::collections::hash_map::DefaultHasher::new();
        sys_txt.hash(&mut h);
        h.finish()
    };
    stats.bump("n_states", &format!("{}", sys.states.len()));
    stats.bump("n_inputs", &format!("{}", sys.inputs.len()));
    stats.bump("roots_per_system", &format!("{}", (roots.len() / 10) * 10));
    for st in sys.states.iter() {
        let k = match (st.init.is_some(), st.next) {
            (_, Some(n)) if n == st.symbol => "const(next=self)",
            (true, Some(_)) => "init+next",
            (false, Some(_)) => "next only",
            (true, None) => "init only",
            (false, None) => "neither",
        };
        stats.bump("state_shape", k);
        if matches!(st.symbol.get_type(&ctx), Type::Array(_)) {
            stats.inc("array_states");
        }
    }
    let state_syms: HashSet<ExprRef> = sys.states.iter().map(|s| s.symbol).collect();
    let input_syms: HashSet<ExprRef> = sys.inputs.iter().copied().collect();
    let n_sys_syms = state_syms.union(&input_syms).count();
    let mut roots_txt = String::new();
    let mut panic_loc = String::new();
    for r in roots.iter() {
        let full = guarded(|| cone_of_influence(&ctx, &sys, *r));
        let init = guarded(|| cone_of_influence_init(&ctx, &sys, *r));
        let comb = guarded(|| cone_of_influence_comb(&ctx, &sys, *r));
        if full.is_err() || init.is_err() || comb.is_err() {
            stats.inc("impl_panics");
            panic_loc = last_panic_loc();
        }
        let rk = if ctx[*r].is_symbol() {
            if state_syms.contains(r) {
                "state symbol"
            } else if input_syms.contains(r) {
                "input symbol"
            } else {
                "other symbol"
            }
        } else if matches!(ctx[*r], Expr::BVLiteral(_)) {
            "literal"
        } else {
            "operator"
        };
        stats.bump("root_kind", rk);
        {
            let d = dump_expr(&ctx, *r);
            let op = d[1..].split(' ').next().unwrap_or("?").to_string();
            stats.bump("root_op", &op);
        }
        if let (Ok(f), Ok(i), Ok(c)) = (&full, &init, &comb) {
            stats.bump("cone_size_full", &format!("{}", f.len()));
            stats.bump("cone_size_init", &format!("{}", i.len()));
            stats.bump("cone_size_comb", &format!("{}", c.len()));
            if f.len() != i.len() {
                stats.inc("roots_where_full_differs_from_init");
            }
            if i.len() != c.len() {
                stats.inc("roots_where_init_differs_from_comb");
            }
            if f.len() < n_sys_syms {
                stats.inc("roots_with_proper_full_cone");
            }
        }
        stats.add("root_variant_evaluations", 3);
        let rt = dump_expr(&ctx, *r);
        if matches!(&full, Ok(f) if !f.is_empty()) {
            distinct.insert(format!("{sys_hash:x}|{rt}"));
        }
        roots_txt.push_str(&format!(" (r {rt} (full{}) (init{}) (comb{}))", dump_cone(&ctx, &full), dump_cone(&ctx, &init), dump_cone(&ctx, &comb)));
    }
    // valuations for the perturbation oracle: total over every symbol in sight
    let trials_txt = match trials {
        Some(t) => t,
        None => {
            let mut syms: Vec<ExprRef> = vec![];
            let mut seen: HashSet<ExprRef> = HashSet::new();
            for r in roots.iter() {
                if ctx[*r].is_symbol() && seen.insert(*r) {
                    syms.push(*r);
                }
            }
            let mut t = String::new();
            for _ in 0..n_trials {
                let base: Vec<String> = (0..=STEPS).map(|_| random_valuation(&ctx, rng, &syms)).collect();
                let alt: Vec<String> = (0..=STEPS).map(|_| random_valuation(&ctx, rng, &syms)).collect();
                t.push_str(&format!(" (t (base {}) (alt {}))", base.join(" "), alt.join(" ")));
            }
            t
        }
    };
    format!("(case {id} (kind {}) {sys_txt} (roots{roots_txt}) (trials {}) (panicloc {}))", quote(&kind), trials_txt.trim_start(), quote(&panic_loc))
}
