//! C10: PDR verdicts (patronus::mc::pdr) on small bit-vector systems.
//!
//! One case per (system, configuration) pair, one line each:
//! (case ID (family F) (class C) (solver z3|cvc5) (gen on|off) (sseed N) (sys ...)
//!       (impl success|unknown|timeout|(fail (wit ...))|(err "text")|(panic "loc" "msg")|(crash "status"))
//!       (sim ok|na-free-state|<reason>) (script (queries N) (sessions N) (dupdef "name"|none) (hash H)) (ms N))
//!
//! Every run of the implementation happens in a child process (this binary re-executed with
//! `--worker 1`), in its own process group, under a wall-clock watchdog; a hang, an abort or a
//! panic of the implementation therefore never hangs or kills the check.  The solver is started
//! by patronus itself (`SmtLibSolver::start`), through the wrapper scripts in harness/solver-wrap
//! which are placed first on PATH and only add the seed options.
//!
//! `class` is the harness's own explicit-state classification (computed with patronus'
//! interpreter); it is used ONLY for the coverage statistics and to steer the generator, never as
//! the oracle (the oracle is the extracted `reach_spec`, see ocaml/driver/c10.ml).
use crate::dump::*;
use crate::exprgen::*;
use crate::c04::mcgen::{McCfg, dump_named, gen_mc_sys, restore_named};
use crate::rng::Rng;
use crate::sexp::{Sexp, read_cases};
use crate::sysgen::{build_sys, dump_sys};
use crate::util::*;
use baa::{BitVecOps, BitVecValue, Value};
use patronus::expr::*;
use patronus::mc::{InitValue, ModelCheckResult, Witness, bmc, pdr};
use patronus::sim::{InitKind, Interpreter, Simulator};
use patronus::smt::{CVC5, CheckSatResponse, Error, Logic, Solver, SolverContext, SolverMetaData, YICES2, Z3};
use patronus::system::*;
use std::collections::{HashMap, HashSet, VecDeque};
use std::io::{Read, Write};
use std::sync::{Arc, Mutex};
use std::time::{Duration, Instant};

const WATCHDOG_S: u64 = 60;

pub fn run(args: &Args) {
    if args.get("worker").is_some() {
        worker(args);
        return;
    }
    parent(args);
}

// ------------------------------------------------------------------------------------------------
// generator
// ------------------------------------------------------------------------------------------------

fn lit(ctx: &mut Context, w: WidthInt, v: u64) -> ExprRef {
    let m = if w >= 64 { u64::MAX } else { (1u64 << w) - 1 };
    ctx.bit_vec_val(v & m, w)
}

fn add_state(ctx: &mut Context, sys: &mut TransitionSystem, symbol: ExprRef, init: Option<ExprRef>, next: Option<ExprRef>) {
    sys.add_state(ctx, State { symbol, init, next });
}

/// up-counter, optional enable, optional wrap at m / saturation; bad: comparison with a target
fn fam_counter(ctx: &mut Context, rng: &mut Rng) -> TransitionSystem {
    let mut sys = TransitionSystem::new("counter".to_string());
    let w = if rng.chance(1, 5) { rng.range(7, 10) } else { rng.range(2, 6) } as WidthInt;
    let c = ctx.bv_symbol("c", w);
    let max = (1u64 << w) - 1;
    let en = if rng.chance(1, 2) {
        let e = ctx.bv_symbol("en", 1);
        sys.add_input(ctx, e);
        Some(e)
    } else {
        None
    };
    let stepv = if rng.chance(1, 4) { 2 * rng.range(0, 1) + 1 + 2 * rng.below(2) } else { 1 };
    let stepl = lit(ctx, w, stepv);
    let inc = ctx.add(c, stepl);
    // bound m in 2..=max+1
    let m = rng.range(2, max + 1);
    let kind = rng.below(4);
    let body = match kind {
        0 => inc, // free running, wraps at 2^w
        1 => {
            // wrap at m:  c >= m-1 ? 0 : c+1   (stepv forced to 1 semantics by comparison)
            let ml = lit(ctx, w, m - 1);
            let ge = ctx.greater_or_equal(c, ml);
            let z = lit(ctx, w, 0);
            let one = lit(ctx, w, 1);
            let inc1 = ctx.add(c, one);
            ctx.ite(ge, z, inc1)
        }
        2 => {
            // saturate at m-1
            let ml = lit(ctx, w, m - 1);
            let ge = ctx.greater_or_equal(c, ml);
            let one = lit(ctx, w, 1);
            let inc1 = ctx.add(c, one);
            ctx.ite(ge, c, inc1)
        }
        _ => {
            // count down from init to 0 and stay
            let z = lit(ctx, w, 0);
            let isz = ctx.equal(c, z);
            let one = lit(ctx, w, 1);
            let dec = ctx.sub(c, one);
            ctx.ite(isz, c, dec)
        }
    };
    let next = match en {
        Some(e) => ctx.ite(e, body, c),
        None => body,
    };
    let init_v = if kind == 3 { rng.range(0, max.min(14)) } else if rng.chance(1, 4) { rng.range(0, max.min(3)) } else { 0 };
    let init = lit(ctx, w, init_v);
    add_state(ctx, &mut sys, c, Some(init), Some(next));
    // optionally a sticky flag that remembers having seen a value
    let flag = if rng.chance(1, 3) {
        let f = ctx.bv_symbol("f", 1);
        let t2 = rng.range(0, max.min(13));
        let t2l = lit(ctx, w, t2);
        let hit = ctx.equal(c, t2l);
        let nf = ctx.or(f, hit);
        let z1 = lit(ctx, 1, 0);
        add_state(ctx, &mut sys, f, Some(z1), Some(nf));
        Some(f)
    } else {
        None
    };
    for _ in 0..rng.range(1, 2) {
        let t = if rng.chance(2, 3) { rng.range(0, max.min(13)) } else { rng.range(0, max) };
        let tl = lit(ctx, w, t);
        let b = match rng.below(5) {
            0 | 1 => ctx.equal(c, tl),
            2 => ctx.greater(c, tl),
            3 => {
                // two bits of the counter
                let hi = ctx.slice(c, w - 1, w - 1);
                let lo = ctx.slice(c, 0, 0);
                ctx.and(hi, lo)
            }
            _ => {
                let e = ctx.equal(c, tl);
                match flag {
                    Some(f) => {
                        let nf = ctx.not(f);
                        ctx.and(e, nf)
                    }
                    None => e,
                }
            }
        };
        sys.bad_states.push(b);
    }
    if rng.chance(1, 6) {
        // a constraint on the state alone: the value t is forbidden, executions stop before it
        let t = rng.range(1, max.min(12));
        let tl = lit(ctx, w, t);
        let c_ne = ctx.distinct(c, tl);
        sys.constraints.push(c_ne);
    }
    if let (Some(e), true) = (en, rng.chance(1, 4)) {
        // constraint: enable only while below a limit
        let lim = rng.range(1, max);
        let ll = lit(ctx, w, lim);
        let below = ctx.greater(ll, c);
        let cons = ctx.implies(e, below);
        sys.constraints.push(cons);
    }
    sys
}

/// k-bit arithmetic progression x' = x + c (k = 3..5, odd and even c; c a constant or chosen among 2 / 4
/// constants by an input), arbitrary reset value, one or two
/// single bad values: the unsat cores of the relative-induction queries drop many bits here, so that the
/// restore loop of `fix_gen_cube` runs with several literals (seeded change C10-m4)
fn fam_arith(ctx: &mut Context, rng: &mut Rng) -> TransitionSystem {
    let mut sys = TransitionSystem::new("arith".to_string());
    let w = rng.range(3, 5) as WidthInt;
    let max = (1u64 << w) - 1;
    let x = ctx.bv_symbol("x", w);
    // the step: a constant, or one of 2 / 4 constants chosen by an input (then the initial state has
    // several successors and the restore loop needs several literals to keep them all out)
    let step = match rng.below(5) {
        0 => lit(ctx, w, rng.range(1, max)),
        1 | 2 => {
            let sel = ctx.bv_symbol("sel", 1);
            sys.add_input(ctx, sel);
            let a = lit(ctx, w, rng.range(1, max));
            let b = lit(ctx, w, rng.range(0, max));
            ctx.ite(sel, a, b)
        }
        _ => {
            let sel = ctx.bv_symbol("sel", 2);
            sys.add_input(ctx, sel);
            let hi = ctx.slice(sel, 1, 1);
            let lo = ctx.slice(sel, 0, 0);
            let a = lit(ctx, w, rng.range(1, max));
            let b = lit(ctx, w, rng.range(0, max));
            let c = lit(ctx, w, rng.range(1, max));
            let d = lit(ctx, w, rng.range(0, max));
            let ab = ctx.ite(lo, a, b);
            let cd = ctx.ite(lo, c, d);
            ctx.ite(hi, ab, cd)
        }
    };
    let next = ctx.add(x, step);
    let reset = rng.range(0, max);
    let init = lit(ctx, w, reset);
    add_state(ctx, &mut sys, x, Some(init), Some(next));
    for _ in 0..(if rng.chance(1, 4) { 2 } else { 1 }) {
        let t = rng.range(0, max);
        let tl = lit(ctx, w, t);
        let b = ctx.equal(x, tl);
        sys.bad_states.push(b);
    }
    sys
}

/// shift register of 1-bit states fed by an input; optional constraint "no two consecutive ones"
fn fam_shift(ctx: &mut Context, rng: &mut Rng) -> TransitionSystem {
    let mut sys = TransitionSystem::new("shift".to_string());
    let n = rng.range(3, 8) as usize;
    let inp = ctx.bv_symbol("in", 1);
    sys.add_input(ctx, inp);
    let regs: Vec<ExprRef> = (0..n).map(|k| ctx.bv_symbol(&format!("r{k}"), 1)).collect();
    let z = lit(ctx, 1, 0);
    let with_init = !rng.chance(1, 6);
    for k in 0..n {
        let next = if k == 0 { inp } else { regs[k - 1] };
        let init = if with_init { Some(z) } else { None };
        add_state(ctx, &mut sys, regs[k], init, Some(next));
    }
    let cons_kind = rng.below(3);
    if cons_kind == 0 {
        // never a one right after a one
        let both = ctx.and(inp, regs[0]);
        let c = ctx.not(both);
        sys.constraints.push(c);
    }
    // bad: the register (or a window of it) shows a pattern
    for _ in 0..rng.range(1, 2) {
        let lo = rng.below(n as u64 - 1) as usize;
        let hi = rng.range(lo as u64 + 1, n as u64 - 1) as usize;
        let mut acc = ctx.get_true();
        let force_adjacent = cons_kind == 0 && rng.chance(1, 2);
        let adj_at = rng.range(lo as u64, hi as u64 - 1) as usize;
        for k in lo..=hi {
            let mut want_one = rng.chance(1, 2);
            if force_adjacent && (k == adj_at || k == adj_at + 1) {
                want_one = true;
            }
            let l = if want_one { regs[k] } else { ctx.not(regs[k]) };
            acc = ctx.and(acc, l);
        }
        sys.bad_states.push(acc);
    }
    sys
}

/// two registers updated in lock step; the relation between them is the inductive invariant
fn fam_lockstep(ctx: &mut Context, rng: &mut Rng) -> TransitionSystem {
    let mut sys = TransitionSystem::new("lockstep".to_string());
    // bit-level cubes express the relational invariant badly: 2 x 3 bits already need 2 000-3 700 queries
    let w: WidthInt = 2;
    let max = (1u64 << w) - 1;
    let a = ctx.bv_symbol("a", w);
    let b = ctx.bv_symbol("b", w);
    let en = ctx.bv_symbol("en", 1);
    sys.add_input(ctx, en);
    let en2 = if rng.chance(1, 4) {
        let e = ctx.bv_symbol("en2", 1);
        sys.add_input(ctx, e);
        e
    } else {
        en
    };
    let off = if rng.chance(1, 2) { 0 } else { rng.range(1, max) };
    let one = lit(ctx, w, 1);
    let (na, nb) = match rng.below(3) {
        0 => {
            let ia = ctx.add(a, one);
            let ib = ctx.add(b, one);
            (ia, ib)
        }
        1 => {
            // a counts up, b counts down: a + b stays constant
            let ia = ctx.add(a, one);
            let ib = ctx.sub(b, one);
            (ia, ib)
        }
        _ => {
            // swap
            (b, a)
        }
    };
    let na = ctx.ite(en, na, a);
    let nb = ctx.ite(en2, nb, b);
    let a0 = rng.range(0, max);
    let la = lit(ctx, w, a0);
    let lb = lit(ctx, w, (a0 + off) & max);
    add_state(ctx, &mut sys, a, Some(la), Some(na));
    add_state(ctx, &mut sys, b, Some(lb), Some(nb));
    let t = rng.range(0, max);
    let tl = lit(ctx, w, t);
    let bad = match rng.below(4) {
        0 => {
            // relation broken: b != a + off   (safe for the in-step variants)
            let offl = lit(ctx, w, off);
            let s = ctx.add(a, offl);
            ctx.distinct(b, s)
        }
        1 => {
            // sum changes
            let s = ctx.add(a, b);
            let s0 = lit(ctx, w, (a0 + a0 + off) & max);
            ctx.distinct(s, s0)
        }
        2 => {
            let ea = ctx.equal(a, tl);
            let t2 = lit(ctx, w, rng.range(0, max));
            let eb = ctx.equal(b, t2);
            ctx.and(ea, eb)
        }
        _ => {
            let ea = ctx.equal(a, tl);
            let offl = lit(ctx, w, off);
            let s = ctx.add(tl, offl);
            let nb = ctx.distinct(b, s);
            ctx.and(ea, nb)
        }
    };
    sys.bad_states.push(bad);
    sys
}

/// one-hot ring / rotating register
fn fam_ring(ctx: &mut Context, rng: &mut Rng) -> TransitionSystem {
    let mut sys = TransitionSystem::new("ring".to_string());
    let w = rng.range(3, 5) as WidthInt;
    let max = (1u64 << w) - 1;
    let r = ctx.bv_symbol("r", w);
    let hi = ctx.slice(r, w - 1, w - 1);
    let lo = ctx.slice(r, w - 2, 0);
    let rot = ctx.concat(lo, hi);
    let next = if rng.chance(1, 2) {
        let en = ctx.bv_symbol("en", 1);
        sys.add_input(ctx, en);
        ctx.ite(en, rot, r)
    } else {
        rot
    };
    let init_v = match rng.below(3) {
        0 => 1,
        1 => 1u64 << rng.below(w as u64),
        _ => 3, // two adjacent tokens
    };
    let init = lit(ctx, w, init_v);
    add_state(ctx, &mut sys, r, Some(init), Some(next));
    for _ in 0..rng.range(1, 2) {
        let bad = match rng.below(4) {
            0 => {
                let z = lit(ctx, w, 0);
                ctx.equal(r, z)
            }
            1 => {
                // a rotation of the initial value, or not
                let t = rng.range(0, max);
                let tl = lit(ctx, w, t);
                ctx.equal(r, tl)
            }
            2 => {
                // two particular bits set at once
                let i = rng.below(w as u64) as WidthInt;
                let mut j = rng.below(w as u64) as WidthInt;
                if j == i {
                    j = (i + 2) % w;
                }
                let bi = ctx.slice(r, i, i);
                let bj = ctx.slice(r, j, j);
                ctx.and(bi, bj)
            }
            _ => {
                let k = rng.below(w as u64);
                let tl = lit(ctx, w, 1u64 << k);
                ctx.equal(r, tl)
            }
        };
        sys.bad_states.push(bad);
    }
    sys
}

/// explicit finite-state machine: next state is a table over (state, 1-bit input)
fn fam_fsm(ctx: &mut Context, rng: &mut Rng) -> TransitionSystem {
    let mut sys = TransitionSystem::new("fsm".to_string());
    let w = rng.range(2, 4) as WidthInt;
    let n = 1u64 << w;
    let s = ctx.bv_symbol("s", w);
    let x = ctx.bv_symbol("x", 1);
    sys.add_input(ctx, x);
    // sparse successor structure so that long shortest paths and unreachable parts are common
    let perm: Vec<u64> = {
        let mut p: Vec<u64> = (0..n).collect();
        for i in (1..n as usize).rev() {
            let j = rng.below(i as u64 + 1) as usize;
            p.swap(i, j);
        }
        p
    };
    let reach_n = rng.range(2, n); // only the first reach_n states of the permutation form the live part
    let mut next = s;
    for k in 0..n {
        let pos = perm.iter().position(|&v| v == k).unwrap() as u64;
        let (t0, t1) = if pos < reach_n {
            let fwd = perm[((pos + 1) % reach_n) as usize];
            let other = perm[rng.below(reach_n) as usize];
            if rng.chance(1, 2) { (fwd, other) } else { (fwd, k) }
        } else {
            (perm[rng.below(n) as usize], perm[rng.below(n) as usize])
        };
        let kl = lit(ctx, w, k);
        let is_k = ctx.equal(s, kl);
        let l0 = lit(ctx, w, t0);
        let l1 = lit(ctx, w, t1);
        let tgt = ctx.ite(x, l1, l0);
        next = ctx.ite(is_k, tgt, next);
    }
    let init = lit(ctx, w, perm[0]);
    add_state(ctx, &mut sys, s, Some(init), Some(next));
    for _ in 0..rng.range(1, 3) {
        let t = rng.below(n);
        let tl = lit(ctx, w, t);
        let b = ctx.equal(s, tl);
        let b = if rng.chance(1, 4) { ctx.and(b, x) } else { b };
        sys.bad_states.push(b);
    }
    if rng.chance(1, 6) {
        // a forbidden state: executions cannot pass through it
        let t = perm[rng.range(1, reach_n - 1) as usize];
        let tl = lit(ctx, w, t);
        let c = ctx.distinct(s, tl);
        sys.constraints.push(c);
    }
    if rng.chance(1, 4) {
        // constraint: input low in one particular state
        let t = perm[rng.below(reach_n) as usize];
        let tl = lit(ctx, w, t);
        let at = ctx.equal(s, tl);
        let nx = ctx.not(x);
        let c = ctx.implies(at, nx);
        sys.constraints.push(c);
    }
    sys
}

/// random next-state logic from the shared expression generator (bit-vectors only, small widths)
fn fam_random(ctx: &mut Context, rng: &mut Rng, special: u64) -> TransitionSystem {
    let mut sys = TransitionSystem::new("random".to_string());
    let widths: Vec<WidthInt> = vec![1, 1, 2, 2, 3];
    let n_states = rng.range(1, 3);
    let n_inputs = rng.range(0, 2);
    let mut state_syms = vec![];
    let mut bits = 0;
    for k in 0..n_states {
        let w = *rng.pick(&widths);
        if bits + w > 8 {
            break;
        }
        bits += w;
        state_syms.push(ctx.bv_symbol(&format!("s{k}"), w));
    }
    let mut input_syms = vec![];
    let mut ibits = 0;
    for k in 0..n_inputs {
        let w = *rng.pick(&[1u32, 1, 2]);
        if ibits + w > 3 {
            break;
        }
        ibits += w;
        let i = ctx.bv_symbol(&format!("i{k}"), w);
        input_syms.push(i);
        sys.add_input(ctx, i);
    }
    let gcfg = GenCfg {
        max_depth: 3,
        arrays: false,
        div_rem: false,
        array_eq: false,
        widths: vec![1, 2, 3, 4],
        max_index_width: 2,
        syms_per_type: 1,
        mul_max_width: 8,
    };
    let all: Vec<ExprRef> = state_syms.iter().chain(input_syms.iter()).copied().collect();
    let mut gen_expr = |ctx: &mut Context, rng: &mut Rng, pool: Vec<ExprRef>, w: WidthInt, depth: u32| -> ExprRef {
        let mut g = ExprGen::new(ctx, rng, gcfg.clone());
        g.pool = Some(pool);
        g.gen_bv(w, depth)
    };
    for (k, s) in state_syms.iter().enumerate() {
        let w = s.get_bv_type(ctx).unwrap();
        // special: 1 = some state without init, 2 = some state without next, 3 = constant state,
        //          4 = an init expression reads an EARLIER state that has no init
        let init = if special == 1 && (k == 0 || rng.chance(1, 2)) {
            None
        } else if special == 4 && k > 0 {
            let e = gen_expr(ctx, rng, state_syms[..k].to_vec(), w, 1);
            Some(e)
        } else if special == 4 {
            None
        } else {
            let v = rng.below(1u64 << w);
            Some(lit(ctx, w, v))
        };
        let next = if special == 2 && (k == 0 || rng.chance(1, 3)) {
            None
        } else if special == 3 && (k == 0 || rng.chance(1, 3)) {
            Some(*s)
        } else {
            let d = 1 + rng.below(3) as u32;
            Some(gen_expr(ctx, rng, all.clone(), w, d))
        };
        add_state(ctx, &mut sys, *s, init, next);
    }
    for _ in 0..rng.range(1, 3) {
        let e = gen_expr(ctx, rng, all.clone(), 1, 3);
        sys.bad_states.push(e);
    }
    if rng.chance(1, 3) {
        let e = gen_expr(ctx, rng, all.clone(), 1, 2);
        sys.constraints.push(e);
    }
    sys
}

/// an init expression reads an input (the suspected PDR weakness: cubes are over states only)
fn fam_init_input(ctx: &mut Context, rng: &mut Rng) -> TransitionSystem {
    let mut sys = TransitionSystem::new("initinput".to_string());
    let w = rng.range(1, 2) as WidthInt;
    let i = ctx.bv_symbol("i", w);
    sys.add_input(ctx, i);
    let s = ctx.bv_symbol("s", w);
    let init = match rng.below(3) {
        0 => i,
        1 => ctx.not(i),
        _ => {
            let one = lit(ctx, w, 1);
            ctx.add(i, one)
        }
    };
    match rng.below(5) {
        0 | 1 => {
            // (mostly unsafe) the relation between s and the input only holds at step 0
            let next = match rng.below(3) {
                0 => s,
                1 => {
                    let one = lit(ctx, w, 1);
                    ctx.add(s, one)
                }
                _ => ctx.xor(s, i),
            };
            add_state(ctx, &mut sys, s, Some(init), Some(next));
            let bad = match rng.below(3) {
                0 => ctx.distinct(s, i),
                1 => ctx.equal(s, i),
                _ => {
                    let t = lit(ctx, w, rng.below(1u64 << w));
                    let a = ctx.equal(s, t);
                    let b = ctx.distinct(i, t);
                    ctx.and(a, b)
                }
            };
            sys.bad_states.push(bad);
        }
        2 | 3 => {
            // (safe) a first-step flag guards the bad state: bad needs the flag AND a value of the input
            // that differs from the one the init expression used - impossible at step 0, and the flag is
            // gone afterwards.  Projected onto the states, every (f=1, s) is initial and bad.
            let f = ctx.bv_symbol("f", 1);
            let one1 = lit(ctx, 1, 1);
            let zero1 = lit(ctx, 1, 0);
            let next_s = if rng.chance(1, 2) { s } else { ctx.xor(s, i) };
            add_state(ctx, &mut sys, s, Some(init), Some(next_s));
            add_state(ctx, &mut sys, f, Some(one1), Some(zero1));
            let rel_broken = ctx.distinct(s, init);
            let bad = ctx.and(f, rel_broken);
            sys.bad_states.push(bad);
            if rng.chance(1, 3) {
                // and an ordinary reachable-or-not second bad state
                let t = lit(ctx, w, rng.below(1u64 << w));
                let e = ctx.equal(s, t);
                let nf = ctx.not(f);
                let b2 = ctx.and(e, nf);
                let b2 = if rng.chance(1, 2) { ctx.and(b2, f) } else { b2 };
                sys.bad_states.push(b2);
            }
        }
        _ => {
            // (safe) two states initialised from the same input stay equal
            let t = ctx.bv_symbol("t", w);
            let (ns, nt) = if rng.chance(1, 2) {
                (s, t)
            } else {
                let one = lit(ctx, w, 1);
                let a = ctx.add(s, one);
                let b = ctx.add(t, one);
                (a, b)
            };
            add_state(ctx, &mut sys, s, Some(init), Some(ns));
            add_state(ctx, &mut sys, t, Some(init), Some(nt));
            let bad = ctx.distinct(s, t);
            sys.bad_states.push(bad);
        }
    }
    sys
}

/// the only reachable bad states are dead ends under the constraints: a counter with a forbidden
/// value t (constraint c != t); bad just before t (reachable, but its only successor violates the
/// constraint), or beyond t (unreachable: executions cannot pass t)
fn fam_deadend(ctx: &mut Context, rng: &mut Rng) -> TransitionSystem {
    let mut sys = TransitionSystem::new("deadend".to_string());
    let w = rng.range(2, 4) as WidthInt;
    let max = (1u64 << w) - 1;
    let c = ctx.bv_symbol("cnt", w);
    let one = lit(ctx, w, 1);
    let inc = ctx.add(c, one);
    let next = if rng.chance(1, 3) {
        let en = ctx.bv_symbol("en", 1);
        sys.add_input(ctx, en);
        ctx.ite(en, inc, c)
    } else {
        inc
    };
    let z = lit(ctx, w, 0);
    add_state(ctx, &mut sys, c, Some(z), Some(next));
    let t = rng.range(2, max);
    let tl = lit(ctx, w, t);
    let cons = ctx.distinct(c, tl);
    sys.constraints.push(cons);
    let b = match rng.below(6) {
        0..=3 => t - 1,                  // dead-end bad state
        4 => (t + 1) & max,              // behind the forbidden value (or wrapped to 0)
        _ => rng.range(0, max),
    };
    let bl = lit(ctx, w, b);
    let bad = ctx.equal(c, bl);
    sys.bad_states.push(bad);
    if rng.chance(1, 3) {
        // a second bad state that is the forbidden value itself: never bad in an execution
        let bad2 = ctx.equal(c, tl);
        sys.bad_states.push(bad2);
    }
    sys
}

/// relational init: a state without init and a state whose init reads it
fn fam_relinit(ctx: &mut Context, rng: &mut Rng) -> TransitionSystem {
    let mut sys = TransitionSystem::new("relinit".to_string());
    let w = rng.range(1, 2) as WidthInt;
    let max = (1u64 << w) - 1;
    let b = ctx.bv_symbol("b", w);
    let a = ctx.bv_symbol("a", w);
    let k = if rng.chance(1, 2) { 0 } else { rng.range(1, max) };
    let kl = lit(ctx, w, k);
    // mostly the plain symbol: a compound init expression over a state is the recorded C04 finding
    // use-before-declare:init-signal-reads-state in the BMC encoding (inherited through the fallback)
    let init_a = match rng.below(6) {
        0 => ctx.add(b, kl),
        1 => ctx.not(b),
        _ => b,
    };
    let one = lit(ctx, w, 1);
    let (na, nb) = match rng.below(4) {
        0 => (a, b),
        1 => {
            let en = ctx.bv_symbol("en", 1);
            sys.add_input(ctx, en);
            let ia = ctx.add(a, one);
            let ib = ctx.add(b, one);
            let na = ctx.ite(en, ia, a);
            let nb = ctx.ite(en, ib, b);
            (na, nb)
        }
        2 => (b, a),
        _ => {
            let ia = ctx.add(a, one);
            (ia, b)
        }
    };
    // the state without init comes first (the BMC encoding defines init values in state order)
    add_state(ctx, &mut sys, b, None, Some(nb));
    add_state(ctx, &mut sys, a, Some(init_a), Some(na));
    if rng.chance(1, 3) {
        // a third, ordinary state so that cubes have literals to drop
        let f = ctx.bv_symbol("f", 1);
        let z = lit(ctx, 1, 0);
        let hit = ctx.equal(a, b);
        let nf = ctx.or(f, hit);
        add_state(ctx, &mut sys, f, Some(z), Some(nf));
    }
    let bad = match rng.below(4) {
        0 => ctx.distinct(a, b),
        1 => {
            let s = ctx.add(b, kl);
            ctx.distinct(a, s)
        }
        2 => {
            let t1 = lit(ctx, w, rng.range(0, max));
            let t2 = lit(ctx, w, rng.range(0, max));
            let ea = ctx.equal(a, t1);
            let eb = ctx.equal(b, t2);
            ctx.and(ea, eb)
        }
        _ => {
            let nb_ = ctx.not(b);
            ctx.distinct(a, nb_)
        }
    };
    sys.bad_states.push(bad);
    sys
}

/// a bad-state expression that reads an input which the constraints restrict: the shallow
/// "counterexample" needs a forbidden input value, the real one is deeper (or does not exist)
fn fam_consbad(ctx: &mut Context, rng: &mut Rng) -> TransitionSystem {
    let mut sys = TransitionSystem::new("consbad".to_string());
    let w = rng.range(2, 3) as WidthInt;
    let max = (1u64 << w) - 1;
    let x = ctx.bv_symbol("x", 1);
    sys.add_input(ctx, x);
    let c = ctx.bv_symbol("cnt", w);
    let one = lit(ctx, w, 1);
    let inc = ctx.add(c, one);
    let next = match rng.below(3) {
        0 => inc,
        1 => {
            let en = ctx.bv_symbol("en", 1);
            sys.add_input(ctx, en);
            ctx.ite(en, inc, c)
        }
        _ => {
            // wrap before the deep bad value: the system is safe
            let m = lit(ctx, w, rng.range(1, max - 1));
            let at = ctx.equal(c, m);
            let z = lit(ctx, w, 0);
            ctx.ite(at, z, inc)
        }
    };
    let z = lit(ctx, w, 0);
    add_state(ctx, &mut sys, c, Some(z), Some(next));
    let nx = ctx.not(x);
    let cons = match rng.below(3) {
        0 | 1 => nx,
        _ => {
            // x only allowed at one particular count
            let t0 = lit(ctx, w, rng.range(0, max));
            let at = ctx.equal(c, t0);
            ctx.implies(x, at)
        }
    };
    sys.constraints.push(cons);
    let t1 = rng.range(0, max - 1);
    let t2 = rng.range(t1 + 1, max);
    let l1 = lit(ctx, w, t1);
    let l2 = lit(ctx, w, t2);
    let e1 = ctx.equal(c, l1);
    let shallow = ctx.and(e1, x);
    let deep = ctx.equal(c, l2);
    if rng.chance(1, 2) {
        let bad = ctx.or(shallow, deep);
        sys.bad_states.push(bad);
    } else {
        sys.bad_states.push(shallow);
        sys.bad_states.push(deep);
    }
    sys
}

fn gen_family(ctx: &mut Context, rng: &mut Rng, fam: &str) -> TransitionSystem {
    match fam {
        "counter" => fam_counter(ctx, rng),
        "arith" => fam_arith(ctx, rng),
        "shift" => fam_shift(ctx, rng),
        "lockstep" => fam_lockstep(ctx, rng),
        "ring" => fam_ring(ctx, rng),
        "fsm" => fam_fsm(ctx, rng),
        "random" => fam_random(ctx, rng, 0),
        "noinit" => fam_random(ctx, rng, 1),
        "freestate" => fam_random(ctx, rng, 2),
        "conststate" => fam_random(ctx, rng, 3),
        "initstate" => fam_random(ctx, rng, 4),
        "initinput" => fam_init_input(ctx, rng),
        "deadend" => fam_deadend(ctx, rng),
        "relinit" => fam_relinit(ctx, rng),
        "consbad" => fam_consbad(ctx, rng),
        "mcgen" => panic!("mcgen systems are generated in the main loop"),
        other => panic!("unknown family {other}"),
    }
}

const FAMILIES: &[(&str, u64)] = &[
    ("counter", 16),
    ("arith", 12),
    ("shift", 12),
    ("lockstep", 12),
    ("ring", 12),
    ("fsm", 16),
    ("random", 14),
    ("noinit", 4),
    ("freestate", 3),
    ("conststate", 3),
    ("initstate", 2),
    ("initinput", 4),
    ("deadend", 7),
    ("relinit", 8),
    ("consbad", 7),
    ("mcgen", 14),
];

fn pick_family(rng: &mut Rng) -> &'static str {
    let total: u64 = FAMILIES.iter().map(|f| f.1).sum();
    let mut k = rng.below(total);
    for (name, wgt) in FAMILIES {
        if k < *wgt {
            return name;
        }
        k -= wgt;
    }
    unreachable!()
}

// ------------------------------------------------------------------------------------------------
// the harness's own explicit-state classification (statistics and steering only)
// ------------------------------------------------------------------------------------------------

#[derive(Clone, Debug)]
struct Class {
    /// None = safe, Some(d) = least depth of a bad valuation
    depth: Option<u32>,
    reached: usize,
    layers: u32,
    /// number of backward breadth-first layers from the bad states over the state graph (an upper
    /// estimate of the number of frames PDR needs on a safe system)
    bwd_layers: u32,
    bad_satisfiable: bool,
    prop_inductive: bool,
    state_bits: u32,
    input_bits: u32,
}

impl Class {
    fn label(&self) -> String {
        match self.depth {
            Some(d) => format!("unsafe-d{d}"),
            None => {
                if !self.bad_satisfiable {
                    "safe-bad-unsat".into()
                } else if self.prop_inductive {
                    "safe-prop-inductive".into()
                } else {
                    "safe-needs-strengthening".into()
                }
            }
        }
    }
}

fn sym_width(ctx: &Context, e: ExprRef) -> u32 {
    e.get_bv_type(ctx).expect("bit-vector symbol")
}

fn classify(ctx: &Context, sys: &TransitionSystem) -> Option<Class> {
    let sw: Vec<u32> = sys.states.iter().map(|s| sym_width(ctx, s.symbol)).collect();
    let iw: Vec<u32> = sys.inputs.iter().map(|s| sym_width(ctx, *s)).collect();
    let sbits: u32 = sw.iter().sum();
    let ibits: u32 = iw.iter().sum();
    if sbits > 10 || ibits > 3 {
        return None;
    }
    let ns = 1usize << sbits;
    let ni = 1usize << ibits;
    let mut sim = Interpreter::new(ctx, sys);
    sim.init(InitKind::Zero);
    let split = |mut v: usize, ws: &[u32]| -> Vec<u64> {
        ws.iter()
            .map(|w| {
                let x = (v & ((1usize << w) - 1)) as u64;
                v >>= w;
                x
            })
            .collect()
    };
    let join = |vals: &[u64], ws: &[u32]| -> usize {
        let mut acc = 0usize;
        let mut sh = 0;
        for (v, w) in vals.iter().zip(ws.iter()) {
            acc |= (*v as usize) << sh;
            sh += w;
        }
        acc
    };
    let getu = |sim: &Interpreter, e: ExprRef| -> u64 {
        match sim.get(e) {
            Value::BitVec(v) => v.to_u64().unwrap(),
            _ => panic!("array"),
        }
    };
    // per node (s, i): cons, bad, init-ok, successor state (free states = None)
    let mut cons = vec![false; ns * ni];
    let mut bad = vec![false; ns * ni];
    let mut init_ok = vec![false; ns * ni];
    let mut succ: Vec<Vec<Option<u64>>> = vec![vec![]; ns * ni];
    for s in 0..ns {
        let svals = split(s, &sw);
        for i in 0..ni {
            let ivals = split(i, &iw);
            for (st, v) in sys.states.iter().zip(svals.iter()) {
                sim.set(st.symbol, &BitVecValue::from_u64(*v, sym_width(ctx, st.symbol)));
            }
            for (inp, v) in sys.inputs.iter().zip(ivals.iter()) {
                sim.set(*inp, &BitVecValue::from_u64(*v, sym_width(ctx, *inp)));
            }
            let n = s * ni + i;
            cons[n] = sys.constraints.iter().all(|c| getu(&sim, *c) == 1);
            bad[n] = sys.bad_states.iter().any(|b| getu(&sim, *b) == 1);
            init_ok[n] = sys.states.iter().zip(svals.iter()).all(|(st, v)| match st.init {
                Some(e) => getu(&sim, e) == *v,
                None => true,
            });
            succ[n] = sys.states.iter().map(|st| st.next.map(|e| getu(&sim, e))).collect();
        }
    }
    let state_has_cons: Vec<bool> = (0..ns).map(|s| (0..ni).any(|i| cons[s * ni + i])).collect();
    // expand the free states of a successor vector into concrete state indices
    let expand = |sv: &Vec<Option<u64>>| -> Vec<usize> {
        let mut outs: Vec<Vec<u64>> = vec![vec![]];
        for (k, v) in sv.iter().enumerate() {
            let choices: Vec<u64> = match v {
                Some(x) => vec![*x],
                None => (0..(1u64 << sw[k])).collect(),
            };
            let mut n2 = vec![];
            for o in outs.iter() {
                for c in choices.iter() {
                    let mut o2 = o.clone();
                    o2.push(*c);
                    n2.push(o2);
                }
            }
            outs = n2;
        }
        outs.iter().map(|vals| join(vals, &sw)).collect()
    };
    // BFS over nodes
    let mut seen = vec![false; ns * ni];
    let mut frontier: Vec<usize> = (0..ns * ni).filter(|&n| init_ok[n] && cons[n]).collect();
    for &n in frontier.iter() {
        seen[n] = true;
    }
    let mut depth = None;
    let mut layers = 0u32;
    let mut reached = frontier.len();
    let mut d = 0u32;
    while !frontier.is_empty() {
        layers += 1;
        if frontier.iter().any(|&n| bad[n]) {
            depth = Some(d);
            break;
        }
        let mut next = vec![];
        for &n in frontier.iter() {
            for s2 in expand(&succ[n]) {
                for i2 in 0..ni {
                    let m = s2 * ni + i2;
                    if cons[m] && !seen[m] {
                        seen[m] = true;
                        next.push(m);
                    }
                }
            }
        }
        reached += next.len();
        frontier = next;
        d += 1;
    }
    let bad_satisfiable = (0..ns * ni).any(|n| cons[n] && bad[n]);
    // P(s) = no input makes s bad under the constraints
    let p: Vec<bool> = (0..ns).map(|s| !(0..ni).any(|i| cons[s * ni + i] && bad[s * ni + i])).collect();
    let mut prop_inductive = true;
    'outer: for s in 0..ns {
        if !p[s] {
            continue;
        }
        for i in 0..ni {
            if !cons[s * ni + i] {
                continue;
            }
            for s2 in expand(&succ[s * ni + i]) {
                if state_has_cons[s2] && !p[s2] {
                    prop_inductive = false;
                    break 'outer;
                }
            }
        }
    }
    // backward layers over states
    let mut preds: Vec<Vec<usize>> = vec![vec![]; ns];
    for s in 0..ns {
        for i in 0..ni {
            if !cons[s * ni + i] {
                continue;
            }
            for s2 in expand(&succ[s * ni + i]) {
                if state_has_cons[s2] {
                    preds[s2].push(s);
                }
            }
        }
    }
    let mut bseen = vec![false; ns];
    let mut bfront: Vec<usize> = (0..ns).filter(|&s| !p[s]).collect();
    for &s in bfront.iter() {
        bseen[s] = true;
    }
    let mut bwd_layers = 0u32;
    while !bfront.is_empty() {
        bwd_layers += 1;
        let mut next = vec![];
        for &s in bfront.iter() {
            for &q in preds[s].iter() {
                if !bseen[q] {
                    bseen[q] = true;
                    next.push(q);
                }
            }
        }
        bfront = next;
    }
    Some(Class { depth, reached, layers, bwd_layers, bad_satisfiable, prop_inductive, state_bits: sbits, input_bits: ibits })
}

// ------------------------------------------------------------------------------------------------
// cases
// ------------------------------------------------------------------------------------------------

#[derive(Clone)]
struct RunCfg {
    solver: String,
    gen_on: bool,
    sseed: u64,
    /// fault injected at the n-th response-bearing call of the solver context: ("unknown"|"error", n)
    fault: Option<(String, u64)>,
}

#[derive(Clone)]
struct Job {
    id: String,
    family: String,
    class: String,
    sys_text: String,
    /// "(named (expr "name") ..)": the explicit names of non-symbol signals (they change the SMT encoding)
    named: String,
    cfg: RunCfg,
}

fn configs(tier_runs: &str) -> Vec<RunCfg> {
    // "z3:0,1,2;cvc5:0,1"; "z3+:0,4" = with unsat-core generalisation only
    let mut out = vec![];
    for part in tier_runs.split(';') {
        let (solver, seeds) = part.split_once(':').expect("runs syntax solver:seed,seed;...");
        let (solver, only_on) = match solver.strip_suffix('+') {
            Some(s) => (s, true),
            None => (solver, false),
        };
        for s in seeds.split(',') {
            for gen_on in [true, false] {
                if only_on && !gen_on {
                    continue;
                }
                if solver == "pushpop" && gen_on {
                    continue; // the profile has no get-unsat-assumptions: generalisation cannot be enabled
                }
                out.push(RunCfg { solver: solver.to_string(), gen_on, sseed: s.parse().expect("seed"), fault: None });
            }
        }
    }
    out
}

fn parent(args: &Args) {
    let mut rng = Rng::new(args.seed);
    let mut stats = Stats::default();
    let runs = args.get("runs").unwrap_or("z3:0,1,2;cvc5:0,1").to_string();
    let cfgs = configs(&runs);
    let jobs_n = args.get_u64("jobs", 6) as usize;
    let watchdog = args.get_u64("watchdog", WATCHDOG_S);
    let only_family = args.get("family").map(|s| s.to_string());
    // systems with at most `full_bits` state bits get every configuration; larger ones (up to 10 state
    // bits) only z3 with generalisation (without generalisation, and with cvc5's cores, the number of
    // queries grows with the number of states and the 60 s watchdog would measure speed, not hangs)
    let full_bits = args.get_u64("full-bits", 4) as u32;
    let small_share = args.get_u64("small-share", 70);
    // cvc5's unsat cores generalise poorly (1 933 queries on a 32-state system): cvc5 only up to cvc5-bits
    let cvc5_bits = args.get_u64("cvc5-bits", 4) as u32;
    let n_faults = args.get_u64("faults", 0);
    let mut jobs: Vec<Job> = vec![];
    let mut distinct_sys = HashSet::new();

    if let Some(path) = args.get("cases-in") {
        for c in read_cases(path).iter() {
            let id = c.list()[1].atom().to_string();
            let fam = c.field("family").map(|f| f[0].atom().to_string()).unwrap_or_else(|| "replay".into());
            let sys_sexp = c.list().iter().find(|x| matches!(x, Sexp::List(l) if !l.is_empty() && matches!(&l[0], Sexp::Atom(a) if a == "sys"))).expect("(sys ...) field");
            let mut ctx = Context::default();
            let mut sys = build_sys(&mut ctx, sys_sexp);
            restore_named(&mut ctx, &mut sys, c);
            let sys_text = dump_sys(&ctx, &sys);
            let named = dump_named(&ctx, &sys);
            let class = guarded(|| classify(&ctx, &sys)).ok().flatten().map(|c| c.label()).unwrap_or_else(|| "unclassified".into());
            let cfg = RunCfg {
                solver: c.field("solver").map(|f| f[0].atom().to_string()).unwrap_or_else(|| "z3".into()),
                gen_on: c.field("gen").map(|f| f[0].atom() == "on").unwrap_or(true),
                sseed: c.field("sseed").map(|f| f[0].num()).unwrap_or(0),
                fault: c.field("fault").filter(|f| f.len() >= 2).map(|f| (f[0].atom().to_string(), f[1].num())),
            };
            stats.bump("family", &fam);
            stats.bump("class", &class);
            distinct_sys.insert(sys_text.clone());
            jobs.push(Job { id, family: fam, class, sys_text, named, cfg });
        }
    }

    // generation: steer towards a split with a good share of safe-but-not-trivially systems
    let want = args.count;
    let mut produced = 0u64;
    let mut attempts = 0u64;
    let mut n_by_kind: HashMap<&'static str, u64> = HashMap::new();
    while produced < want && attempts < want * 300 + 1000 {
        attempts += 1;
        let mut r = rng.fork();
        let fam = match &only_family {
            Some(f) => FAMILIES.iter().find(|x| x.0 == f).map(|x| x.0).expect("family"),
            None => pick_family(&mut r),
        };
        let mut ctx = Context::default();
        let (sys, mc_features) = if fam == "mcgen" {
            // the generator of the encoding properties (C04/C02/C03): shared init/next/bad signals, init-dependency
            // chains, delay registers, named signals, constant states, bare inputs as bad states ...; its
            // encoding-level defects reach PDR through the BMC fallback and through the transition encoding
            let cfg = McCfg { max_state_bits: 6, max_input_bits: 3, arrays: false, div_rem: false, init_reads_later: true };
            let mut scratch = Stats::default();
            let out = gen_mc_sys(&mut ctx, &mut r, &cfg, &mut scratch);
            (out.sys, out.features)
        } else {
            (gen_family(&mut ctx, &mut r, fam), vec![])
        };
        let class = if fam == "mcgen" { guarded(|| classify(&ctx, &sys)).ok().flatten() } else { classify(&ctx, &sys) };
        let Some(class) = class else {
            stats.inc("rejected_too_large");
            continue;
        };
        // shares: at most 45% unsafe, at most 20% trivially safe; the rest must need strengthening.
        // (the special families are exempt: they exist for their structure)
        let kind: &'static str = match class.depth {
            Some(_) => "unsafe",
            None if class.bad_satisfiable && !class.prop_inductive => "safe-nontrivial",
            None => "safe-trivial",
        };
        let special = matches!(fam, "noinit" | "freestate" | "conststate" | "initstate" | "initinput");
        if fam == "mcgen" && (sys.bad_states.is_empty() || class.input_bits > 3) {
            stats.inc("rejected_mcgen_shape");
            continue;
        }
        if class.bwd_layers > 13 {
            // a long backward chain from the bad states means many frames and thousands of queries:
            // that would test the watchdog against speed, not against hangs
            stats.inc("rejected_long_backward_chain");
            continue;
        }
        if only_family.is_none() {
            let want_small = r.chance(small_share, 100);
            if want_small != (class.state_bits <= full_bits) {
                stats.inc("rejected_by_size_share");
                continue;
            }
        }
        if special {
            // the structural families together take at most 15% of the systems
            let nsp = *n_by_kind.get("special").unwrap_or(&0);
            if nsp >= (want * 15) / 100 + 1 {
                stats.inc("rejected_by_special_share");
                continue;
            }
        }
        {
            let n = *n_by_kind.get(kind).unwrap_or(&0);
            let cap = match kind {
                "unsafe" => (want * 40) / 100 + 1,
                "safe-trivial" => (want * 12) / 100 + 1,
                _ => want,
            };
            if n >= cap {
                stats.inc("rejected_by_steering");
                continue;
            }
            if let Some(d) = class.depth {
                if d > 14 {
                    stats.inc("rejected_too_deep");
                    continue;
                }
                // spread the depths: no depth bucket may take more than a quarter of the unsafe share
                let b: &'static str = match d {
                    0 => "depth0",
                    1 => "depth1",
                    2..=3 => "depth2-3",
                    4..=6 => "depth4-6",
                    _ => "depth7-14",
                };
                let nb = *n_by_kind.get(b).unwrap_or(&0);
                if nb >= cap / 4 + 1 {
                    stats.inc("rejected_by_depth_steering");
                    continue;
                }
                *n_by_kind.entry(b).or_insert(0) += 1;
            }
        }
        let sys_text = dump_sys(&ctx, &sys);
        if !distinct_sys.insert(sys_text.clone()) {
            stats.inc("rejected_duplicate");
            continue;
        }
        *n_by_kind.entry(kind).or_insert(0) += 1;
        if special {
            *n_by_kind.entry("special").or_insert(0) += 1;
        }
        let label = class.label();
        let named = dump_named(&ctx, &sys);
        for f in mc_features.iter() {
            stats.bump("mcgen_features", f);
        }
        if fam == "mcgen" {
            stats.bump("mcgen_named_signals", &format!("{}", named.matches("\"").count() / 2));
        }
        stats.bump("family", fam);
        stats.bump("class", &label);
        stats.bump("kind", kind);
        stats.bump("family_x_kind", &format!("{fam}:{kind}"));
        stats.bump("state_bits", &format!("{}", class.state_bits));
        stats.bump("input_bits", &format!("{}", class.input_bits));
        stats.bump("reached_valuations", &bucket(class.reached as u64));
        stats.bump("bfs_layers", &format!("{}", class.layers.min(20)));
        stats.bump("backward_layers_from_bad", &format!("{}", class.bwd_layers));
        stats.bump("n_bads", &format!("{}", sys.bad_states.len()));
        stats.bump("n_constraints", &format!("{}", sys.constraints.len()));
        let full = class.state_bits <= full_bits;
        stats.bump("config_set", if full { "all-configurations" } else { "z3-generalisation-on-only" });
        // fault runs (property C15 on the real pdr): `unknown` / an error injected at one response-bearing call
        for fk in 0..n_faults {
            let kind = if r.chance(1, 2) { "unknown" } else { "error" };
            let at = if r.chance(1, 3) { r.below(6) } else { r.below(60) };
            let solver = if full && r.chance(1, 3) { "cvc5" } else { "z3" };
            let gen_on = !full || r.chance(1, 2);
            jobs.push(Job {
                id: format!("{produced}.f{fk}"),
                family: fam.to_string(),
                class: label.clone(),
                sys_text: sys_text.clone(),
                named: named.clone(),
                cfg: RunCfg { solver: solver.to_string(), gen_on, sseed: 0, fault: Some((kind.to_string(), at)) },
            });
        }
        for (k, cfg) in cfgs.iter().enumerate() {
            if !full && !(cfg.solver == "z3" && cfg.gen_on) {
                continue;
            }
            if cfg.solver == "cvc5" && class.state_bits > cvc5_bits {
                continue;
            }
            // cvc5 seed 2 = --minimal-unsat-cores: 0.2-0.35 s per (get-unsat-assumptions); the relational
            // families (and the arithmetic progressions, 300 queries at depth 8) need 100-300 queries at 4 state bits,
            // which is the watchdog's whole budget
            // (the same for any system whose bad states are 7 or more steps away / need 7 or more frames)
            if cfg.solver == "cvc5" && cfg.sseed == 2 && cfg.gen_on && class.state_bits > 3
                && (matches!(fam, "lockstep" | "fsm" | "ring" | "arith") || class.depth.map_or(class.bwd_layers >= 7, |d| d >= 7))
            {
                stats.inc("minimal_core_runs_skipped_expensive");
                continue;
            }
            jobs.push(Job { id: format!("{produced}.{k}"), family: fam.to_string(), class: label.clone(), sys_text: sys_text.clone(), named: named.clone(), cfg: cfg.clone() });
        }
        produced += 1;
    }
    stats.add("systems", distinct_sys.len() as u64);

    // run
    let mut results = run_jobs(&jobs, jobs_n, watchdog);
    // A run that hit the watchdog while this harness (and whatever else shares the machine) was
    // running many solvers in parallel is repeated once, alone, under the same watchdog: the
    // watchdog is meant to catch hangs, not a loaded machine.  A genuine hang times out again.
    for k in 0..jobs.len() {
        if results[k].kind == "timeout" {
            stats.inc("timeouts_in_parallel_phase");
            let again = run_one(&jobs[k], watchdog);
            if again.kind != "timeout" {
                stats.inc("timeouts_gone_when_rerun_alone");
                results[k] = again;
            }
        }
    }
    let mut out = std::io::BufWriter::new(std::fs::File::create(&args.out).expect("out file"));
    let mut distinct = HashSet::new();
    let mut script_hashes: HashMap<String, HashSet<String>> = HashMap::new();
    for (job, res) in jobs.iter().zip(results.iter()) {
        let line = format!(
            "(case {} (family {}) (class {}) (solver {}) (gen {}) (sseed {}){} {} {} {})",
            job.id,
            job.family,
            job.class,
            job.cfg.solver,
            if job.cfg.gen_on { "on" } else { "off" },
            job.cfg.sseed,
            match &job.cfg.fault {
                Some((k, n)) => format!(" (fault {k} {n})"),
                None => String::new(),
            },
            job.sys_text,
            job.named,
            res.fields
        );
        if let Some((k, _)) = &job.cfg.fault {
            stats.bump("fault_runs", &format!("{k}:{}:{}", if res.fields.contains("(faulthit 1)") { "hit" } else { "not-reached" }, res.kind));
        }
        distinct.insert(format!("{} {} {} {} {} {:?}", job.sys_text, job.named, job.cfg.solver, job.cfg.gen_on, job.cfg.sseed, job.cfg.fault));
        stats.bump("impl_result", &res.kind);
        stats.bump("impl_result_x_kind", &format!("{}:{}", res.kind, job.class.split("-d").next().unwrap_or("")));
        stats.bump("config", &format!("{}:gen-{}:seed{}", job.cfg.solver, if job.cfg.gen_on { "on" } else { "off" }, job.cfg.sseed));
        stats.bump("run_ms", &bucket(res.ms));
        stats.bump("queries", &bucket(res.queries));
        if !res.sim.is_empty() {
            stats.bump("witness_replay", &res.sim);
        }
        // the logical trace recorded by the cfg(patronus_verif) hook of pdr.rs (replayed by the driver
        // against the extracted concrete model)
        if res.fields.contains("(trace on") {
            stats.inc("runs_with_trace");
            stats.bump("trace_queries", &bucket(res.fields.matches(" (q ").count() as u64));
            stats.bump("trace_blocked_cubes", &bucket(res.fields.matches(" (block ").count() as u64));
            stats.bump("trace_frames", &format!("{}", res.fields.matches(" (addframe ").count().min(20)));
            // how far the restore loop of fix_gen_cube was exercised: the largest number of candidate
            // literals in one of its queries
            let sizes = genfix_sel_sizes(&res.fields);
            let label = match sizes.iter().map(|p| p.0).max() {
                None => "restore-loop-not-reached".to_string(),
                Some(m) if m >= 4 => "max-literals-4+".to_string(),
                Some(m) => format!("max-literals-{m}"),
            };
            stats.bump("trace_restore_loop", &label);
            stats.add("trace_restore_queries_with_2+_literals", sizes.iter().filter(|p| p.0 >= 2).count() as u64);
            stats.add("trace_restore_cores_with_2+_literals", sizes.iter().filter(|p| p.1 >= 2).count() as u64);
            if sizes.iter().any(|p| p.0 >= 2) {
                stats.bump("restore_loop_2+_by_family", &job.family);
            }
            if sizes.iter().any(|p| p.1 >= 2) {
                stats.bump("restore_core_2+_by_family", &job.family);
            }
        } else {
            stats.inc("runs_without_trace_hook");
        }
        script_hashes.entry(format!("{}|{}", job.sys_text, job.cfg.gen_on)).or_default().insert(res.hash.clone());
        stats.sample(&line, 3);
        writeln!(out, "{line}").unwrap();
    }
    // diversity of the solver conversations: distinct SMT scripts per (system, mode) over solvers x seeds
    for (_, hs) in script_hashes.iter() {
        stats.bump("distinct_scripts_per_system_and_mode", &format!("{}", hs.len()));
    }
    stats.add("distinct_cases", distinct.len() as u64);
    stats.write(&args.out);
}

/// for every restore-loop query in a dumped trace: the number of candidate literals (`sel`) and the
/// number of literals in the unsat core of the answer (0 when the answer is sat)
fn genfix_sel_sizes(fields: &str) -> Vec<(usize, usize)> {
    let mut out = vec![];
    let mut rest = fields;
    while let Some(i) = rest.find(" (q genfix ") {
        rest = &rest[i + 11..];
        // the event ends where the next one starts
        let end = [" (q ", " (block ", " (addframe "].iter().filter_map(|m| rest.find(m)).min().unwrap_or(rest.len());
        let ev = &rest[..end];
        if let Some(j) = ev.find("(sel") {
            let tail = &ev[j..];
            let (sel, ans) = match tail.find("(unsat").or_else(|| tail.find("(sat")).or_else(|| tail.find("(unknown")) {
                Some(k) => (&tail[..k], &tail[k..]),
                None => (tail, ""),
            };
            let core = if ans.starts_with("(unsat") { ans.matches("(l ").count() } else { 0 };
            out.push((sel.matches("(l ").count(), core));
        }
    }
    out
}

fn bucket(n: u64) -> String {
    let edges = [0u64, 1, 2, 5, 10, 20, 50, 100, 200, 500, 1000, 2000, 5000, 10000, 30000, 60000];
    for w in edges.windows(2) {
        if n < w[1] {
            return format!("{}..{}", w[0], w[1] - 1);
        }
    }
    ">=60000".into()
}

struct RunResult {
    fields: String,
    kind: String,
    sim: String,
    ms: u64,
    queries: u64,
    hash: String,
}

fn run_jobs(jobs: &[Job], threads: usize, watchdog: u64) -> Vec<RunResult> {
    let n = jobs.len();
    let next = Arc::new(Mutex::new(0usize));
    let results: Arc<Mutex<Vec<Option<RunResult>>>> = Arc::new(Mutex::new((0..n).map(|_| None).collect()));
    let jobs_arc: Arc<Vec<Job>> = Arc::new(jobs.to_vec());
    let mut handles = vec![];
    for _ in 0..threads.max(1) {
        let next = next.clone();
        let results = results.clone();
        let jobs = jobs_arc.clone();
        handles.push(std::thread::spawn(move || {
            loop {
                let k = {
                    let mut g = next.lock().unwrap();
                    let k = *g;
                    *g += 1;
                    k
                };
                if k >= jobs.len() {
                    break;
                }
                let r = run_one(&jobs[k], watchdog);
                results.lock().unwrap()[k] = Some(r);
            }
        }));
    }
    for h in handles {
        h.join().expect("runner thread");
    }
    let mut g = results.lock().unwrap();
    g.drain(..).map(|r| r.expect("result")).collect()
}

fn wrap_dir() -> String {
    std::env::var("C10_WRAP_DIR").unwrap_or_else(|_| concat!(env!("CARGO_MANIFEST_DIR"), "/solver-wrap").to_string())
}

fn run_one(job: &Job, watchdog: u64) -> RunResult {
    use std::os::unix::process::CommandExt;
    use std::process::{Command, Stdio};
    let exe = std::env::current_exe().expect("current_exe");
    let start = Instant::now();
    let real_path = std::env::var("PATH").unwrap_or_default();
    let mut child = Command::new(exe)
        .args(["C10", "--worker", "1", "--solver", &job.cfg.solver, "--gen", if job.cfg.gen_on { "on" } else { "off" }, "--sseed", &job.cfg.sseed.to_string()])
        .args(match &job.cfg.fault {
            Some((k, n)) => vec!["--fault-kind".to_string(), k.clone(), "--fault-at".to_string(), n.to_string()],
            None => vec![],
        })
        .env("PATH", format!("{}:{}", wrap_dir(), real_path))
        .env("C10_REAL_PATH", &real_path)
        .env("C10_SOLVER_SEED", job.cfg.sseed.to_string())
        .env("RUST_BACKTRACE", "0")
        .stdin(Stdio::piped())
        .stdout(Stdio::piped())
        .stderr(Stdio::null())
        .process_group(0)
        .spawn()
        .expect("spawn worker");
    let pid = child.id();
    {
        let mut stdin = child.stdin.take().unwrap();
        let _ = stdin.write_all(job.sys_text.as_bytes());
        let _ = stdin.write_all(format!("\n(x {})\n", job.named).as_bytes());
    }
    // read stdout in a thread so that a large witness cannot block the child
    let mut stdout = child.stdout.take().unwrap();
    let reader = std::thread::spawn(move || {
        let mut s = String::new();
        let _ = stdout.read_to_string(&mut s);
        s
    });
    let deadline = start + Duration::from_secs(watchdog);
    let mut timed_out = false;
    let status = loop {
        match child.try_wait() {
            Ok(Some(st)) => break Some(st),
            Ok(None) => {
                if Instant::now() >= deadline {
                    timed_out = true;
                    let _ = Command::new("kill").args(["-9", "--", &format!("-{pid}")]).status();
                    let _ = child.wait();
                    break None;
                }
                std::thread::sleep(Duration::from_millis(3));
            }
            Err(_) => break None,
        }
    };
    // make sure no solver process of this group survives
    let _ = Command::new("kill").args(["-9", "--", &format!("-{pid}")]).stderr(Stdio::null()).status();
    let text = reader.join().unwrap_or_default();
    if timed_out || status.map(|s| !s.success()).unwrap_or(true) {
        // the worker could not clean up its recorded SMT conversation
        let _ = std::fs::remove_file(format!("c10-tmp/{pid}.smt2"));
    }
    let ms = start.elapsed().as_millis() as u64;
    let line = text.lines().find(|l| l.starts_with("(impl")).map(|l| l.to_string());
    let (fields, kind, sim, queries, hash) = if timed_out {
        ("(impl timeout) (sim none) (script none)".to_string(), "timeout".to_string(), String::new(), 0, "timeout".to_string())
    } else if let Some(l) = line {
        let sx = Sexp::parse(&format!("(w {l})")).expect("worker line");
        let imp = &sx.field("impl").unwrap()[0];
        let kind = match imp {
            Sexp::Atom(a) => a.clone(),
            Sexp::List(l) => l[0].atom().to_string(),
            _ => "?".into(),
        };
        let sim = sx.field("sim").map(|f| f[0].atom().to_string()).unwrap_or_default();
        let (q, h) = match sx.field("script") {
            Some(f) if matches!(&f[0], Sexp::List(_)) => {
                let sc = Sexp::List(f.to_vec());
                (sc.field("queries").map(|x| x[0].num()).unwrap_or(0), sc.field("hash").map(|x| x[0].atom().to_string()).unwrap_or_default())
            }
            _ => (0, String::new()),
        };
        (l, kind, if kind_is_fail(&sx) { sim } else { String::new() }, q, h)
    } else {
        let st = status.map(|s| format!("{s}")).unwrap_or_else(|| "unknown".into());
        (format!("(impl (crash {})) (sim none) (script none)", quote(&st)), "crash".to_string(), String::new(), 0, "crash".to_string())
    };
    RunResult { fields: format!("{fields} (ms {ms})"), kind, sim, ms, queries, hash }
}

fn kind_is_fail(sx: &Sexp) -> bool {
    matches!(&sx.field("impl").unwrap()[0], Sexp::List(l) if l[0].atom() == "fail")
}

// ------------------------------------------------------------------------------------------------
// worker: one run of the real pdr
// ------------------------------------------------------------------------------------------------

/// text of the injected error (the driver recognises it)
pub const C10_FAULT_TEXT: &str = "injected: solver context error";

/// A `SolverContext` that passes everything on to the real context and, at the n-th RESPONSE-BEARING call
/// (check_sat, check_sat_assuming, get_value, get_unsat_assumptions; counted over restart()), replaces the
/// result: `unknown` - a check answers `Ok(CheckSatResponse::Unknown)`; `error` - the call returns `Err`.
/// The real call is made first, so the solver stays in step.  (Same idea as the context-level fault harness
/// of C15; here the run also records the PDR trace, which the driver replays with the fault.)
struct FaultyCtx<S: SolverContext> {
    inner: S,
    calls: u64,
    at: Option<u64>,
    fault: String,
    hit: std::rc::Rc<std::cell::Cell<bool>>,
}

impl<S: SolverContext> FaultyCtx<S> {
    fn hit(&mut self) -> bool {
        let n = self.calls;
        self.calls += 1;
        self.at == Some(n)
    }
    fn err(&self) -> Error {
        Error::FromSolver(self.inner.name().to_string(), C10_FAULT_TEXT.to_string())
    }
}

impl<S: SolverContext> SolverMetaData for FaultyCtx<S> {
    fn name(&self) -> &str {
        self.inner.name()
    }
    fn supports_check_assuming(&self) -> bool {
        self.inner.supports_check_assuming()
    }
    fn supports_uf(&self) -> bool {
        self.inner.supports_uf()
    }
    fn supports_const_array(&self) -> bool {
        self.inner.supports_const_array()
    }
    fn supports_get_unsat_assumptions(&self) -> bool {
        self.inner.supports_get_unsat_assumptions()
    }
}

impl<S: SolverContext> SolverContext for FaultyCtx<S> {
    fn restart(&mut self) -> patronus::smt::Result<()> {
        self.inner.restart()
    }
    fn set_logic(&mut self, option: Logic) -> patronus::smt::Result<()> {
        self.inner.set_logic(option)
    }
    fn assert(&mut self, ctx: &Context, e: ExprRef) -> patronus::smt::Result<()> {
        self.inner.assert(ctx, e)
    }
    fn declare_const(&mut self, ctx: &Context, symbol: ExprRef) -> patronus::smt::Result<()> {
        self.inner.declare_const(ctx, symbol)
    }
    fn define_const(&mut self, ctx: &Context, symbol: ExprRef, expr: ExprRef) -> patronus::smt::Result<()> {
        self.inner.define_const(ctx, symbol, expr)
    }
    fn check_sat_assuming(&mut self, ctx: &Context, props: impl IntoIterator<Item = ExprRef>) -> patronus::smt::Result<CheckSatResponse> {
        let hit = self.hit();
        let r = self.inner.check_sat_assuming(ctx, props);
        if !hit {
            return r;
        }
        self.hit.set(true);
        match self.fault.as_str() {
            "unknown" => r.map(|_| CheckSatResponse::Unknown),
            _ => Err(self.err()),
        }
    }
    fn check_sat(&mut self) -> patronus::smt::Result<CheckSatResponse> {
        let hit = self.hit();
        let r = self.inner.check_sat();
        if !hit {
            return r;
        }
        self.hit.set(true);
        match self.fault.as_str() {
            "unknown" => r.map(|_| CheckSatResponse::Unknown),
            _ => Err(self.err()),
        }
    }
    fn push(&mut self) -> patronus::smt::Result<()> {
        self.inner.push()
    }
    fn pop(&mut self) -> patronus::smt::Result<()> {
        self.inner.pop()
    }
    fn get_value(&mut self, ctx: &mut Context, e: ExprRef) -> patronus::smt::Result<ExprRef> {
        let hit = self.hit();
        let r = self.inner.get_value(ctx, e);
        if hit && self.fault != "unknown" {
            self.hit.set(true);
            Err(self.err())
        } else {
            r
        }
    }
    fn get_unsat_assumptions(&mut self, ctx: &mut Context) -> patronus::smt::Result<Vec<ExprRef>> {
        let hit = self.hit();
        let r = self.inner.get_unsat_assumptions(ctx);
        if hit && self.fault != "unknown" {
            self.hit.set(true);
            Err(self.err())
        } else {
            r
        }
    }
}

fn worker(args: &Args) {
    let mut text = String::new();
    std::io::stdin().read_to_string(&mut text).expect("stdin");
    // line 1: the system, line 2: (x (named ..))
    let mut lines = text.trim().lines();
    let sx = Sexp::parse(lines.next().unwrap_or("").trim()).expect("system s-expression");
    let mut ctx = Context::default();
    let mut sys = build_sys(&mut ctx, &sx);
    if let Some(l) = lines.next() {
        let nx = Sexp::parse(l.trim()).expect("names s-expression");
        restore_named(&mut ctx, &mut sys, &nx);
    }
    let solver = match args.get("solver").unwrap_or("z3") {
        "z3" => Z3,
        "cvc5" => CVC5,
        // the push/pop interaction style: patronus' YICES2 profile, z3 behind the name (solver-wrap/yices-smt2)
        "pushpop" => YICES2,
        other => panic!("unknown solver {other}"),
    };
    let gen_on = args.get("gen").unwrap_or("on") == "on";
    let engine_bmc = args.get("engine") == Some("bmc");
    // SMT conversation is recorded (patronus' own replay-file feature) for the script statistics
    let dir = "c10-tmp";
    let _ = std::fs::create_dir_all(dir);
    let script_path = format!("{dir}/{}.smt2", std::process::id());
    let file = std::fs::File::create(&script_path).expect("script file");
    let fault_at = args.get("fault-at").map(|v| v.parse::<u64>().expect("fault-at"));
    let fault_kind = args.get("fault-kind").unwrap_or("").to_string();
    let hit_flag = std::rc::Rc::new(std::cell::Cell::new(false));
    let res = guarded(|| {
        let inner = solver.start(Some(file)).map_err(|e| format!("start: {e}"))?;
        // always through the wrapper (transparent when no fault is requested)
        let mut smt_ctx = FaultyCtx { inner, calls: 0, at: fault_at, fault: fault_kind.clone(), hit: hit_flag.clone() };
        if engine_bmc {
            // only for cross-checking a finding by hand: patronus' own bounded engine on the same system
            bmc(&mut ctx, &mut smt_ctx, &sys, false, false, 20).map_err(|e| format!("{e}"))
        } else {
            pdr(&mut ctx, &mut smt_ctx, &sys, !gen_on).map_err(|e| format!("{e}"))
        }
    });
    let (impl_s, sim_s) = match res {
        Err(msg) => (format!("(panic {} {})", quote(&last_panic_loc()), quote(&truncate(&msg, 200))), "none".to_string()),
        Ok(Err(e)) => (format!("(err {})", quote(&truncate(&e, 300))), "none".to_string()),
        Ok(Ok(ModelCheckResult::Success)) => ("success".to_string(), "none".to_string()),
        Ok(Ok(ModelCheckResult::Unknown)) => ("unknown".to_string(), "none".to_string()),
        Ok(Ok(ModelCheckResult::Fail(wit))) => {
            let sim = match guarded(|| replay_witness(&ctx, &sys, &wit)) {
                Ok(s) => s,
                Err(_) => format!("panic@{}", last_panic_loc()),
            };
            (format!("(fail {})", dump_witness(&wit)), sim)
        }
    };
    let bases: HashSet<String> = sys.states.iter().map(|s| s.symbol).chain(sys.inputs.iter().copied()).filter_map(|e| ctx.get_symbol_name(e).map(|n| n.to_string())).collect();
    let script = script_stats(&script_path, &bases);
    let _ = std::fs::remove_file(&script_path);
    let trace = dump_trace(&ctx);
    println!("(impl {impl_s}) (sim {sim_s}) (script {script}) (faulthit {}) (trace {trace})", if hit_flag.get() { 1 } else { 0 });
}

/// the logical trace of the run recorded by the cfg(patronus_verif) hook in pdr.rs (if the patronus
/// checkout has it): queries with their answers, blocked cubes, added frames; literals as
/// (l "state" bit polarity)
#[cfg(c10_pdr_trace)]
fn dump_trace(ctx: &Context) -> String {
    use patronus::mc::pdr_verif_trace::{Answer, Ev, INF, take};
    let lit = |e: ExprRef| -> String {
        let (inner, pol) = match &ctx[e] {
            Expr::BVNot(x, _) => (*x, 0),
            _ => (e, 1),
        };
        match &ctx[inner] {
            Expr::BVSlice { e: sym, hi, lo } if hi == lo => format!("(l {} {} {})", quote(ctx.get_symbol_name(*sym).unwrap_or("?")), lo, pol),
            Expr::BVSymbol { .. } => format!("(l {} 0 {})", quote(ctx.get_symbol_name(inner).unwrap_or("?")), pol),
            _ => format!("(l \"?{}\" 0 {})", usize::from(inner), pol),
        }
    };
    let lits = |v: &Vec<ExprRef>| -> String { v.iter().map(|e| lit(*e)).collect::<Vec<_>>().join(" ") };
    let frame = |f: usize| -> String { if f == INF { "inf".to_string() } else { format!("{f}") } };
    let mut out = String::from("on");
    for ev in take() {
        match ev {
            Ev::Query { kind, frame: f, neg, fixed, sel, answer } => {
                let a = match answer {
                    Answer::Sat(m) => format!("(sat {})", lits(&m)),
                    Answer::Unsat(c) => format!("(unsat {})", lits(&c)),
                    Answer::Unknown => "(unknown)".to_string(),
                };
                out.push_str(&format!(" (q {kind} {} {} (fixed {}) (sel {}) {a})", frame(f), if neg { 1 } else { 0 }, lits(&fixed), lits(&sel)));
            }
            Ev::Block { frame: f, cube } => out.push_str(&format!(" (block {} {})", frame(f), lits(&cube))),
            Ev::AddFrame { act_id } => out.push_str(&format!(" (addframe {act_id})")),
        }
    }
    out
}

#[cfg(not(c10_pdr_trace))]
fn dump_trace(_ctx: &Context) -> String {
    "off".to_string()
}

fn truncate(s: &str, n: usize) -> String {
    let mut t: String = s.chars().take(n).collect();
    if t.len() < s.len() {
        t.push_str("...");
    }
    t
}

fn dump_witness(w: &Witness) -> String {
    let mut s = String::from("(wit (init");
    for v in w.init.iter() {
        match v {
            InitValue::BitVec(b) => s.push_str(&format!(" {}", bv_tok(b))),
            InitValue::Array(_, _) => s.push_str(" array"),
            InitValue::None => s.push_str(" none"),
        }
    }
    s.push_str(") (inputs");
    for step in w.inputs.iter() {
        s.push_str(" (");
        for (k, v) in step.iter().enumerate() {
            if k > 0 {
                s.push(' ');
            }
            match v {
                Some(Value::BitVec(b)) => s.push_str(&bv_tok(b)),
                Some(Value::Array(_)) => s.push_str("array"),
                None => s.push_str("none"),
            }
        }
        s.push(')');
    }
    s.push_str(") (failed");
    for f in w.failed_safety.iter() {
        s.push_str(&format!(" {f}"));
    }
    s.push_str("))");
    s
}

/// Replay a witness through patronus' interpreter: init equations at step 0, every constraint at
/// every step, some bad state (and every listed one) at the last step.
fn replay_witness(ctx: &Context, sys: &TransitionSystem, wit: &Witness) -> String {
    if sys.states.iter().any(|s| s.next.is_none()) {
        // a witness carries no values for a state without next function after step 0
        return "na-free-state".into();
    }
    if wit.inputs.is_empty() {
        return "no-steps".into();
    }
    if wit.init.len() != sys.states.len() {
        return "init-length".into();
    }
    let mut sim = Interpreter::new(ctx, sys);
    sim.init(InitKind::Zero);
    let mut state_vals = vec![];
    for (st, v) in sys.states.iter().zip(wit.init.iter()) {
        match v {
            InitValue::BitVec(b) => {
                if b.width() != sym_width(ctx, st.symbol) {
                    return "init-width".into();
                }
                sim.set(st.symbol, b);
                state_vals.push(b.clone());
            }
            _ => return "init-missing".into(),
        }
    }
    let last = wit.inputs.len() - 1;
    for (k, step) in wit.inputs.iter().enumerate() {
        if step.len() != sys.inputs.len() {
            return format!("inputs-length@{k}");
        }
        for (inp, v) in sys.inputs.iter().zip(step.iter()) {
            match v {
                Some(Value::BitVec(b)) => {
                    if b.width() != sym_width(ctx, *inp) {
                        return format!("input-width@{k}");
                    }
                    sim.set(*inp, b)
                }
                _ => return format!("input-missing@{k}"),
            }
        }
        if k == 0 {
            for (j, st) in sys.states.iter().enumerate() {
                if let Some(e) = st.init {
                    match sim.get(e) {
                        Value::BitVec(v) if v.is_equal(&state_vals[j]) => {}
                        _ => return format!("init-mismatch:state{j}"),
                    }
                }
            }
        }
        for (j, c) in sys.constraints.iter().enumerate() {
            match sim.get(*c) {
                Value::BitVec(v) if !v.is_zero() => {}
                _ => return format!("constraint{j}-violated@{k}"),
            }
        }
        if k == last {
            let truth: Vec<bool> = sys.bad_states.iter().map(|b| matches!(sim.get(*b), Value::BitVec(v) if !v.is_zero())).collect();
            if !truth.iter().any(|t| *t) {
                return "no-bad-at-last-step".into();
            }
            if wit.failed_safety.is_empty() {
                return "failed-safety-empty".into();
            }
            for f in wit.failed_safety.iter() {
                if !truth.get(*f as usize).copied().unwrap_or(false) {
                    return format!("failed-safety-{f}-not-bad");
                }
            }
        } else {
            sim.step();
        }
    }
    "ok".into()
}

/// statistics of the recorded SMT conversation; a symbol declared/defined twice inside one
/// solver session is the C04 encoding defect (duplicate definition)
fn script_stats(path: &str, bases: &HashSet<String>) -> String {
    let Ok(text) = std::fs::read_to_string(path) else {
        return "none".into();
    };
    let mut queries = 0u64;
    let mut sessions = 1u64;
    let mut names: HashSet<String> = HashSet::new();
    let mut dup: Option<String> = None;
    // a stepped symbol (name@k) that a command mentions before the session declared/defined it: the
    // C04 encoding finding "use-before-declare" (the solver then answers (error "unknown constant ..."))
    let mut use_before: Option<String> = None;
    let mut h: u64 = 0xcbf29ce484222325;
    for line in text.lines() {
        for b in line.bytes() {
            h ^= b as u64;
            h = h.wrapping_mul(0x100000001b3);
        }
        if line.starts_with("(check-sat") {
            queries += 1;
        } else if line.starts_with("(exit)") {
            sessions += 1;
            names.clear();
        } else if line.starts_with("(declare-const ") || line.starts_with("(define-fun ") {
            let rest = line.splitn(2, ' ').nth(1).unwrap_or("");
            let name = if rest.starts_with('|') {
                rest[1..].split('|').next().unwrap_or("").to_string()
            } else {
                rest.split(' ').next().unwrap_or("").to_string()
            };
            if line.starts_with("(define-fun ") && use_before.is_none() {
                use_before = first_undeclared(rest.splitn(2, ' ').nth(1).unwrap_or(""), &names, bases);
            }
            if !names.insert(name.clone()) && dup.is_none() {
                dup = Some(name);
            }
        } else if (line.starts_with("(assert ") || line.starts_with("(check-sat-assuming ")) && use_before.is_none() {
            use_before = first_undeclared(line, &names, bases);
        }
    }
    format!(
        "(queries {queries}) (sessions {sessions}) (dupdef {}) (usebefore {}) (hash {:016x})",
        match dup {
            Some(n) => quote(&n),
            None => "none".to_string(),
        },
        match use_before {
            Some(n) => quote(&n),
            None => "none".to_string(),
        },
        h
    )
}

/// the first token of the form name@step in `text` that is not in `declared`
fn first_undeclared(text: &str, declared: &HashSet<String>, bases: &HashSet<String>) -> Option<String> {
    for tok in text.split(|c: char| c.is_whitespace() || c == '(' || c == ')') {
        let t = tok.trim_matches('|');
        // a constant state keeps its unstepped name in the encoding
        if bases.contains(t) && !declared.contains(t) {
            return Some(t.to_string());
        }
        if let Some((base, step)) = t.rsplit_once('@') {
            if !base.is_empty() && !step.is_empty() && step.chars().all(|c| c.is_ascii_digit()) && !declared.contains(t) {
                return Some(t.to_string());
            }
        }
    }
    None
}
