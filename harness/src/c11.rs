//! C11: system-level transformations (simplify_expressions, replace_anonymous_inputs_with_zero).
//! (case ID (op simplify|zero) (sys S) (impl S' | (panic)) (panicloc ".."))
use crate::dump::*;
use crate::rng::Rng;
use crate::sexp::read_cases;
use crate::sysgen::*;
use crate::util::*;
use patronus::expr::*;
use patronus::system::transform::{replace_anonymous_inputs_with_zero, simplify_expressions};
use patronus::system::*;
use std::io::Write;

pub fn run(args: &Args) {
    let mut rng = Rng::new(args.seed);
    let mut out = std::io::BufWriter::new(std::fs::File::create(&args.out).expect("out file"));
    let mut stats = Stats::default();
    let mut distinct = std::collections::HashSet::new();
    if let Some(path) = args.get("cases-in") {
        for c in read_cases(path).iter() {
            let mut ctx = Context::default();
            let sys = build_sys(&mut ctx, &c.field("sys").map(|f| crate::sexp::Sexp::List(std::iter::once(crate::sexp::Sexp::Atom("sys".into())).chain(f.iter().cloned()).collect())).unwrap());
            let op = c.field("op").unwrap()[0].atom().to_string();
            let line = run_case(c.list()[1].atom(), &op, ctx, sys, &mut stats);
            writeln!(out, "{line}").unwrap();
        }
    }
    for id in 0..args.count {
        let mut r = rng.fork();
        let mut ctx = Context::default();
        let mut cfg = SysCfg::default();
        cfg.anon_inputs = true;
        cfg.max_inputs = 4;
        cfg.max_outputs = 3;
        cfg.max_depth = 2 + r.below(3) as u32;
        cfg.widths = if r.chance(1, 2) { vec![1, 2, 3, 4, 8] } else { vec![1, 8, 31, 32, 33, 64, 65] };
        cfg.div_rem = r.chance(1, 6);
        let mut sys = gen_sys(&mut ctx, &mut r, &cfg);
        // sometimes an input is also used as an output expression / a state is also an output
        if !sys.inputs.is_empty() && r.chance(1, 4) {
            let i = *r.pick(&sys.inputs);
            sys.add_output(&mut ctx, "in_as_out".into(), i);
        }
        let op = if r.chance(1, 2) { "simplify" } else { "zero" };
        stats.bump("op", op);
        let key = format!("{op} {}", dump_sys(&ctx, &sys));
        distinct.insert(key);
        let line = run_case(&format!("{id}"), op, ctx, sys, &mut stats);
        stats.sample(&line, 2);
        writeln!(out, "{line}").unwrap();
    }
    stats.add("distinct_cases", distinct.len() as u64);
    stats.write(&args.out);
}

fn run_case(id: &str, op: &str, mut ctx: Context, mut sys: TransitionSystem, stats: &mut Stats) -> String {
    let before = dump_sys(&ctx, &sys);
    let res = guarded(|| {
        if op == "simplify" {
            simplify_expressions(&mut ctx, &mut sys);
        } else {
            replace_anonymous_inputs_with_zero(&mut ctx, &mut sys);
        }
    });
    let (impl_txt, loc) = match res {
        Ok(()) => (dump_sys(&ctx, &sys), String::new()),
        Err(_) => {
            stats.inc("impl_panics");
            ("(panic)".to_string(), last_panic_loc())
        }
    };
    stats.bump("changed", if impl_txt == before { "no" } else { "yes" });
    format!("(case {id} (op {op}) {before} (impl {impl_txt}) (panicloc {}))", quote(&loc))
}
