//! C08: the btor2 reader gives every construct its btor2 meaning (harness module: to be completed).
//! Hosts the shared btor2 generator module used by C08, C09 and C18.
#[path = "btorgen.rs"]
pub mod btorgen;
use crate::util::Args;

pub fn run(_args: &Args) {
    eprintln!("C08: harness module not implemented yet");
    std::process::exit(2);
}
