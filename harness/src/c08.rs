//! C08: the btor2 reader gives every construct its btor2 meaning.
//! One case per line:
//!   (case ID (profile P) (origin "..") (muts "..") (vseed N) (text "...") (impl R))
//!   R as for C18: (ok (nodes ..) (sys ..)) | (err) | (panic "file:line" "msg")
//! The driver runs the reference interpreter Spec/Btor2Sem.v on the text and the extracted evaluator on
//! the implementation's system, under valuations derived deterministically from `vseed`.
//! Hosts the shared btor2 generator module used by C08, C09 and C18.
#[path = "btorgen.rs"]
pub mod btorgen;
use crate::dump::quote;
use crate::rng::Rng;
use crate::sexp::read_cases;
use crate::util::*;
use btorgen::*;
use std::io::Write;

pub fn run(args: &Args) {
    silence_stderr();
    let mut rng = Rng::new(args.seed);
    let mut out = std::io::BufWriter::new(std::fs::File::create(&args.out).expect("out file"));
    let mut stats = Stats::default();
    let mut distinct = std::collections::HashSet::new();
    let prof = profile_name();
    if let Some(path) = args.get("cases-in") {
        for c in read_cases(path).iter() {
            let id = c.list()[1].atom().to_string();
            let text = c.field("text").expect("text")[0].atom().to_string();
            let origin = c.field("origin").map(|f| f[0].atom().to_string()).unwrap_or_default();
            let muts = c.field("muts").map(|f| f[0].atom().to_string()).unwrap_or_default();
            let vseed = c.field("vseed").map(|f| f[0].num()).unwrap_or(1);
            let r = crate::c18::impl_field(&text, &mut stats);
            distinct.insert(text.clone());
            let line = format!("(case {id} (profile {prof}) (origin {}) (muts {}) (vseed {vseed}) (text {}) (impl {r}))", quote(&origin), quote(&muts), quote(&text));
            stats.sample(&line, 2);
            writeln!(out, "{line}").unwrap();
        }
    }
    let files = shipped_files();
    let small: Vec<&(String, String)> = files.iter().filter(|(_, t)| t.lines().count() <= 300).collect();
    if args.get("files") == Some("all") {
        for (k, (name, text)) in files.iter().enumerate() {
            let r = crate::c18::impl_field(text, &mut stats);
            distinct.insert(text.clone());
            stats.bump("origin", "file-unmutated");
            let line = format!("(case f{k} (profile {prof}) (origin {}) (muts \"\") (vseed {}) (text {}) (impl {r}))", quote(name), rng.next_u64() % 1000000, quote(text));
            writeln!(out, "{line}").unwrap();
        }
    }
    for id in 0..args.count {
        let mut r = rng.fork();
        let kind = r.below(100);
        let (mut lines, origin, n_mut): (Vec<String>, String, u64) = if kind < 86 {
            let mut cfg = BtorGenCfg::default();
            if r.chance(1, 3) {
                cfg.widths = vec![1, 1, 2, 3, 4];
            }
            cfg.n_ops = (3, 40);
            let mut g = BtorGen::new(&mut r, cfg);
            g.gen_file();
            for o in g.ops_used.iter() {
                stats.bump("gen_ops", o);
            }
            let l = g.lines.clone();
            // 2/3 well-formed as generated, 1/3 with one (mostly sort-breaking) mutation
            let n = if r.chance(2, 3) { 0 } else { 1 };
            (l, "generated".to_string(), n)
        } else if kind < 92 && !small.is_empty() {
            let (name, text) = *r.pick(&small);
            (text.lines().map(|l| l.to_string()).collect(), format!("file:{name}"), r.below(2))
        } else {
            // half of the edge cases: texts that exercise the post-processing of parse.rs (demotion, renaming, name clean-up)
            let (l, name) = if r.chance(1, 2) { postproc_template(&mut r) } else { edge_template(&mut r) };
            stats.bump("edge_template", name);
            (l, format!("edge:{name}"), if name == "postproc" && r.chance(1, 5) { 1 } else { 0 })
        };
        let mut muts: Vec<&'static str> = vec![];
        for _ in 0..n_mut {
            // prefer the mutations that change sorts / operands / operators
            let mut m = "noop";
            for _ in 0..6 {
                let mut copy = lines.clone();
                m = mutate_once(&mut r, &mut copy);
                if matches!(m, "sort_id" | "array_sort" | "init_next_value" | "operand_id" | "negation" | "width" | "op_swap" | "const_value" | "swap_lines" | "dup_line" | "del_line") {
                    lines = copy;
                    break;
                }
                m = "noop";
            }
            muts.push(m);
            stats.bump("mutation", m);
        }
        clamp_huge_sorts(&mut lines);
        let okind = origin.split(':').next().unwrap().to_string();
        stats.bump("origin", &format!("{okind}{}", if muts.is_empty() { "" } else { "+mut" }));
        let mut text = lines.join("\n");
        text.push('\n');
        let res = crate::c18::impl_field(&text, &mut stats);
        distinct.insert(text.clone());
        let vseed = r.next_u64() % 1000000;
        let line = format!("(case {id} (profile {prof}) (origin {}) (muts {}) (vseed {vseed}) (text {}) (impl {res}))", quote(&origin), quote(&muts.join(",")), quote(&text));
        stats.sample(&line, 2);
        writeln!(out, "{line}").unwrap();
    }
    stats.add("distinct_cases", distinct.len() as u64);
    stats.write(&args.out);
}
