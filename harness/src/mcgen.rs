//! Transition systems for the model-checking properties (C04, C02, C03): small enough for an
//! explicit-state oracle, with the structural features the encoding distinguishes: signals
//! shared between init / next / bad / constraint expressions in every combination, constant states,
//! states without init / without next, init expressions that read other states, bad states and
//! constraints that are a bare input, a bare state or a literal, repeated roots, named signals,
//! array states, counters that make deep counterexamples.
use crate::dump::*;
use crate::exprgen::*;
use crate::rng::Rng;
use crate::sexp::{Sexp, build_expr};
use crate::sysgen::{build_sys, dump_sys};
use crate::util::Stats;
use patronus::expr::*;
use patronus::system::*;

#[derive(Clone)]
pub struct McCfg {
    /// bound on the sum of the widths of all states (arrays count 2^iw * dw)
    pub max_state_bits: u32,
    /// bound on the sum of the widths of all inputs
    pub max_input_bits: u32,
    pub arrays: bool,
    pub div_rem: bool,
    /// allow init expressions that read a LATER state
    pub init_reads_later: bool,
}

impl Default for McCfg {
    fn default() -> Self {
        McCfg { max_state_bits: 9, max_input_bits: 5, arrays: true, div_rem: false, init_reads_later: true }
    }
}

fn type_bits(t: Type) -> u32 {
    match t {
        Type::BV(w) => w,
        Type::Array(a) => (1u32 << a.index_width) * a.data_width,
    }
}

pub struct GenOut {
    /// depth below which no gated bad state can hold (a good bound is near it)
    pub depth_hint: Option<u64>,
    pub sys: TransitionSystem,
    /// which directed patterns were planted
    pub features: Vec<&'static str>,
}

fn gen_expr(ctx: &mut Context, rng: &mut Rng, gcfg: &GenCfg, pool: &[ExprRef], tpe: Type, depth: u32, stats: &mut Stats) -> ExprRef {
    let mut g = ExprGen::new(ctx, rng, gcfg.clone());
    g.pool = Some(pool.to_vec());
    let e = match tpe {
        Type::BV(w) => g.gen_bv(w, depth),
        Type::Array(a) => g.gen_array(a.index_width, a.data_width, depth),
    };
    for (k, v) in g.ops.iter() {
        stats.bump_n("ops", k, *v);
    }
    e
}

/// combine `e` with `sh` (same width) by a random binary operator
fn mix(ctx: &mut Context, rng: &mut Rng, e: ExprRef, sh: ExprRef) -> ExprRef {
    match rng.below(4) {
        0 => ctx.xor(e, sh),
        1 => ctx.add(e, sh),
        2 => ctx.and(e, sh),
        _ => ctx.or(e, sh),
    }
}

pub fn gen_mc_sys(ctx: &mut Context, rng: &mut Rng, cfg: &McCfg, stats: &mut Stats) -> GenOut {
    let mut sys = TransitionSystem::new("mc".to_string());
    let mut features: Vec<&'static str> = vec![];
    let widths: Vec<WidthInt> = vec![1, 1, 2, 2, 3, 3, 4];
    // ---- symbols
    let mut state_syms: Vec<ExprRef> = vec![];
    let mut bits = 0u32;
    // a chain of init dependencies (c0 init reads c1, c1 init reads c2, ..): extra states, added below
    let chain_deps: Option<u64> = if cfg.init_reads_later && rng.chance(1, 6) { Some(rng.range(2, 4)) } else { None };
    let n_states = if chain_deps.is_some() { 1 } else { rng.range(1, 3) };
    let mut last_w: Option<WidthInt> = None;
    for k in 0..n_states {
        // often the same width as the previous state: delay registers / comparisons between states
        let w = match last_w { Some(lw) if rng.chance(1, 3) => lw, _ => *rng.pick(&widths) };
        let w = if chain_deps.is_some() { w.min(3) } else { w };
        last_w = Some(w);
        if bits + w > cfg.max_state_bits && k > 0 {
            break;
        }
        bits += w;
        state_syms.push(ctx.bv_symbol(&format!("s{k}"), w));
    }
    if cfg.arrays && chain_deps.is_none() && rng.chance(1, 5) {
        let iw = rng.range(1, 2) as WidthInt;
        let dw = rng.range(1, 2) as WidthInt;
        let b = (1u32 << iw) * dw;
        if bits + b <= cfg.max_state_bits + 2 {
            bits += b;
            let pos = rng.below(state_syms.len() as u64 + 1) as usize;
            state_syms.insert(pos, ctx.array_symbol("mem", iw, dw));
            features.push("array-state");
        }
    }
    let mut input_syms: Vec<ExprRef> = vec![];
    let mut ibits = 0u32;
    for k in 0..rng.range(0, 2) {
        let w = *rng.pick(&widths);
        if ibits + w > (if chain_deps.is_some() { cfg.max_input_bits.min(3) } else { cfg.max_input_bits }) {
            break;
        }
        ibits += w;
        input_syms.push(ctx.bv_symbol(&format!("i{k}"), w));
    }
    for i in input_syms.iter() {
        sys.add_input(ctx, *i);
    }
    let gcfg = GenCfg {
        max_depth: 3,
        arrays: cfg.arrays,
        div_rem: cfg.div_rem,
        array_eq: false,
        widths: vec![1, 2, 3, 4],
        max_index_width: 2,
        syms_per_type: 1,
        mul_max_width: 128,
    };
    let all_syms: Vec<ExprRef> = state_syms.iter().chain(input_syms.iter()).copied().collect();
    let bv_states: Vec<ExprRef> = state_syms.iter().copied().filter(|s| s.get_bv_type(ctx).is_some()).collect();

    // ---- shared sub-terms: a few terms, each deliberately used by a chosen subset of {init, next, other}
    // usage mask bit 0 = init, bit 1 = next, bit 2 = other
    struct Shared {
        e: ExprRef,
        w: WidthInt,
        mask: u64,
        /// reads only inputs and states declared before this index (usable in inits of states >= idx)
        init_pool_upto: usize,
    }
    let mut shared: Vec<Shared> = vec![];
    for _ in 0..rng.range(1, 3) {
        let w = *rng.pick(&widths);
        let mask = rng.range(1, 7);
        // terms meant for init expressions read inputs and a prefix of the states
        let upto = if mask & 1 != 0 { rng.below(state_syms.len() as u64 + 1) as usize } else { state_syms.len() };
        let pool: Vec<ExprRef> = state_syms[..upto].iter().chain(input_syms.iter()).copied().collect();
        let e = gen_expr(ctx, rng, &gcfg, &pool, Type::BV(w), 2, stats);
        if ctx[e].is_symbol() || matches!(ctx[e], Expr::BVLiteral(_)) {
            continue;
        }
        stats.bump("shared_mask", &format!("{}{}{}", if mask & 1 != 0 { "I" } else { "-" }, if mask & 2 != 0 { "N" } else { "-" }, if mask & 4 != 0 { "O" } else { "-" }));
        shared.push(Shared { e, w, mask, init_pool_upto: upto });
    }
    // a shared term over a shared term (nesting), used by init only, over a term used by init and next
    if rng.chance(1, 4) {
        if let Some(base) = shared.iter().find(|s| s.mask & 3 == 3).map(|s| (s.e, s.w, s.init_pool_upto)) {
            let e = ctx.mul(base.0, base.0);
            shared.push(Shared { e, w: base.1, mask: 1, init_pool_upto: base.2 });
            features.push("nested-shared-init-only");
        }
    }
    let use_shared = |ctx: &mut Context, rng: &mut Rng, e: ExprRef, bit: u64, state_idx: usize, shared: &Vec<Shared>| -> ExprRef {
        let Some(w) = e.get_bv_type(ctx) else { return e };
        let mut e = e;
        for s in shared.iter() {
            if s.mask & bit != 0 && s.w == w && (bit != 1 || s.init_pool_upto <= state_idx) && rng.chance(2, 3) {
                e = mix(ctx, rng, e, s.e);
            }
        }
        e
    };

    // ---- states
    let later_state_read = cfg.init_reads_later && state_syms.len() > 1 && rng.chance(1, 25);
    let mut counter: Option<(ExprRef, WidthInt)> = None;
    // (delayed state, source expression)
    let mut delay: Option<(ExprRef, ExprRef)> = None;
    for (k, s) in state_syms.iter().enumerate() {
        let tpe = s.get_type(ctx);
        // counter pattern: deep counterexamples
        if counter.is_none() && rng.chance(1, 2) {
            if let Type::BV(w) = tpe {
                if w >= 2 {
                    let zero = ctx.bv_lit(&baa::BitVecValue::zero(w));
                    let one = ctx.bv_lit(&baa::BitVecValue::from_u64(1, w));
                    let step = if !input_syms.is_empty() && rng.chance(1, 2) {
                        let i = *rng.pick(&input_syms);
                        let iw = i.get_bv_type(ctx).unwrap();
                        let bit = if iw == 1 { i } else { ctx.slice(i, 0, 0) };
                        if w > 1 { ctx.zero_extend(bit, w - 1) } else { bit }
                    } else {
                        one
                    };
                    let next = ctx.add(*s, step);
                    sys.add_state(ctx, State { symbol: *s, init: Some(zero), next: Some(next) });
                    counter = Some((*s, w));
                    features.push("counter");
                    continue;
                }
            }
        }
        // delay pattern: a 1-bit state latching a comparison of the counter (one more step of depth)
        if let (Some((c, w)), Type::BV(1)) = (counter, tpe) {
            if rng.chance(1, 3) {
                let v = rng.range(1, (1u64 << w) - 1);
                let lit = ctx.bv_lit(&baa::BitVecValue::from_u64(v, w));
                let cmp = if rng.chance(1, 2) { ctx.equal(c, lit) } else { ctx.greater(c, lit) };
                let init = if rng.chance(1, 2) { Some(ctx.get_false()) } else { None };
                sys.add_state(ctx, State { symbol: *s, init, next: Some(cmp) });
                features.push("delay-latch");
                continue;
            }
        }
        // delay register: init and next are the SAME non-constant expression - an earlier state of the
        // same type (prev follows cnt with one step delay and starts equal to it), or an expression
        // over the inputs.  The state is NOT constant although next == init.
        let earlier: Vec<ExprRef> = state_syms[..k].iter().copied().filter(|x| x.get_type(ctx) == tpe).collect();
        if delay.is_none() && rng.chance(if earlier.is_empty() { 1 } else { 3 }, 8) {
            let src = if !earlier.is_empty() {
                // prefer the counter: its value changes at every step
                match counter { Some((c, _)) if earlier.contains(&c) => Some(c), _ => Some(*rng.pick(&earlier)) }
            } else if !input_syms.is_empty() {
                let e = gen_expr(ctx, rng, &gcfg, &input_syms, tpe, 2, stats);
                if ctx[e].is_symbol() || matches!(ctx[e], Expr::BVLiteral(_)) || matches!(tpe, Type::Array(_)) { None } else { Some(e) }
            } else {
                None
            };
            if let Some(e) = src {
                sys.add_state(ctx, State { symbol: *s, init: Some(e), next: Some(e) });
                delay = Some((*s, e));
                features.push(if ctx[e].is_symbol() { "delay-register-of-state(init==next)" } else { "init==next-input-expression" });
                continue;
            }
        }
        let init = match rng.below(6) {
            0 => None,
            1 | 2 => Some(gen_expr(ctx, rng, &gcfg, &[], tpe, 1, stats)), // literal / constant array
            _ => {
                let mut pool: Vec<ExprRef> = state_syms[..k].iter().chain(input_syms.iter()).copied().collect();
                if later_state_read && k + 1 < state_syms.len() {
                    pool.push(state_syms[k + 1]);
                    features.push("init-reads-later-state");
                }
                let d = rng.below(3) as u32;
                let e = gen_expr(ctx, rng, &gcfg, &pool, tpe, d, stats);
                Some(use_shared(ctx, rng, e, 1, k, &shared))
            }
        };
        let next = match rng.below(9) {
            0 => None,
            1 => Some(*s), // constant state
            _ => {
                let d = 1 + rng.below(3) as u32;
                let e = gen_expr(ctx, rng, &gcfg, &all_syms, tpe, d, stats);
                Some(use_shared(ctx, rng, e, 2, k, &shared))
            }
        };
        // occasionally two states share the very same next (or init) expression: repeated roots
        sys.add_state(ctx, State { symbol: *s, init, next });
    }
    if sys.states.len() >= 2 && rng.chance(1, 12) {
        let a = sys.states[0];
        let b = sys.states[1];
        if a.symbol.get_type(ctx) == b.symbol.get_type(ctx) {
            if let Some(n) = a.next {
                if n != a.symbol {
                    sys.states[1].next = Some(n);
                    features.push("repeated-next-root");
                }
            }
        }
    }
    // ---- a chain of init dependencies, declared against / across / along the dependency order:
    // c0 init f(c1), c1 init f(c2), .., the last one free, constant or an input expression.  The init
    // expressions are bare states, small terms, a term that uses a sub-term over the read state twice
    // (an init-only signal that reads a state) or a sub-term over the LAST chain state shared by
    // several init expressions.
    let mut chain_syms: Vec<ExprRef> = vec![];
    if let Some(deps) = chain_deps {
        let deps = deps as usize;
        let cw: WidthInt = if deps == 2 && rng.chance(1, 2) { 2 } else { 1 };
        chain_syms = (0..=deps).map(|i| ctx.bv_symbol(&format!("c{i}"), cw)).collect();
        let one = ctx.bv_lit(&baa::BitVecValue::from_u64(1, cw));
        let in_term: Option<ExprRef> = input_syms.first().map(|i| {
            let iw = i.get_bv_type(ctx).unwrap();
            if iw == cw { *i } else if iw > cw { ctx.slice(*i, cw - 1, 0) } else { ctx.zero_extend(*i, cw - iw) }
        });
        let last = chain_syms[deps];
        let over_last = match in_term { Some(t) if rng.chance(1, 2) => ctx.xor(last, t), _ => ctx.add(last, one) };
        let mut chain: Vec<State> = vec![];
        for i in 0..=deps {
            let me = chain_syms[i];
            let init = if i == deps {
                match rng.below(3) {
                    0 => None,
                    1 => Some(ctx.bv_lit(&lit_value(rng, cw))),
                    _ => in_term,
                }
            } else {
                let nxt = chain_syms[i + 1];
                Some(match rng.below(6) {
                    0 => nxt,
                    1 => ctx.not(nxt),
                    2 => ctx.add(nxt, one),
                    3 => {
                        let t = ctx.add(nxt, one);
                        features.push("init-chain:init-signal-reads-state");
                        // (no multiplication: z3 takes seconds on 1-bit bvmul in logic ALL)
                        let u = ctx.sub(t, one);
                        ctx.or(t, u)
                    }
                    4 => match in_term { Some(t) => ctx.xor(nxt, t), None => ctx.sub(nxt, one) },
                    _ => {
                        features.push("init-chain:shared-term-over-last");
                        ctx.xor(nxt, over_last)
                    }
                })
            };
            let next = match rng.below(4) {
                0 | 1 => Some(me),
                2 => None,
                _ => Some(ctx.add(me, one)),
            };
            chain.push(State { symbol: me, init, next });
        }
        // declaration order of the chain
        let mut order: Vec<usize> = (0..=deps).collect();
        match rng.below(5) {
            0 | 1 => features.push("init-chain-against-declaration-order"),
            2 | 3 => {
                for i in (1..order.len()).rev() {
                    let j = rng.below(i as u64 + 1) as usize;
                    order.swap(i, j);
                }
                features.push("init-chain-shuffled");
            }
            _ => {
                order.reverse();
                features.push("init-chain-along-declaration-order");
            }
        }
        let mut all: Vec<State> = order.iter().map(|i| chain[*i].clone()).collect();
        for st in std::mem::take(&mut sys.states) {
            let pos = rng.below(all.len() as u64 + 1) as usize;
            all.insert(pos, st);
        }
        for st in all {
            sys.add_state(ctx, st);
        }
        // the head of the chain is observed
        let lit = ctx.bv_lit(&lit_value(rng, cw));
        let b = ctx.equal(chain_syms[0], lit);
        sys.bad_states.push(b);
        stats.bump("init_chain_deps", &format!("{deps}"));
    }
    let all_syms: Vec<ExprRef> = all_syms.iter().chain(chain_syms.iter()).copied().collect();
    let bv_states: Vec<ExprRef> = bv_states.iter().chain(chain_syms.iter()).copied().collect();
    for st in sys.states.iter() {
        stats.bump(
            "state_kind",
            &format!("{}{}", match st.init { Some(_) => "init", None => "noinit" }, match st.next { None => "-nonext", Some(n) if n == st.symbol => "-const", _ => "-next" }),
        );
    }

    // ---- bad states
    // a bad state that tells a delay register from a frozen one: the source minus the delayed copy is
    // 0 or 1 for a counter (other sources: any comparison of the two)
    let mut delay_depth: Option<u64> = None;
    if let Some((p, src)) = delay {
        if let Some(w) = p.get_bv_type(ctx) {
            let e = if w >= 2 && rng.chance(5, 6) {
                // a frozen copy makes this reachable, a real delay register (of a counter) does not
                let diff = ctx.sub(src, p);
                let lv = rng.range(2, ((1u64 << w) - 1).min(3));
                delay_depth = Some(lv);
                let lit = ctx.bv_lit(&baa::BitVecValue::from_u64(lv, w));
                if rng.chance(1, 2) { ctx.equal(diff, lit) } else { ctx.greater_or_equal(diff, lit) }
            } else {
                // a real delay register can catch up with a source that stands still, a frozen copy cannot
                let eq = ctx.equal(src, p);
                let zero = ctx.bv_lit(&baa::BitVecValue::zero(w));
                let moved = ctx.greater(src, zero);
                if w >= 2 { ctx.and(eq, moved) } else { ctx.not(eq) }
            };
            sys.bad_states.push(e);
            features.push("bad-compares-delay-with-source");
        }
    }
    // the other bad states are often gated by a counter threshold; behind the directed delay bad when there is one
    let gate_depth: Option<u64> = match (counter, delay_depth) {
        (Some(_), Some(lv)) => Some(lv + rng.range(1, 2)),
        (Some(_), None) if rng.chance(1, 2) => Some(rng.range(1, 6)),
        _ => None,
    };
    if gate_depth.is_some() {
        features.push("bads-gated-by-counter");
    }
    // operand order: cmp(c, B) with B = op(c, state), c and B both used twice (so both are serialized
    // separately) and c the FIRST operand: the signal order must still put c before B
    if !bv_states.is_empty() && rng.chance(1, 5) {
        let st = *rng.pick(&bv_states);
        let w = st.get_bv_type(ctx).unwrap();
        let c = gen_expr(ctx, rng, &gcfg, &all_syms, Type::BV(w), 2, stats);
        if !ctx[c].is_symbol() && !matches!(ctx[c], Expr::BVLiteral(_)) {
            let bb = match rng.below(3) { 0 => ctx.xor(c, st), 1 => ctx.add(c, st), _ => ctx.sub(c, st) };
            let first = match rng.below(3) { 0 => ctx.greater(c, bb), 1 => ctx.equal(c, bb), _ => ctx.greater_or_equal(c, bb) };
            sys.bad_states.push(first);
            let lit = ctx.bv_lit(&lit_value(rng, w));
            let second = ctx.equal(bb, lit);
            if rng.chance(1, 2) { sys.bad_states.push(second) } else { sys.constraints.push(ctx.not(second)) }
            features.push("shared-operand-before-dependent-shared-operand");
        }
    }
    let n_bads = rng.range(1, 3);
    for b in 0..n_bads {
        let e = match rng.below(14) {
            0 if !input_syms.is_empty() => {
                // a bare 1-bit input (or a bit of it)
                let i = *rng.pick(&input_syms);
                features.push("bad-is-input-or-slice");
                if i.get_bv_type(ctx) == Some(1) { i } else { ctx.slice(i, 0, 0) }
            }
            1 => {
                let ones: Vec<ExprRef> = bv_states.iter().copied().filter(|s| s.get_bv_type(ctx) == Some(1)).collect();
                if ones.is_empty() {
                    gen_expr(ctx, rng, &gcfg, &all_syms, Type::BV(1), 2, stats)
                } else {
                    features.push("bad-is-state");
                    *rng.pick(&ones)
                }
            }
            2 => {
                features.push("bad-is-literal");
                if rng.chance(1, 2) { ctx.get_true() } else { ctx.get_false() }
            }
            3..=8 if counter.is_some() => {
                let (c, w) = counter.unwrap();
                let v = rng.range(1, (1u64 << w) - 1);
                let lit = ctx.bv_lit(&baa::BitVecValue::from_u64(v, w));
                let eq = ctx.equal(c, lit);
                if rng.chance(1, 2) {
                    eq
                } else {
                    let other = gen_expr(ctx, rng, &gcfg, &all_syms, Type::BV(1), 2, stats);
                    ctx.and(eq, other)
                }
            }
            _ => {
                let d = rng.range(1, 3) as u32;
                let e = gen_expr(ctx, rng, &gcfg, &all_syms, Type::BV(1), d, stats);
                // bad states over shared terms: (shared == literal) & e
                let cands: Vec<(ExprRef, WidthInt)> = shared.iter().filter(|s| s.mask & 4 != 0).map(|s| (s.e, s.w)).collect();
                if !cands.is_empty() && rng.chance(2, 3) {
                    let (se, w) = *rng.pick(&cands);
                    let lit = ctx.bv_lit(&lit_value(rng, w));
                    let cmp = if rng.chance(1, 2) { ctx.equal(se, lit) } else { ctx.greater(se, lit) };
                    if rng.chance(1, 2) { ctx.and(cmp, e) } else { ctx.or(cmp, e) }
                } else {
                    e
                }
            }
        };
        // gate the bad state by a counter threshold: deeper counterexamples
        let e = match (counter, gate_depth) {
            (Some((c, w)), Some(v)) if e.get_bv_type(ctx) == Some(1) => {
                let lit = ctx.bv_lit(&baa::BitVecValue::from_u64(v.min((1u64 << w) - 1), w));
                let ge = ctx.greater_or_equal(c, lit);
                ctx.and(ge, e)
            }
            _ => e,
        };
        sys.bad_states.push(e);
        if rng.chance(1, 4) && !ctx[e].is_symbol() && !matches!(ctx[e], Expr::BVLiteral(_)) && sys.names[e].is_none() {
            let n = ctx.string(format!("bad_{b}").into());
            sys.names[e] = Some(n);
            features.push("named-bad");
        }
    }
    // ---- constraints
    for c in 0..rng.below(3) {
        let e = match rng.below(10) {
            0 if !input_syms.is_empty() => {
                let i = *rng.pick(&input_syms);
                features.push("constraint-is-input-or-slice");
                if i.get_bv_type(ctx) == Some(1) { i } else { ctx.slice(i, 0, 0) }
            }
            1 => {
                features.push("constraint-is-literal");
                if rng.chance(3, 4) { ctx.get_true() } else { ctx.get_false() }
            }
            2 => {
                // the same expression as a bad state (repeated root among the "other" expressions)
                features.push("constraint-equals-bad");
                sys.bad_states[0]
            }
            _ => {
                let e = gen_expr(ctx, rng, &gcfg, &all_syms, Type::BV(1), 2, stats);
                let cands: Vec<(ExprRef, WidthInt)> = shared.iter().filter(|s| s.mask & 4 != 0).map(|s| (s.e, s.w)).collect();
                // constraints should rarely be unsatisfiable: weaken with an "or"
                if !cands.is_empty() && rng.chance(1, 2) {
                    let (se, w) = *rng.pick(&cands);
                    let lit = ctx.bv_lit(&lit_value(rng, w));
                    let cmp = ctx.greater_or_equal(se, lit);
                    ctx.or(cmp, e)
                } else {
                    e
                }
            }
        };
        sys.constraints.push(e);
        if rng.chance(1, 5) && !ctx[e].is_symbol() && !matches!(ctx[e], Expr::BVLiteral(_)) && sys.names[e].is_none() {
            let n = ctx.string(format!("assume_{c}").into());
            sys.names[e] = Some(n);
        }
    }
    features.sort();
    features.dedup();
    GenOut { sys, features, depth_hint: delay_depth.or(gate_depth) }
}

// ---------------------------------------------------------------- directed systems
/// The system of the confirmed defect: a signal shared by an init and a next expression only.
pub fn sys_shared_init_next(ctx: &mut Context) -> TransitionSystem {
    let mut sys = TransitionSystem::new("shared-init-next".to_string());
    let i = ctx.bv_symbol("i", 4);
    let s = ctx.bv_symbol("s", 4);
    let t = ctx.bv_symbol("t", 4);
    sys.add_input(ctx, i);
    let one = ctx.bv_lit(&baa::BitVecValue::from_u64(1, 4));
    let zero = ctx.bv_lit(&baa::BitVecValue::from_u64(0, 4));
    let nine = ctx.bv_lit(&baa::BitVecValue::from_u64(9, 4));
    let i1 = ctx.add(i, one);
    let sq = ctx.mul(i1, i1);
    sys.add_state(ctx, State { symbol: s, init: Some(i1), next: Some(s) });
    sys.add_state(ctx, State { symbol: t, init: Some(zero), next: Some(sq) });
    let bad = ctx.equal(t, nine);
    sys.bad_states.push(bad);
    sys
}

/// A signal used twice by an init expression that reads a state without init: the signal is
/// defined before the state's step-0 symbol is declared.
pub fn sys_init_signal_reads_state(ctx: &mut Context) -> TransitionSystem {
    let mut sys = TransitionSystem::new("init-signal-reads-state".to_string());
    let s = ctx.bv_symbol("s", 3);
    let t = ctx.bv_symbol("t", 3);
    let one = ctx.bv_lit(&baa::BitVecValue::from_u64(1, 3));
    let four = ctx.bv_lit(&baa::BitVecValue::from_u64(4, 3));
    let s1 = ctx.add(s, one);
    let sq = ctx.mul(s1, s1);
    let sm = ctx.sub(s, one);
    sys.add_state(ctx, State { symbol: s, init: None, next: Some(sm) });
    sys.add_state(ctx, State { symbol: t, init: Some(sq), next: Some(t) });
    let bad = ctx.equal(t, four);
    sys.bad_states.push(bad);
    sys
}

/// An init expression that reads a LATER state.
pub fn sys_init_reads_later(ctx: &mut Context) -> TransitionSystem {
    let mut sys = TransitionSystem::new("init-reads-later".to_string());
    let s = ctx.bv_symbol("s", 3);
    let t = ctx.bv_symbol("t", 3);
    let one = ctx.bv_lit(&baa::BitVecValue::from_u64(1, 3));
    let three = ctx.bv_lit(&baa::BitVecValue::from_u64(3, 3));
    let t1 = ctx.add(t, one);
    sys.add_state(ctx, State { symbol: s, init: Some(t1), next: Some(s) });
    sys.add_state(ctx, State { symbol: t, init: None, next: Some(t) });
    let bad = ctx.equal(s, three);
    sys.bad_states.push(bad);
    sys
}

/// An init-only shared signal over a signal shared by init and next only (entry at a later step).
pub fn sys_nested_init_only(ctx: &mut Context) -> TransitionSystem {
    let mut sys = TransitionSystem::new("nested-init-only".to_string());
    let i = ctx.bv_symbol("i", 3);
    let s = ctx.bv_symbol("s", 3);
    let t = ctx.bv_symbol("t", 3);
    sys.add_input(ctx, i);
    let one = ctx.bv_lit(&baa::BitVecValue::from_u64(1, 3));
    let five = ctx.bv_lit(&baa::BitVecValue::from_u64(5, 3));
    let n1 = ctx.add(i, one);
    let e = ctx.mul(n1, n1);
    let ee = ctx.add(e, e);
    sys.add_state(ctx, State { symbol: s, init: Some(ee), next: Some(s) });
    sys.add_state(ctx, State { symbol: t, init: None, next: Some(n1) });
    let bad = ctx.equal(t, five);
    sys.bad_states.push(bad);
    sys
}

// ---------------------------------------------------------------- dumps shared by the three properties
/// explicit `sys.names` entries of non-symbol expressions (needed to rebuild the system on replay)
pub fn dump_named(ctx: &Context, sys: &TransitionSystem) -> String {
    let mut s = String::from("(named");
    let mut seen = std::collections::HashSet::new();
    for e in all_nodes(ctx, sys) {
        if !ctx[e].is_symbol() && seen.insert(e) {
            if let Some(n) = sys.names[e] {
                s.push_str(&format!(" ({} {})", dump_expr(ctx, e), quote(&ctx[n])));
            }
        }
    }
    s.push(')');
    s
}

pub fn restore_named(ctx: &mut Context, sys: &mut TransitionSystem, x: &Sexp) {
    for it in x.field("named").unwrap_or(&[]) {
        let l = it.list();
        let e = build_expr(ctx, &l[0]);
        let n = ctx.string(l[1].atom().to_string().into());
        sys.names[e] = Some(n);
    }
}

/// all distinct nodes reachable from the expressions of the system
pub fn all_nodes(ctx: &Context, sys: &TransitionSystem) -> Vec<ExprRef> {
    let mut seen = std::collections::HashSet::new();
    let mut out = vec![];
    for r in sys.get_all_exprs() {
        for n in collect_nodes(ctx, r) {
            if seen.insert(n) {
                out.push(n);
            }
        }
    }
    out
}

/// the name the encoding gives to every node: `sys.names[e]`, else `__n<index in the store>`
pub fn dump_names(ctx: &Context, sys: &TransitionSystem) -> String {
    let mut s = String::from("(names");
    for e in all_nodes(ctx, sys) {
        let name = match sys.names[e] {
            Some(n) => ctx[n].to_string(),
            None => format!("__n{}", usize::from(e)),
        };
        s.push_str(&format!(" ({} {})", dump_expr(ctx, e), quote(&name)));
    }
    s.push(')');
    s
}

pub fn sys_from_case(ctx: &mut Context, c: &Sexp) -> TransitionSystem {
    let sx = c.list().iter().find(|x| matches!(x, Sexp::List(l) if !l.is_empty() && matches!(&l[0], Sexp::Atom(a) if a == "sys"))).expect("sys field");
    let mut sys = build_sys(ctx, sx);
    restore_named(ctx, &mut sys, c);
    sys
}
