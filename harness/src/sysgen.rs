//! Random transition systems (shared by the system-level properties) and their S-expression dump:
//! (sys (inputs E..) (states (state SYM (init E)? (next E)?)..) (outputs ("name" E)..) (bads E..) (constraints E..))
use crate::dump::*;
use crate::exprgen::*;
use crate::rng::Rng;
use crate::sexp::{Sexp, build_expr};
use patronus::expr::*;
use patronus::system::*;

#[derive(Clone)]
pub struct SysCfg {
    pub max_bv_states: u64,
    pub max_inputs: u64,
    pub array_state_chance: (u64, u64),
    pub widths: Vec<WidthInt>,
    pub max_depth: u32,
    pub max_bads: u64,
    pub max_constraints: u64,
    pub max_outputs: u64,
    pub arrays_in_exprs: bool,
    /// allow init expressions to read earlier states
    pub init_reads_earlier: bool,
    pub div_rem: bool,
    /// give some inputs the names the btor2 reader gives to anonymous inputs/states
    pub anon_inputs: bool,
}

impl Default for SysCfg {
    fn default() -> Self {
        SysCfg {
            max_bv_states: 3,
            max_inputs: 2,
            array_state_chance: (1, 4),
            widths: vec![1, 1, 2, 3, 4],
            max_depth: 3,
            max_bads: 2,
            max_constraints: 1,
            max_outputs: 2,
            arrays_in_exprs: true,
            init_reads_earlier: true,
            div_rem: false,
            anon_inputs: false,
        }
    }
}

pub fn gen_sys(ctx: &mut Context, rng: &mut Rng, cfg: &SysCfg) -> TransitionSystem {
    let mut sys = TransitionSystem::new("gen".to_string());
    let n_states = rng.range(1, cfg.max_bv_states);
    let n_inputs = rng.range(0, cfg.max_inputs);
    let mut state_syms: Vec<ExprRef> = vec![];
    for k in 0..n_states {
        let w = *rng.pick(&cfg.widths);
        state_syms.push(ctx.bv_symbol(&format!("s{k}"), w));
    }
    if cfg.arrays_in_exprs && rng.chance(cfg.array_state_chance.0, cfg.array_state_chance.1) {
        let iw = rng.range(1, 2) as WidthInt;
        let dw = *rng.pick(&cfg.widths);
        let pos = rng.below(state_syms.len() as u64 + 1) as usize;
        state_syms.insert(pos, ctx.array_symbol("mem", iw, dw));
    }
    let mut input_syms: Vec<ExprRef> = vec![];
    for k in 0..n_inputs {
        let w = *rng.pick(&cfg.widths);
        let name = if cfg.anon_inputs && rng.chance(1, 2) {
            match rng.below(6) {
                0..=2 => format!("_input_{k}"),
                3 => format!("_state_{k}"),
                // NOT anonymous: the prefix occurs, but not at the start of the name
                4 => format!("data_input_{k}"),
                _ => format!("next_state_{k}"),
            }
        } else {
            format!("i{k}")
        };
        input_syms.push(ctx.bv_symbol(&name, w));
    }
    for i in input_syms.iter() {
        sys.add_input(ctx, *i);
    }
    let gcfg = GenCfg {
        max_depth: cfg.max_depth,
        arrays: cfg.arrays_in_exprs,
        div_rem: cfg.div_rem,
        array_eq: false,
        widths: cfg.widths.clone(),
        max_index_width: 2,
        syms_per_type: 1,
        mul_max_width: 128,
    };
    let all_syms: Vec<ExprRef> = state_syms.iter().chain(input_syms.iter()).copied().collect();
    let mut gen_expr = |ctx: &mut Context, rng: &mut Rng, pool: Vec<ExprRef>, tpe: Type, depth: u32| -> ExprRef {
        let mut g = ExprGen::new(ctx, rng, gcfg.clone());
        g.pool = Some(pool);
        match tpe {
            Type::BV(w) => g.gen_bv(w, depth),
            Type::Array(a) => g.gen_array(a.index_width, a.data_width, depth),
        }
    };
    // a shared sub-term used by several roots
    let shared_w = *rng.pick(&cfg.widths);
    let shared = gen_expr(ctx, rng, all_syms.clone(), Type::BV(shared_w), 2);
    let mut mix_shared = |ctx: &mut Context, rng: &mut Rng, e: ExprRef| -> ExprRef {
        // combine with the shared term when widths allow it
        if let Some(w) = e.get_bv_type(ctx) {
            if w == shared_w && rng.chance(1, 3) {
                return match rng.below(3) {
                    0 => ctx.xor(e, shared),
                    1 => ctx.add(e, shared),
                    _ => ctx.and(e, shared),
                };
            }
        }
        e
    };
    for (k, s) in state_syms.iter().enumerate() {
        let tpe = s.get_type(ctx);
        let init = match rng.below(4) {
            0 => None,
            1 => {
                // literal / constant array
                let e = gen_expr(ctx, rng, vec![], tpe, 1);
                Some(e)
            }
            _ => {
                let pool: Vec<ExprRef> = if cfg.init_reads_earlier { state_syms[..k].iter().chain(input_syms.iter()).copied().collect() } else { input_syms.clone() };
                let d = rng.below(cfg.max_depth as u64 + 1) as u32;
                let e = gen_expr(ctx, rng, pool, tpe, d);
                Some(mix_shared(ctx, rng, e))
            }
        };
        let next = match rng.below(8) {
            0 => None,
            1 => Some(*s), // constant state
            _ => {
                let d = 1 + rng.below(cfg.max_depth as u64) as u32;
                let e = gen_expr(ctx, rng, all_syms.clone(), tpe, d);
                Some(mix_shared(ctx, rng, e))
            }
        };
        sys.add_state(ctx, State { symbol: *s, init, next });
    }
    for k in 0..rng.range(0, cfg.max_outputs) {
        let w = *rng.pick(&cfg.widths);
        let e = gen_expr(ctx, rng, all_syms.clone(), Type::BV(w), cfg.max_depth);
        let e = mix_shared(ctx, rng, e);
        sys.add_output(ctx, format!("o{k}").into(), e);
    }
    for _ in 0..rng.range(1, cfg.max_bads) {
        let e = gen_expr(ctx, rng, all_syms.clone(), Type::BV(1), cfg.max_depth);
        sys.bad_states.push(e);
    }
    for _ in 0..rng.range(0, cfg.max_constraints) {
        let e = gen_expr(ctx, rng, all_syms.clone(), Type::BV(1), cfg.max_depth.min(2));
        sys.constraints.push(e);
    }
    sys
}

pub fn dump_sys(ctx: &Context, sys: &TransitionSystem) -> String {
    let mut s = String::from("(sys (inputs");
    for i in sys.inputs.iter() {
        s.push(' ');
        s.push_str(&dump_expr(ctx, *i));
    }
    s.push_str(") (states");
    for st in sys.states.iter() {
        s.push_str(&format!(" (state {}", dump_expr(ctx, st.symbol)));
        if let Some(i) = st.init {
            s.push_str(&format!(" (init {})", dump_expr(ctx, i)));
        }
        if let Some(n) = st.next {
            s.push_str(&format!(" (next {})", dump_expr(ctx, n)));
        }
        s.push(')');
    }
    s.push_str(") (outputs");
    for o in sys.outputs.iter() {
        s.push_str(&format!(" ({} {})", quote(&ctx[o.name]), dump_expr(ctx, o.expr)));
    }
    s.push_str(") (bads");
    for b in sys.bad_states.iter() {
        s.push(' ');
        s.push_str(&dump_expr(ctx, *b));
    }
    s.push_str(") (constraints");
    for c in sys.constraints.iter() {
        s.push(' ');
        s.push_str(&dump_expr(ctx, *c));
    }
    s.push_str("))");
    s
}

/// rebuild a system from its dump (replay)
pub fn build_sys(ctx: &mut Context, x: &Sexp) -> TransitionSystem {
    let mut sys = TransitionSystem::new("replay".to_string());
    for i in x.field("inputs").unwrap_or(&[]) {
        let e = build_expr(ctx, i);
        sys.add_input(ctx, e);
    }
    for st in x.field("states").unwrap_or(&[]) {
        let symbol = build_expr(ctx, &st.list()[1]);
        let init = st.field("init").map(|f| build_expr(ctx, &f[0]));
        let next = st.field("next").map(|f| build_expr(ctx, &f[0]));
        sys.add_state(ctx, State { symbol, init, next });
    }
    for o in x.field("outputs").unwrap_or(&[]) {
        let l = o.list();
        let e = build_expr(ctx, &l[1]);
        sys.add_output(ctx, l[0].atom().to_string().into(), e);
    }
    for b in x.field("bads").unwrap_or(&[]) {
        let e = build_expr(ctx, b);
        sys.bad_states.push(e);
    }
    for c in x.field("constraints").unwrap_or(&[]) {
        let e = build_expr(ctx, c);
        sys.constraints.push(e);
    }
    sys
}
