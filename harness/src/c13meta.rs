//! C13, stream "containers": operation histories on the REAL containers of patronus/src/expr/meta.rs
//! (DenseExprMetaData, SparseExprMap, DenseExprSet, SparseExprSet, get_fixed_point), every returned value
//! and the final contents dumped for the extracted model (Model/ExprMeta.v).
//!
//! (case ID (kind map) (ops OP..) (dense OBS..) (sparse OBS..) (dense-final (len N) (k v)..) (sparse-final (k v)..))
//! (case ID (kind set) (ops OP..) (dense OBS..) (sparse OBS..) (dense-final w..) (sparse-final k..))
//! map OP  : (get k) (set k v) (getmut k) (iter) (ndk) (intovec) (gfp k) (gfpdiv k)      v = none | index
//! map OBS : v | unit | (iter ordered|unordered LEN (k v)..) | (ndk k..) | (vec LEN (k v)..) | (some k) | none | diverges | (panic "loc")
//! set OP  : (contains k) (insert k) (remove k);  OBS: true | false
//! The same history goes through the dense and the sparse container.  `gfpdiv` marks a get_fixed_point call the
//! harness did NOT make because the chain from the key runs into a cycle of length >= 2 (the Rust loop would not
//! terminate); the model has to answer out-of-fuel there.  Dense vectors are dumped as length + non-default slots.
use crate::rng::Rng;
use crate::sexp::{read_cases, Sexp};
use crate::util::*;
use patronus::expr::*;
use std::io::Write;

type V = Option<ExprRef>;

#[derive(Clone, Debug, PartialEq, Eq, Hash)]
enum Op {
    Get(usize),
    Set(usize, Option<usize>),
    GetMut(usize),
    Iter,
    Ndk,
    IntoVec,
    Gfp(usize),
    Contains(usize),
    Insert(usize),
    Remove(usize),
}

fn r(k: usize) -> ExprRef {
    ExprRef::from(k)
}
fn ix(e: ExprRef) -> usize {
    usize::from(e)
}
fn show_v(v: &V) -> String {
    match v {
        None => "none".to_string(),
        Some(e) => format!("{}", ix(*e)),
    }
}
fn show_ov(v: &Option<usize>) -> String {
    match v {
        None => "none".to_string(),
        Some(e) => format!("{e}"),
    }
}

fn show_op(op: &Op, diverges: bool) -> String {
    match op {
        Op::Get(k) => format!("(get {k})"),
        Op::Set(k, v) => format!("(set {k} {})", show_ov(v)),
        Op::GetMut(k) => format!("(getmut {k})"),
        Op::Iter => "(iter)".to_string(),
        Op::Ndk => "(ndk)".to_string(),
        Op::IntoVec => "(intovec)".to_string(),
        Op::Gfp(k) => if diverges { format!("(gfpdiv {k})") } else { format!("(gfp {k})") },
        Op::Contains(k) => format!("(contains {k})"),
        Op::Insert(k) => format!("(insert {k})"),
        Op::Remove(k) => format!("(remove {k})"),
    }
}

/// does the chain from `key` run into a cycle of length >= 2 (reads through `Index` only)?
fn chain_diverges<M: ExprMap<V>>(m: &M, key: usize, bound: usize) -> bool {
    let mut cur = key;
    for _ in 0..=bound {
        match m[r(cur)] {
            None => return false,
            Some(n) if ix(n) == cur => return false,
            Some(n) => cur = ix(n),
        }
    }
    true
}

fn vec_compact(vals: &[V]) -> String {
    let nd: Vec<String> = vals.iter().enumerate().filter(|(_, v)| v.is_some()).map(|(k, v)| format!("({k} {})", show_v(v))).collect();
    format!("{} {}", vals.len(), nd.join(" "))
}

/// one map operation on a real container; `dense` selects the observation format of `iter`
fn map_op<M: ExprMap<V>>(m: &mut M, op: &Op, dense: bool, into_vec: &dyn Fn(&M) -> Option<Vec<V>>) -> String {
    match op {
        Op::Get(k) => show_v(&m[r(*k)]),
        Op::Set(k, v) => {
            m[r(*k)] = v.map(r);
            "unit".to_string()
        }
        Op::GetMut(k) => {
            let slot: &mut V = &mut m[r(*k)];
            show_v(slot)
        }
        Op::Iter => {
            let items: Vec<(usize, V)> = m.iter().map(|(k, v)| (ix(k), *v)).collect();
            if dense {
                let ordered = items.iter().enumerate().all(|(i, (k, _))| i == *k);
                let nd: Vec<String> = items.iter().filter(|(_, v)| v.is_some()).map(|(k, v)| format!("({k} {})", show_v(v))).collect();
                format!("(iter {} {} {})", if ordered { "ordered" } else { "unordered" }, items.len(), nd.join(" "))
            } else {
                let mut items = items;
                let n = items.len();
                items.sort();
                format!("(iter unordered {n} {})", items.iter().map(|(k, v)| format!("({k} {})", show_v(v))).collect::<Vec<_>>().join(" "))
            }
        }
        Op::Ndk => {
            let mut ks: Vec<usize> = m.non_default_value_keys().map(ix).collect();
            if !dense {
                ks.sort();
            }
            format!("(ndk {})", ks.iter().map(|k| k.to_string()).collect::<Vec<_>>().join(" "))
        }
        Op::IntoVec => match into_vec(m) {
            Some(v) => format!("(vec {})", vec_compact(&v)),
            None => "unit".to_string(),
        },
        Op::Gfp(k) => match get_fixed_point(m, r(*k)) {
            Some(e) => format!("(some {})", ix(e)),
            None => "none".to_string(),
        },
        _ => unreachable!(),
    }
}

fn set_op<S: ExprSet>(s: &mut S, op: &Op) -> String {
    let b = match op {
        Op::Contains(k) => s.contains(&r(*k)),
        Op::Insert(k) => s.insert(r(*k)),
        Op::Remove(k) => s.remove(&r(*k)),
        _ => unreachable!(),
    };
    b.to_string()
}

/// the numbers inside the `inner: [...]` / `inner: {...}` part of a derived Debug text
fn debug_numbers(txt: &str) -> Vec<u64> {
    let start = txt.find("inner:").map(|i| i + 6).unwrap_or(0);
    let mut out = vec![];
    let mut cur = String::new();
    for c in txt[start..].chars() {
        if c.is_ascii_digit() {
            cur.push(c);
        } else if !cur.is_empty() {
            out.push(cur.parse().unwrap());
            cur.clear();
        }
    }
    if !cur.is_empty() {
        out.push(cur.parse().unwrap());
    }
    out
}

const EDGE_KEYS: &[usize] = &[0, 1, 2, 3, 31, 32, 62, 63, 64, 65, 66, 126, 127, 128, 129, 130, 191, 192, 193, 255, 256, 257];
const LARGE_KEYS: &[usize] = &[511, 512, 1000, 1023, 1024, 2047, 2048, 4095, 4096, 4097];
const HUGE_KEYS: &[usize] = &[65535, 65536, 100000];

fn key_class(k: usize) -> &'static str {
    match k {
        0 => "0",
        1..=62 => "1..62",
        63 => "63",
        64 => "64",
        65 => "65",
        66..=126 => "66..126",
        127 => "127",
        128 => "128",
        129..=510 => "129..510",
        _ => "large(>=511)",
    }
}

struct KeyPool {
    keys: Vec<usize>,
}

impl KeyPool {
    fn new(rng: &mut Rng, stats: &mut Stats) -> KeyPool {
        let n = 2 + rng.below(7) as usize;
        let large = rng.chance(1, 12);
        let huge = rng.chance(1, 400);
        let mut keys = vec![];
        for _ in 0..n {
            let k = match rng.below(10) {
                0..=5 => *rng.pick(EDGE_KEYS),
                6..=7 => rng.below(200) as usize,
                8 => rng.below(8) as usize,
                _ => if large { *rng.pick(LARGE_KEYS) } else { *rng.pick(EDGE_KEYS) },
            };
            keys.push(k);
        }
        if huge {
            keys.push(*rng.pick(HUGE_KEYS));
            stats.inc("cases_with_huge_keys");
        }
        if large {
            stats.inc("cases_with_large_keys");
        }
        KeyPool { keys }
    }
    fn pick(&self, rng: &mut Rng) -> usize {
        // a neighbour of a pool key now and then (the other bit of the same word, the first key of the next word)
        let k = *rng.pick(&self.keys);
        match rng.below(12) {
            0 => k + 1,
            1 => k.saturating_sub(1),
            2 => k ^ 1,
            3 => k + 64,
            _ => k,
        }
    }
}

fn gen_map_ops(rng: &mut Rng, stats: &mut Stats) -> Vec<Op> {
    let pool = KeyPool::new(rng, stats);
    let n = 4 + rng.below(40) as usize;
    let mut ops = vec![];
    while ops.len() < n {
        match rng.below(16) {
            0..=2 => ops.push(Op::Get(pool.pick(rng))),
            3..=5 => {
                let v = if rng.chance(1, 5) { None } else { Some(pool.pick(rng)) };
                ops.push(Op::Set(pool.pick(rng), v));
            }
            6..=7 => ops.push(Op::GetMut(pool.pick(rng))),
            8 => ops.push(Op::Iter),
            9 => ops.push(Op::Ndk),
            10 => ops.push(Op::IntoVec),
            11..=12 => ops.push(Op::Gfp(pool.pick(rng))),
            _ => {
                // a chain k0 -> k1 -> .. -> kn with one of four endings, then queries along it
                let len = 1 + rng.below(6) as usize;
                let chain: Vec<usize> = (0..=len).map(|_| pool.pick(rng)).collect();
                let mut sets: Vec<Op> = (0..len).map(|i| Op::Set(chain[i], Some(chain[i + 1]))).collect();
                let ending = match rng.below(8) {
                    0..=3 => {
                        sets.push(Op::Set(chain[len], Some(chain[len])));
                        "self-loop"
                    }
                    4 => {
                        sets.push(Op::Set(chain[len], None));
                        "none-entry"
                    }
                    5 => "as-is",
                    _ => {
                        sets.push(Op::Set(chain[len], Some(chain[rng.below(len as u64 + 1) as usize])));
                        "back-edge"
                    }
                };
                stats.bump("chain_ending", ending);
                stats.bump("chain_length", &format!("{len}"));
                // the writes in a random order (insertion order matters for the sparse container's growth)
                for i in (1..sets.len()).rev() {
                    let j = rng.below(i as u64 + 1) as usize;
                    sets.swap(i, j);
                }
                ops.extend(sets);
                for _ in 0..(1 + rng.below(3)) {
                    ops.push(Op::Gfp(chain[rng.below(len as u64 + 1) as usize]));
                    if rng.chance(1, 3) {
                        ops.push(Op::Get(chain[rng.below(len as u64 + 1) as usize]));
                    }
                }
            }
        }
    }
    ops
}

fn gen_set_ops(rng: &mut Rng, stats: &mut Stats) -> Vec<Op> {
    let pool = KeyPool::new(rng, stats);
    let n = 4 + rng.below(50) as usize;
    (0..n)
        .map(|_| {
            let k = pool.pick(rng);
            match rng.below(7) {
                0..=2 => Op::Insert(k),
                3..=4 => Op::Remove(k),
                _ => Op::Contains(k),
            }
        })
        .collect()
}

fn run_map_case(id: &str, ops: &[Op], stats: &mut Stats) -> String {
    let bound = ops.len() + 2;
    let mut dense: DenseExprMetaData<V> = DenseExprMetaData::default();
    let mut sparse: SparseExprMap<V> = SparseExprMap::default();
    let mut obs_d: Vec<String> = vec![];
    let mut obs_s: Vec<String> = vec![];
    let mut ops_txt: Vec<String> = vec![];
    let mut dead_d = false;
    let mut dead_s = false;
    for op in ops {
        // a get_fixed_point call that would not return is not made (on either container)
        let mut div = false;
        if let Op::Gfp(k) = op {
            let dd = if dead_d { Ok(false) } else { guarded(|| chain_diverges(&dense, *k, bound)) };
            let ds = if dead_s { Ok(false) } else { guarded(|| chain_diverges(&sparse, *k, bound)) };
            div = matches!(dd, Ok(true)) || matches!(ds, Ok(true));
            stats.bump("gfp_call", if div { "not made: chain runs into a cycle" } else { "made" });
        }
        ops_txt.push(show_op(op, div));
        if div {
            obs_d.push("diverges".to_string());
            obs_s.push("diverges".to_string());
            continue;
        }
        if !dead_d {
            match guarded(|| map_op(&mut dense, op, true, &|m: &DenseExprMetaData<V>| Some(m.clone().into_vec()))) {
                Ok(o) => {
                    if let Op::Gfp(_) = op {
                        stats.bump("gfp_result", if o == "none" { "None" } else { "Some" });
                    }
                    obs_d.push(o)
                }
                Err(_) => {
                    obs_d.push(format!("(panic {})", quote_s(&last_panic_loc())));
                    dead_d = true;
                }
            }
        }
        if !dead_s {
            match guarded(|| map_op(&mut sparse, op, false, &|_m: &SparseExprMap<V>| None)) {
                Ok(o) => obs_s.push(o),
                Err(_) => {
                    obs_s.push(format!("(panic {})", quote_s(&last_panic_loc())));
                    dead_s = true;
                }
            }
        }
    }
    let fin_d = if dead_d { "(len 0)".to_string() } else {
        let v = dense.clone().into_vec();
        let nd: Vec<String> = v.iter().enumerate().filter(|(_, x)| x.is_some()).map(|(k, x)| format!("({k} {})", show_v(x))).collect();
        stats.bump("dense_final_len", &format!("{}", bucket(v.len())));
        format!("(len {}) {}", v.len(), nd.join(" "))
    };
    let fin_s = if dead_s { String::new() } else {
        let mut items: Vec<(usize, V)> = sparse.iter().map(|(k, v)| (ix(k), *v)).collect();
        items.sort();
        stats.bump("sparse_final_entries", &format!("{}", bucket(items.len())));
        items.iter().map(|(k, v)| format!("({k} {})", show_v(v))).collect::<Vec<_>>().join(" ")
    };
    if dead_d || dead_s {
        stats.inc("impl_panics");
    }
    format!(
        "(case {id} (kind map) (ops {}) (dense {}) (sparse {}) (dense-final {fin_d}) (sparse-final {fin_s}))",
        ops_txt.join(" "),
        obs_d.join(" "),
        obs_s.join(" ")
    )
}

fn bucket(n: usize) -> &'static str {
    match n {
        0 => "0",
        1..=4 => "1..4",
        5..=16 => "5..16",
        17..=64 => "17..64",
        65..=256 => "65..256",
        257..=4096 => "257..4096",
        _ => ">4096",
    }
}

fn quote_s(s: &str) -> String {
    format!("\"{}\"", s.replace('\\', "\\\\").replace('"', "\\\""))
}

fn run_set_case(id: &str, ops: &[Op], stats: &mut Stats) -> String {
    let mut dense = DenseExprSet::default();
    let mut sparse = SparseExprSet::default();
    let mut obs_d: Vec<String> = vec![];
    let mut obs_s: Vec<String> = vec![];
    let mut dead_d = false;
    let mut dead_s = false;
    for op in ops {
        if !dead_d {
            match guarded(|| set_op(&mut dense, op)) {
                Ok(o) => {
                    let name = match op { Op::Insert(_) => "insert", Op::Remove(_) => "remove", _ => "contains" };
                    stats.bump("set_result", &format!("{name}={o}"));
                    obs_d.push(o)
                }
                Err(_) => {
                    obs_d.push(format!("(panic {})", quote_s(&last_panic_loc())));
                    dead_d = true;
                }
            }
        }
        if !dead_s {
            match guarded(|| set_op(&mut sparse, op)) {
                Ok(o) => obs_s.push(o),
                Err(_) => {
                    obs_s.push(format!("(panic {})", quote_s(&last_panic_loc())));
                    dead_s = true;
                }
            }
        }
    }
    // final contents: the derived Debug text shows the word vector / the hash set (ExprRef prints its zero-based index)
    let words = debug_numbers(&format!("{:?}", dense));
    let mut members = debug_numbers(&format!("{:?}", sparse));
    members.sort();
    stats.bump("dense_set_final_words", bucket(words.len()));
    if dead_d || dead_s {
        stats.inc("impl_panics");
    }
    format!(
        "(case {id} (kind set) (ops {}) (dense {}) (sparse {}) (dense-final {}) (sparse-final {}))",
        ops.iter().map(|o| show_op(o, false)).collect::<Vec<_>>().join(" "),
        obs_d.join(" "),
        obs_s.join(" "),
        words.iter().map(|w| w.to_string()).collect::<Vec<_>>().join(" "),
        members.iter().map(|w| w.to_string()).collect::<Vec<_>>().join(" ")
    )
}

fn parse_v(x: &Sexp) -> Option<usize> {
    if x.atom() == "none" { None } else { Some(x.num() as usize) }
}

fn parse_op(x: &Sexp) -> Op {
    let l = x.list();
    let k = |i: usize| l[i].num() as usize;
    match l[0].atom() {
        "get" => Op::Get(k(1)),
        "set" => Op::Set(k(1), parse_v(&l[2])),
        "getmut" => Op::GetMut(k(1)),
        "iter" => Op::Iter,
        "ndk" => Op::Ndk,
        "intovec" => Op::IntoVec,
        "gfp" | "gfpdiv" => Op::Gfp(k(1)),
        "contains" => Op::Contains(k(1)),
        "insert" => Op::Insert(k(1)),
        "remove" => Op::Remove(k(1)),
        other => panic!("unknown op {other}"),
    }
}

pub fn is_container_case(c: &Sexp) -> bool {
    c.field("kind").is_some()
}

pub fn run(args: &Args) {
    let mut rng = Rng::new(args.seed);
    let mut out = std::fs::File::create(&args.out).expect("out file");
    let mut stats = Stats::default();
    let mut distinct = std::collections::HashSet::new();
    let count_ops = |ops: &[Op], stats: &mut Stats| {
        for op in ops {
            let (name, key) = match op {
                Op::Get(k) => ("get", Some(*k)),
                Op::Set(k, v) => (if v.is_some() { "set Some" } else { "set None" }, Some(*k)),
                Op::GetMut(k) => ("get through index_mut", Some(*k)),
                Op::Iter => ("iter", None),
                Op::Ndk => ("non_default_value_keys", None),
                Op::IntoVec => ("into_vec", None),
                Op::Gfp(k) => ("get_fixed_point", Some(*k)),
                Op::Contains(k) => ("contains", Some(*k)),
                Op::Insert(k) => ("insert", Some(*k)),
                Op::Remove(k) => ("remove", Some(*k)),
            };
            stats.bump("operation", name);
            if let Some(k) = key {
                stats.bump("key_class", key_class(k));
            }
        }
        stats.bump("history_length", bucket(ops.len()));
    };
    if let Some(path) = args.get("cases-in") {
        for c in read_cases(path).iter() {
            if !is_container_case(c) {
                continue;
            }
            let id = c.list()[1].atom().to_string();
            let ops: Vec<Op> = c.field("ops").unwrap().iter().map(parse_op).collect();
            let line = if c.field("kind").unwrap()[0].atom() == "map" { run_map_case(&id, &ops, &mut stats) } else { run_set_case(&id, &ops, &mut stats) };
            writeln!(out, "{line}").unwrap();
        }
    }
    for id in 0..args.count {
        let mut r = rng.fork();
        let is_map = !r.chance(1, 3);
        let ops = if is_map { gen_map_ops(&mut r, &mut stats) } else { gen_set_ops(&mut r, &mut stats) };
        stats.bump("kind", if is_map { "map (dense + sparse)" } else { "set (dense + sparse)" });
        count_ops(&ops, &mut stats);
        distinct.insert((is_map, ops.clone()));
        let line = if is_map { run_map_case(&format!("{id}"), &ops, &mut stats) } else { run_set_case(&format!("{id}"), &ops, &mut stats) };
        stats.sample(&line, 2);
        writeln!(out, "{line}").unwrap();
    }
    stats.add("distinct_cases", distinct.len() as u64);
    stats.write(&args.out);
}
