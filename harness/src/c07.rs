//! C07: the interpreter-based simulator (patronus::sim::Interpreter) on generated systems x
//! operation histories.  One case per line:
//!   (case ID (sys ...) (ops OP ...) (replay START LEN START2 same|differs|incomplete)?)
//!   OP = (init zero R) | (init random SEED (oracle V ...) (det ok|differs|crashed) R) | (set SYM bBITS R) | (step R)
//!      | (get E R) | (count R) | (snapshot R) | (restore K ID R)   -- K: the K-th snapshot taken, ID: the id passed
//!   R  = (ok) | (bv W bBITS) | (arr IW DW bBITS ...) | (num N) | (panic "file:line")
//!   V  = bBITS | (arr IW DW bBITS ...)            -- what InitValueGenerator produced, in allocation order
//! The history is cut after the first panic (the interpreter may be half-updated then).
use crate::dump::*;
use crate::exprgen::*;
use crate::rng::Rng;
use crate::sexp::{Sexp, build_expr, read_cases};
use crate::sysgen::*;
use crate::util::*;
use baa::{ArrayOps, BitVecOps, BitVecValue, Value};
use patronus::expr::*;
use patronus::sim::*;
use patronus::system::*;
use std::io::Write;

#[derive(Clone)]
enum Op {
    Init(InitKind),
    Set(ExprRef, BitVecValue),
    Step,
    Get(ExprRef),
    Count,
    Snapshot,
    Restore(u32),
}

struct Case {
    ctx: Context,
    sys: TransitionSystem,
    ops: Vec<Op>,
    /// (start of h, length of h, start of the replayed copy of h): the history has the shape
    /// pre ++ [snapshot] ++ h ++ between ++ [restore] ++ h'
    replay: Option<(usize, usize, usize)>,
}

pub fn run(args: &Args) {
    let mut rng = Rng::new(args.seed);
    let mut out = std::io::BufWriter::new(std::fs::File::create(&args.out).expect("out file"));
    let mut stats = Stats::default();
    let mut distinct = std::collections::HashSet::new();
    if args.get("probe").is_some() {
        probe_misuse();
        return;
    }
    if let Some(path) = args.get("cases-in") {
        for c in read_cases(path).iter() {
            let case = parse_case(c);
            let id = c.list()[1].atom().to_string();
            let (line, key) = run_case(&id, case, &mut stats);
            distinct.insert(key);
            stats.sample(&line, 3);
            writeln!(out, "{line}").unwrap();
        }
    }
    for id in 0..args.count {
        let mut r = rng.fork();
        let case = gen_case(&mut r, &mut stats, args);
        let (line, key) = run_case(&format!("{id}"), case, &mut stats);
        distinct.insert(key);
        stats.sample(&line, 3);
        writeln!(out, "{line}").unwrap();
    }
    stats.add("distinct_cases", distinct.len() as u64);
    stats.write(&args.out);
}

const SMALL: &[WidthInt] = &[1, 1, 2, 3, 4, 8];
const WIDE: &[WidthInt] = &[1, 2, 8, 16, 31, 32, 33, 63, 64, 65, 127, 128, 129];

fn expr_cfg(widths: &[WidthInt], div_rem: bool) -> GenCfg {
    GenCfg { max_depth: 3, arrays: true, div_rem, array_eq: false, widths: widths.to_vec(), max_index_width: 5, syms_per_type: 1, mul_max_width: 128 }
}

fn gen_with_pool(ctx: &mut Context, rng: &mut Rng, cfg: &GenCfg, pool: &[ExprRef], tpe: Type, depth: u32) -> ExprRef {
    let mut g = ExprGen::new(ctx, rng, cfg.clone());
    g.pool = Some(pool.to_vec());
    match tpe {
        Type::BV(w) => g.gen_bv(w, depth),
        Type::Array(a) => g.gen_array(a.index_width, a.data_width, depth),
    }
}

fn declared(sys: &TransitionSystem) -> Vec<ExprRef> {
    sys.states.iter().map(|s| s.symbol).chain(sys.inputs.iter().copied()).collect()
}

fn gen_case(rng: &mut Rng, stats: &mut Stats, args: &Args) -> Case {
    let mut ctx = Context::default();
    let wide = rng.chance(2, 5);
    let profile: Vec<WidthInt> = if let Some(w) = args.get("widths") { w.split(',').map(|x| x.parse().unwrap()).collect() } else if wide { WIDE.to_vec() } else { SMALL.to_vec() };
    // few distinct widths per system, so that states and inputs can read each other
    let n_widths = rng.range(1, 3) as usize;
    let widths: Vec<WidthInt> = (0..n_widths).map(|_| *rng.pick(&profile)).collect();
    stats.bump("distinct_widths_per_system", &format!("{n_widths}"));
    stats.bump("width_profile", if wide { "wide" } else { "small" });
    let cfg = SysCfg {
        max_bv_states: if rng.chance(1, 5) { 6 } else { 4 },
        max_inputs: 3,
        array_state_chance: (1, 3),
        widths: widths.clone(),
        max_depth: if rng.chance(1, 6) { 4 } else { 1 + rng.below(3) as u32 },
        max_bads: 1,
        max_constraints: 1,
        max_outputs: 2,
        arrays_in_exprs: true,
        init_reads_earlier: true,
        div_rem: false,
        anon_inputs: false,
    };
    let mut sys = gen_sys(&mut ctx, rng, &cfg);
    let gcfg = expr_cfg(&widths, false);

    // a second array state whose next function stores into it / copies the first one
    if rng.chance(1, 6) {
        let iw = if rng.chance(1, 4) { rng.range(4, 5) } else { rng.range(1, 3) } as WidthInt;
        let dw = *rng.pick(&widths);
        let sym = ctx.array_symbol("mem2", iw, dw);
        let mut pool = declared(&sys);
        pool.push(sym);
        let tpe = sym.get_type(&ctx);
        let init = if rng.chance(1, 2) { Some(gen_with_pool(&mut ctx, rng, &gcfg, &declared(&sys), tpe, 1)) } else { None };
        let next = if rng.chance(4, 5) { Some(gen_with_pool(&mut ctx, rng, &gcfg, &pool, tpe, 2)) } else { None };
        let pos = rng.below(sys.states.len() as u64 + 1) as usize;
        sys.states.insert(pos, State { symbol: sym, init, next });
        stats.inc("second_array_state");
    }
    // swap / shift-register shapes: the next value of a state is another state of the same type
    // (simultaneous update is observable)
    if sys.states.len() >= 2 && rng.chance(1, 5) {
        let n = sys.states.len();
        let rot = rng.chance(1, 2);
        for k in 0..n {
            let other = if rot { (k + 1) % n } else { (k + n - 1) % n };
            let (a, b) = (sys.states[k].symbol, sys.states[other].symbol);
            if a.get_type(&ctx) == b.get_type(&ctx) && a != b {
                sys.states[k].next = Some(if rng.chance(1, 2) {
                    b
                } else if let Type::BV(_) = a.get_type(&ctx) {
                    ctx.xor(a, b)
                } else {
                    b
                });
            }
        }
        stats.inc("swap_or_shift_register_shape");
    }
    // init expressions that read the state itself or a later state (sequential initialisation matters)
    if rng.chance(1, 4) {
        let k = rng.below(sys.states.len() as u64) as usize;
        let tpe = sys.states[k].symbol.get_type(&ctx);
        let pool = declared(&sys);
        let e = gen_with_pool(&mut ctx, rng, &gcfg, &pool, tpe, 2);
        sys.states[k].init = Some(e);
        stats.inc("init_over_all_symbols");
    }
    // ill-formed systems (outside the property's domain; model and implementation must crash alike)
    if rng.chance(1, 80) {
        let s = sys.states[rng.below(sys.states.len() as u64) as usize].symbol;
        sys.inputs.push(s);
        stats.inc("illformed_duplicate_declaration");
    }
    if rng.chance(1, 80) {
        let k = rng.below(sys.states.len() as u64) as usize;
        if let Type::BV(w) = sys.states[k].symbol.get_type(&ctx) {
            let u = ctx.bv_symbol("undeclared", w);
            let old = sys.states[k].next.unwrap_or(sys.states[k].symbol);
            let e = ctx.xor(old, u);
            sys.states[k].next = Some(e);
            stats.inc("illformed_undeclared_symbol_in_next");
        }
    }

    // the history
    let decl = declared(&sys);
    let bv_decl: Vec<ExprRef> = decl.iter().copied().filter(|s| s.get_bv_type(&ctx).is_some()).collect();
    let mut roots: Vec<ExprRef> = decl.clone();
    roots.extend(sys.outputs.iter().map(|o| o.expr));
    roots.extend(sys.bad_states.iter().copied());
    roots.extend(sys.constraints.iter().copied());
    for s in sys.states.iter() {
        roots.extend(s.init);
        roots.extend(s.next);
    }
    let replay_shape = rng.chance(1, 6);
    let len = if replay_shape { rng.range(3, 24) as usize } else { rng.range(1, 60) as usize };
    let mut ops: Vec<Op> = vec![];
    let mut snapshots = 0u32;
    let start_uninitialised = !replay_shape && rng.chance(1, 25);
    if !start_uninitialised {
        ops.push(gen_init(rng));
    } else {
        stats.inc("history_starts_uninitialised");
    }
    let observe_all = rng.chance(1, 2);
    let allow_illformed = !replay_shape && rng.chance(1, 8);
    while ops.len() < len {
        let mut c = rng.below(100);
        if c >= 98 && !allow_illformed {
            c = 67;
        }
        let mutating = c < 62;
        match c {
            0..=27 => {
                if bv_decl.is_empty() {
                    ops.push(Op::Step);
                } else {
                    // inputs mostly, states sometimes
                    let bv_inputs: Vec<ExprRef> = sys.inputs.iter().copied().filter(|s| s.get_bv_type(&ctx).is_some()).collect();
                    let s = if !bv_inputs.is_empty() && rng.chance(3, 4) { *rng.pick(&bv_inputs) } else { *rng.pick(&bv_decl) };
                    let w = s.get_bv_type(&ctx).unwrap();
                    ops.push(Op::Set(s, lit_value(rng, w)));
                }
            }
            28..=52 => ops.push(Op::Step),
            53..=56 => {
                ops.push(Op::Snapshot);
                snapshots += 1;
            }
            57..=60 => {
                if snapshots > 0 {
                    ops.push(Op::Restore(rng.below(snapshots as u64) as u32));
                } else {
                    ops.push(Op::Step);
                }
            }
            61 => ops.push(gen_init(rng)),
            62..=66 => ops.push(Op::Count),
            67..=84 => ops.push(Op::Get(*rng.pick(&roots))),
            85..=97 => {
                let w = *rng.pick(&widths);
                let tpe = if rng.chance(1, 8) {
                    Type::Array(ArrayType { index_width: rng.range(1, 3) as WidthInt, data_width: w })
                } else {
                    Type::BV(w)
                };
                let d = 1 + rng.below(3) as u32;
                ops.push(Op::Get(gen_with_pool(&mut ctx, rng, &gcfg, &decl, tpe, d)));
            }
            _ => {
                // outside the property's domain: the implementation must crash exactly where the model does
                match rng.below(4) {
                    0 => {
                        let w = *rng.pick(&widths);
                        let u = ctx.bv_symbol("nowhere", w);
                        ops.push(Op::Set(u, lit_value(rng, w)));
                        stats.inc("illformed_set_undeclared");
                    }
                    1 => {
                        ops.push(Op::Restore(snapshots + rng.below(3) as u32));
                        stats.inc("illformed_restore_bad_id");
                    }
                    2 => {
                        let w = *rng.pick(&widths);
                        let u = ctx.bv_symbol("nowhere", w);
                        let e = if rng.chance(1, 2) { u } else { ctx.not(u) };
                        ops.push(Op::Get(e));
                        stats.inc("illformed_get_undeclared");
                    }
                    _ => {
                        let w = *rng.pick(&widths);
                        let e = gen_with_pool(&mut ctx, rng, &expr_cfg(&widths, true), &decl, Type::BV(w), 2);
                        ops.push(Op::Get(e));
                        stats.inc("get_with_divrem_enabled");
                    }
                }
            }
        }
        if mutating && observe_all {
            for s in decl.iter() {
                ops.push(Op::Get(*s));
            }
        }
    }
    if !replay_shape {
        return Case { ctx, sys, ops, replay: None };
    }
    // pre ++ [snapshot] ++ h ++ [read everything] ++ between ++ [restore] ++ h' ++ [read everything]
    stats.inc("replay_shaped_histories");
    let i = rng.range(1, ops.len() as u64 - 1) as usize;
    let j = rng.range(i as u64 + 1, ops.len() as u64) as usize;
    let count = |v: &[Op]| v.iter().filter(|o| matches!(o, Op::Snapshot)).count() as u32;
    let k0 = count(&ops[..i]);
    let bump = |o: &Op, from: u32, by: u32| match o {
        Op::Restore(r) if *r >= from => Op::Restore(*r + by),
        other => other.clone(),
    };
    let pre: Vec<Op> = ops[..i].to_vec();
    let mut h: Vec<Op> = ops[i..j].iter().map(|o| bump(o, k0, 1)).collect();
    for s in decl.iter() {
        h.push(Op::Get(*s));
    }
    let between: Vec<Op> = ops[j..].iter().map(|o| bump(o, k0, 1)).collect();
    let delta = count(&h) + count(&between);
    let h2: Vec<Op> = h.iter().map(|o| bump(o, k0 + 1, delta)).collect();
    let mut all = pre;
    all.push(Op::Snapshot);
    let start = all.len();
    all.extend(h.iter().cloned());
    all.extend(between);
    all.push(Op::Restore(k0));
    let start2 = all.len();
    all.extend(h2);
    Case { ctx, sys, ops: all, replay: Some((start, h.len(), start2)) }
}

fn gen_init(rng: &mut Rng) -> Op {
    if rng.chance(1, 2) { Op::Init(InitKind::Zero) } else { Op::Init(InitKind::Random(rng.below(1 << 20))) }
}

fn parse_case(c: &Sexp) -> Case {
    let mut ctx = Context::default();
    let sys_x = c.list().iter().find(|x| matches!(x, Sexp::List(l) if !l.is_empty() && l[0] == Sexp::Atom("sys".into()))).expect("sys");
    let sys = build_sys(&mut ctx, sys_x);
    let mut ops = vec![];
    for o in c.field("ops").unwrap_or(&[]) {
        let l = o.list();
        match l[0].atom() {
            "init" => {
                if l[1].atom() == "zero" {
                    ops.push(Op::Init(InitKind::Zero));
                } else {
                    ops.push(Op::Init(InitKind::Random(l[2].num())));
                }
            }
            "set" => {
                let s = build_expr(&mut ctx, &l[1]);
                ops.push(Op::Set(s, l[2].bits()));
            }
            "step" => ops.push(Op::Step),
            "get" => {
                let e = build_expr(&mut ctx, &l[1]);
                ops.push(Op::Get(e));
            }
            "count" => ops.push(Op::Count),
            "snapshot" => ops.push(Op::Snapshot),
            "restore" => ops.push(Op::Restore(l[1].num() as u32)),
            other => panic!("unknown op {other}"),
        }
    }
    let replay = c.field("replay").map(|f| (f[0].num() as usize, f[1].num() as usize, f[2].num() as usize));
    Case { ctx, sys, ops, replay }
}

fn all_indices(iw: WidthInt) -> Vec<BitVecValue> {
    assert!(iw <= 10, "index width too large to enumerate");
    (0..(1u64 << iw)).map(|i| BitVecValue::from_u64(i, iw)).collect()
}

fn dump_value(v: &Value) -> String {
    match v {
        Value::BitVec(b) => format!("(bv {} {})", b.width(), bv_tok(b)),
        Value::Array(a) => dump_array_at(a, &all_indices(a.index_width())),
    }
}

fn dump_oracle_value(v: &Value) -> String {
    match v {
        Value::BitVec(b) => bv_tok(b),
        Value::Array(a) => dump_array_at(a, &all_indices(a.index_width())),
    }
}

fn panic_result() -> String {
    format!("(panic {})", quote(&last_panic_loc()))
}

fn run_case(id: &str, case: Case, stats: &mut Stats) -> (String, String) {
    let Case { ctx, sys, ops, replay } = case;
    // shape statistics
    stats.bump("states", &format!("{}", sys.states.len()));
    stats.bump("inputs", &format!("{}", sys.inputs.len()));
    let n_arr = sys.states.iter().filter(|s| matches!(s.symbol.get_type(&ctx), Type::Array(_))).count();
    stats.bump("array_states", &format!("{n_arr}"));
    for s in sys.states.iter() {
        stats.bump("state_shape", &format!("init={} next={}", s.init.is_some(), if s.next == Some(s.symbol) { "self".to_string() } else { s.next.is_some().to_string() }));
        match s.symbol.get_type(&ctx) {
            Type::BV(w) => stats.bump("symbol_width", &format!("{w}")),
            Type::Array(a) => stats.bump("symbol_width", &format!("arr{}x{}", a.index_width, a.data_width)),
        }
    }
    for s in sys.inputs.iter() {
        if let Type::BV(w) = s.get_type(&ctx) {
            stats.bump("symbol_width", &format!("{w}"));
        }
    }
    stats.bump("history_len", &format!("{}", (ops.len() / 10) * 10));

    let sys_txt = dump_sys(&ctx, &sys);
    let decl = declared(&sys);
    let mut sim = Interpreter::new(&ctx, &sys);
    let mut txt = String::new();
    let mut key = sys_txt.clone();
    let mut executed = 0usize;
    // ids the implementation returned, in order: `Restore(k)` restores the k-th snapshot taken
    let mut returned_ids: Vec<u32> = vec![];
    // what every executed `get` returned (None for the other operations)
    let mut got: Vec<Option<String>> = vec![];
    for op in ops.iter() {
        got.push(None);
        executed += 1;
        let mut crashed = false;
        match op {
            Op::Init(kind) => {
                stats.bump("ops", "init");
                let r = guarded(|| sim.init(*kind));
                let res = match &r {
                    Ok(()) => "(ok)".to_string(),
                    Err(_) => {
                        crashed = true;
                        panic_result()
                    }
                };
                match kind {
                    InitKind::Zero => {
                        stats.bump("init_kind", "zero");
                        txt.push_str(&format!(" (init zero {res})"));
                        key.push_str(" iz");
                    }
                    InitKind::Random(seed) => {
                        stats.bump("init_kind", "random");
                        // the values the generator produces, in the allocation order of interpreter.rs:112-117
                        let oracle = guarded(|| {
                            let mut g = InitValueGenerator::from_kind(*kind);
                            decl.iter().map(|s| dump_oracle_value(&g.generate(s.get_type(&ctx)))).collect::<Vec<_>>()
                        })
                        .unwrap_or_default();
                        // determinism: a second simulator with the same seed holds the same values
                        let det = if r.is_ok() {
                            let same = guarded(|| {
                                let mut other = Interpreter::new(&ctx, &sys);
                                other.init(*kind);
                                decl.iter().all(|s| dump_value(&other.get(*s)) == dump_value(&sim.get(*s)))
                            });
                            match same {
                                Ok(true) => "ok",
                                Ok(false) => "differs",
                                Err(_) => "crashed",
                            }
                        } else {
                            "ok"
                        };
                        if det != "ok" {
                            stats.inc("random_init_not_deterministic");
                        }
                        txt.push_str(&format!(" (init random {seed} (oracle {}) (det {det}) {res})", oracle.join(" ")));
                        key.push_str(&format!(" ir{seed}"));
                    }
                }
            }
            Op::Set(s, v) => {
                stats.bump("ops", "set");
                let r = guarded(|| sim.set(*s, v));
                let res = if r.is_ok() {
                    "(ok)".to_string()
                } else {
                    crashed = true;
                    panic_result()
                };
                let t = format!(" (set {} {}", dump_expr(&ctx, *s), bv_tok(v));
                key.push_str(&t);
                txt.push_str(&format!("{t} {res})"));
            }
            Op::Step => {
                stats.bump("ops", "step");
                let r = guarded(|| sim.step());
                let res = if r.is_ok() {
                    "(ok)".to_string()
                } else {
                    crashed = true;
                    panic_result()
                };
                key.push_str(" s");
                txt.push_str(&format!(" (step {res})"));
            }
            Op::Get(e) => {
                stats.bump("ops", "get");
                // the dump reads the returned value through baa: keep it inside the guard
                let r = guarded(|| dump_value(&sim.get(*e)));
                let res = match &r {
                    Ok(v) => v.clone(),
                    Err(_) => {
                        crashed = true;
                        panic_result()
                    }
                };
                *got.last_mut().unwrap() = Some(res.clone());
                let t = format!(" (get {}", dump_expr(&ctx, *e));
                key.push_str(&t);
                txt.push_str(&format!("{t} {res})"));
            }
            Op::Count => {
                stats.bump("ops", "count");
                txt.push_str(&format!(" (count (num {}))", sim.step_count()));
                key.push_str(" c");
            }
            Op::Snapshot => {
                stats.bump("ops", "snapshot");
                let r = guarded(|| sim.take_snapshot());
                let res = match r {
                    Ok(i) => {
                        returned_ids.push(i);
                        format!("(num {i})")
                    }
                    Err(_) => {
                        crashed = true;
                        panic_result()
                    }
                };
                key.push_str(" p");
                txt.push_str(&format!(" (snapshot {res})"));
            }
            Op::Restore(k) => {
                stats.bump("ops", "restore");
                // a snapshot that was taken is restored through the id the implementation returned for it;
                // beyond that (ill-formed history) through an id that was never returned
                let id: u32 = match returned_ids.get(*k as usize) {
                    Some(id) => *id,
                    None => returned_ids.iter().copied().max().map(|m| m + 1).unwrap_or(0) + (*k - returned_ids.len() as u32),
                };
                let r = guarded(|| sim.restore_snapshot(id));
                let res = if r.is_ok() {
                    "(ok)".to_string()
                } else {
                    crashed = true;
                    panic_result()
                };
                key.push_str(&format!(" r{k}"));
                txt.push_str(&format!(" (restore {k} {id} {res})"));
            }
        }
        if crashed {
            stats.inc("histories_ending_in_panic");
            stats.bump("panic_at", &last_panic_loc());
            break;
        }
    }
    stats.add("ops_executed", executed as u64);
    // direct check of "the continuation behaves as it did the first time": same reads, pairwise
    let mut replay_txt = String::new();
    if let Some((start, n, start2)) = replay {
        let verdict = if executed == ops.len() && start2 + n == ops.len() {
            stats.inc("replays_completed");
            if (0..n).all(|k| got[start + k] == got[start2 + k]) { "same" } else { "differs" }
        } else {
            "incomplete"
        };
        stats.bump("replay_verdict", verdict);
        replay_txt = format!(" (replay {start} {n} {start2} {verdict})");
    }
    (format!("(case {id} {sys_txt} (ops{txt}){replay_txt})"), key)
}

/// `--probe 1`: what `Simulator::set` does outside its contract (the calls the model answers with
/// `Unmodelled`).  Prints to stdout; not part of any stream.  See REPORT-C07.md.
fn probe_misuse() {
    let show = |r: Result<String, String>| match r {
        Ok(s) => s,
        Err(m) => format!("panic: {m} @ {}", last_panic_loc()),
    };
    // P1: a value wider than the symbol spills into the next symbol's words
    {
        let mut ctx = Context::default();
        let a = ctx.bv_symbol("a", 8);
        let b = ctx.bv_symbol("b", 8);
        let mut sys = TransitionSystem::new("p1".to_string());
        sys.add_state(&ctx, State { symbol: a, init: None, next: None });
        sys.add_state(&ctx, State { symbol: b, init: None, next: None });
        let mut sim = Interpreter::new(&ctx, &sys);
        sim.init(InitKind::Zero);
        let v = BitVecValue::from_bit_str(&format!("1{}1", "0".repeat(68))).unwrap(); // 70 bits: 2^69 + 1
        let r = guarded(|| {
            sim.set(a, &v);
            format!("a={} b={}", dump_value(&sim.get(a)), dump_value(&sim.get(b)))
        });
        println!("P1 set(a:bv8, 70-bit value 2^69+1), b:bv8 untouched?  {}", show(r));
    }
    // P2: a wider value that fits the same number of words leaves a non-canonical value
    {
        let mut ctx = Context::default();
        let a = ctx.bv_symbol("a", 3);
        let seven = ctx.bv_lit(&BitVecValue::from_u64(7, 3));
        let eq7 = ctx.equal(a, seven);
        let mut sys = TransitionSystem::new("p2".to_string());
        sys.add_state(&ctx, State { symbol: a, init: None, next: None });
        let mut sim = Interpreter::new(&ctx, &sys);
        sim.init(InitKind::Zero);
        let v = BitVecValue::from_u64(0xff, 8);
        let r = guarded(|| {
            sim.set(a, &v);
            let x = sim.get(a);
            let raw = match &x {
                Value::BitVec(b) => format!("width {} words {:?}", b.width(), b.words()),
                _ => String::new(),
            };
            format!("a: {raw}; (a == 7) = {}", dump_value(&sim.get(eq7)))
        });
        println!("P2 set(a:bv3, 8-bit value 0xff)  {}", show(r));
    }
    // P3: the key of an array symbol is used as an index into the bit-vector words
    {
        let mut ctx = Context::default();
        let m = ctx.array_symbol("m", 2, 8);
        let a = ctx.bv_symbol("a", 8);
        let mut sys = TransitionSystem::new("p3".to_string());
        sys.add_state(&ctx, State { symbol: m, init: None, next: None });
        sys.add_state(&ctx, State { symbol: a, init: None, next: None });
        let mut sim = Interpreter::new(&ctx, &sys);
        sim.init(InitKind::Zero);
        let v = BitVecValue::from_u64(5, 8);
        let r = guarded(|| {
            sim.set(m, &v);
            format!("m={} a={}", dump_value(&sim.get(m)), dump_value(&sim.get(a)))
        });
        println!("P3 set(m:array, 8-bit value 5), a:bv8 untouched?  {}", show(r));
    }
}
