//! C15: solver faults surface as errors, never as verdicts or hangs.
//!
//! The real `SmtLibSolverCtx` starts the solver by NAME from PATH, so faults are injected from
//! outside the process: `solver-shim` (src/bin/solver-shim.rs) is installed as `z3`/`cvc5` in a
//! private directory that is first on the PATH of a WORKER process (this binary, `--worker 1`),
//! which runs the real `bmc`/`pdr` on one system and prints the outcome.  The parent enumerates
//! every response point of the fault-free conversation x every fault kind, runs one worker per
//! (point, fault) under a progress watchdog (a worker that makes no progress is killed and
//! reported as `hang`), and dumps one case per run:
//!
//! (case ID (engine bmc|pdr) (solver z3) (kmax K) (ind 0|1) (cc 0|1) (nbads n) (nstates n) (ninputs n) (nopts n)
//!       (point P|-1) (npoints N) (kind check-sat-assuming|get-value|..|none) (fault "kind") (reply "real reply")
//!       (lines "l1\n" ...)            everything the client could read during the run, split into lines
//!       (faultlines "..." ...)        the part written at the faulty point and after it
//!       (tail eof CODE "stderr" | alive)
//!       (nominal OUTCOME) (impl OUTCOME) (pre OUTCOME|none) (sys ...))
//! OUTCOME = (verdict success) | (verdict unknown) | (verdict fail K "witness digest")
//!         | (err io|stack-underflow|from-solver|solver-dead|unexpected|parser "name" "text")
//!         | (panic "file:line" "message") | (hang "why")
use crate::dump::*;
use crate::rng::Rng;
use crate::sexp::{Sexp, read_cases};
use crate::sysgen::*;
use crate::util::*;
use baa::{BitVecOps, Value};
use patronus::expr::*;
use patronus::mc::{InitValue, ModelCheckResult, bmc, pdr};
use patronus::smt::{CVC5, CheckSatResponse, Error, Logic, Solver, SolverContext, SolverMetaData, Z3};
use patronus::system::*;
use std::collections::BTreeMap;
use std::io::{Read, Write};
use std::process::{Command, Stdio};
use std::sync::Mutex;
use std::time::{Duration, Instant};

pub fn run(args: &Args) {
    if args.get("worker").is_some() {
        worker(args);
    } else {
        parent(args);
    }
}

// ------------------------------------------------------------------------------------------ worker

fn find_sys(c: &Sexp) -> &Sexp {
    c.list().iter().find(|x| matches!(x, Sexp::List(l) if matches!(l.first(), Some(Sexp::Atom(a)) if a == "sys"))).expect("(sys ...) field")
}

fn value_str(v: &Value) -> String {
    match v {
        Value::BitVec(b) => b.to_bit_str(),
        Value::Array(a) => format!("{a:?}"),
    }
}

fn outcome_str(r: &Result<ModelCheckResult, Error>) -> String {
    match r {
        Ok(ModelCheckResult::Success) => "(verdict success)".into(),
        Ok(ModelCheckResult::Unknown) => "(verdict unknown)".into(),
        Ok(ModelCheckResult::Fail(w)) => {
            let mut d = String::new();
            d.push_str(&format!("bad={:?};init=", w.failed_safety));
            for i in w.init.iter() {
                match i {
                    InitValue::BitVec(b) => d.push_str(&b.to_bit_str()),
                    InitValue::Array(a, _) => d.push_str(&format!("{a:?}")),
                    InitValue::None => d.push('-'),
                }
                d.push(',');
            }
            d.push_str(";in=");
            for step in w.inputs.iter() {
                for v in step.iter() {
                    match v {
                        Some(v) => d.push_str(&value_str(v)),
                        None => d.push('-'),
                    }
                    d.push(',');
                }
                d.push('|');
            }
            format!("(verdict fail {} {})", w.inputs.len() as i64 - 1, quote(&d))
        }
        Err(Error::Io(e)) => format!("(err io \"\" {})", quote(&format!("{:?}", e.kind()))),
        Err(Error::StackUnderflow) => "(err stack-underflow \"\" \"\")".into(),
        Err(Error::FromSolver(n, m)) => format!("(err from-solver {} {})", quote(n), quote(m)),
        Err(Error::SolverDead(n)) => format!("(err solver-dead {} \"\")", quote(n)),
        Err(Error::UnexpectedResponse(n, m)) => format!("(err unexpected {} {})", quote(n), quote(m)),
        Err(Error::Parser(e)) => format!("(err parser \"\" {})", quote(&format!("{e}"))),
    }
}

fn say(line: &str) {
    let o = std::io::stdout();
    let mut o = o.lock();
    let _ = writeln!(o, "{line}");
    let _ = o.flush();
}

/// A `SolverContext` that passes everything on to the real context and, at the n-th RESPONSE-BEARING call
/// (check_sat, check_sat_assuming, get_value, get_unsat_assumptions; same global numbering as the shim's response
/// points, continuing over restart()), replaces the result:
///   `unknown`: a check answers `Ok(CheckSatResponse::Unknown)` - what a context that reports `unknown` as a value
///              (the trait allows it, pdr.rs has explicit arms for it) would return;
///   `error`:   the call returns `Err(FromSolver(name, CTX_ERROR_TEXT))`.
/// The real call is made first, so the solver process stays in step with the conversation.
/// This is the observation level "Result returned by bmc/pdr when a SolverContext method misbehaves": the real
/// SmtLibSolverCtx turns the TEXT `unknown` into an error before bmc/pdr see it, so no byte-level fault reaches
/// the code that handles `Ok(Unknown)`.
pub const CTX_ERROR_TEXT: &str = "injected: solver context error";

struct FaultyCtx<S: SolverContext> {
    inner: S,
    calls: u64,
    at: Option<u64>,
    fault: String,
}

impl<S: SolverContext> FaultyCtx<S> {
    fn hit(&mut self) -> bool {
        let n = self.calls;
        self.calls += 1;
        self.at == Some(n)
    }
    fn err(&self) -> Error {
        Error::FromSolver(self.inner.name().to_string(), CTX_ERROR_TEXT.to_string())
    }
}

impl<S: SolverContext> SolverMetaData for FaultyCtx<S> {
    fn name(&self) -> &str {
        self.inner.name()
    }
    fn supports_check_assuming(&self) -> bool {
        self.inner.supports_check_assuming()
    }
    fn supports_uf(&self) -> bool {
        self.inner.supports_uf()
    }
    fn supports_const_array(&self) -> bool {
        self.inner.supports_const_array()
    }
    fn supports_get_unsat_assumptions(&self) -> bool {
        self.inner.supports_get_unsat_assumptions()
    }
}

impl<S: SolverContext> SolverContext for FaultyCtx<S> {
    fn restart(&mut self) -> patronus::smt::Result<()> {
        self.inner.restart()
    }
    fn set_logic(&mut self, option: Logic) -> patronus::smt::Result<()> {
        self.inner.set_logic(option)
    }
    fn assert(&mut self, ctx: &Context, e: ExprRef) -> patronus::smt::Result<()> {
        self.inner.assert(ctx, e)
    }
    fn declare_const(&mut self, ctx: &Context, symbol: ExprRef) -> patronus::smt::Result<()> {
        self.inner.declare_const(ctx, symbol)
    }
    fn define_const(&mut self, ctx: &Context, symbol: ExprRef, expr: ExprRef) -> patronus::smt::Result<()> {
        self.inner.define_const(ctx, symbol, expr)
    }
    fn check_sat_assuming(&mut self, ctx: &Context, props: impl IntoIterator<Item = ExprRef>) -> patronus::smt::Result<CheckSatResponse> {
        let hit = self.hit();
        let r = self.inner.check_sat_assuming(ctx, props);
        if !hit {
            return r;
        }
        match self.fault.as_str() {
            "unknown" => r.map(|_| CheckSatResponse::Unknown),
            _ => Err(self.err()),
        }
    }
    fn check_sat(&mut self) -> patronus::smt::Result<CheckSatResponse> {
        let hit = self.hit();
        let r = self.inner.check_sat();
        if !hit {
            return r;
        }
        match self.fault.as_str() {
            "unknown" => r.map(|_| CheckSatResponse::Unknown),
            _ => Err(self.err()),
        }
    }
    fn push(&mut self) -> patronus::smt::Result<()> {
        self.inner.push()
    }
    fn pop(&mut self) -> patronus::smt::Result<()> {
        self.inner.pop()
    }
    fn get_value(&mut self, ctx: &mut Context, e: ExprRef) -> patronus::smt::Result<ExprRef> {
        let hit = self.hit();
        let r = self.inner.get_value(ctx, e);
        if hit && self.fault != "unknown" { Err(self.err()) } else { r }
    }
    fn get_unsat_assumptions(&mut self, ctx: &mut Context) -> patronus::smt::Result<Vec<ExprRef>> {
        let hit = self.hit();
        let r = self.inner.get_unsat_assumptions(ctx);
        if hit && self.fault != "unknown" { Err(self.err()) } else { r }
    }
}

/// `verif-harness C15 --worker 1 --sys-file F --engine bmc|pdr|pdrnc --kmax K --ind 0|1 --cc 0|1 --solver z3|cvc5
///                [--ctx-at N --ctx-fault unknown|error]`      (pdrnc = pdr with unsat-core generalisation disabled)
fn worker(args: &Args) {
    let cases = read_cases(args.get("sys-file").expect("--sys-file"));
    let mut ctx = Context::default();
    let sys = build_sys(&mut ctx, find_sys(&cases[0]));
    let engine = args.get("engine").unwrap_or("bmc").to_string();
    let kmax = args.get_u64("kmax", 3);
    let ind = args.get_u64("ind", 0) != 0;
    let cc = args.get_u64("cc", 0) != 0;
    let solver = if args.get("solver") == Some("cvc5") { CVC5 } else { Z3 };
    let ctx_at = args.get("ctx-at").map(|v| v.parse::<u64>().expect("ctx-at"));
    let ctx_fault = args.get("ctx-fault").unwrap_or("").to_string();
    let r = guarded(|| {
        let inner = match solver.start(None) {
            Ok(s) => s,
            Err(e) => return format!("(start-failed {})", quote(&format!("{e}"))),
        };
        // always through the wrapper (transparent when no --ctx-at is given)
        let mut smt = FaultyCtx { inner, calls: 0, at: ctx_at, fault: ctx_fault.clone() };
        let r = match engine.as_str() {
            "pdr" => pdr(&mut ctx, &mut smt, &sys, false),
            "pdrnc" => pdr(&mut ctx, &mut smt, &sys, true),
            _ => bmc(&mut ctx, &mut smt, &sys, cc, ind, kmax),
        };
        let s = outcome_str(&r);
        say(&format!("(pre {s})"));
        drop(smt); // Drop talks to the solver once more: part of the session
        s
    });
    match r {
        Ok(s) => say(&format!("(final {s})")),
        Err(msg) => say(&format!("(final (panic {} {}))", quote(&last_panic_loc()), quote(&msg))),
    }
}

// ------------------------------------------------------------------------------------------ shim log

#[derive(Clone, Debug, Default)]
struct ShimLog {
    /// (global index, kind, real reply, commands received by the instance so far)
    points: Vec<(u64, String, Vec<u8>, u64)>,
    /// per point: the instance (0-based) it belongs to
    point_instance: Vec<usize>,
    /// per instance: command lines received in total, `(exit)` not counted (0 if it did not end normally)
    instance_total: Vec<u64>,
    /// every byte the client could read, in order
    out: Vec<u8>,
    /// bytes written at the faulty point and after it (same instance)
    fault_out: Vec<u8>,
    /// the shim terminated itself: (status, stderr text)
    exit: Option<(i32, String)>,
    instances: u64,
    /// how often a real solver process was started (0 = all replies came from the recorded fault-free run)
    live_starts: u64,
    fault_seen: bool,
}

fn unesc(s: &str) -> Vec<u8> {
    let b = s.as_bytes();
    let mut o = vec![];
    let mut i = 0;
    while i < b.len() {
        if b[i] == b'\\' && i + 1 < b.len() {
            match b[i + 1] {
                b'n' => o.push(b'\n'),
                b'r' => o.push(b'\r'),
                b't' => o.push(b'\t'),
                b'\\' => o.push(b'\\'),
                b'x' => {
                    o.push(u8::from_str_radix(std::str::from_utf8(&b[i + 2..i + 4]).unwrap(), 16).unwrap());
                    i += 2;
                }
                c => o.push(c),
            }
            i += 2;
        } else {
            o.push(b[i]);
            i += 1;
        }
    }
    o
}

fn parse_log(path: &str) -> ShimLog {
    let mut l = ShimLog::default();
    let txt = std::fs::read_to_string(path).unwrap_or_default();
    for line in txt.lines() {
        let (tag, rest) = line.split_at(line.len().min(2));
        match tag {
            "S " => {
                l.instances += 1;
                l.instance_total.push(0);
            }
            "E " => {
                if let Some(t) = l.instance_total.last_mut() {
                    *t = rest.trim().parse().unwrap_or(0);
                }
            }
            "P " => {
                let mut it = rest.splitn(5, ' ');
                let idx: u64 = it.next().unwrap_or("0").parse().unwrap_or(0);
                let kind = it.next().unwrap_or("").to_string();
                let ncmds: u64 = it.next().unwrap_or("0").parse().unwrap_or(0);
                let _hash = it.next();
                let reply = unesc(it.next().unwrap_or(""));
                l.points.push((idx, kind, reply, ncmds));
                l.point_instance.push(l.instances.saturating_sub(1) as usize);
            }
            "F " => l.fault_seen = true,
            "L" => l.live_starts += 1,
            "O " => {
                let b = unesc(rest);
                if l.fault_seen {
                    l.fault_out.extend(&b);
                }
                l.out.extend(b);
            }
            "X " => {
                let mut it = rest.splitn(2, ' ');
                let code: i32 = it.next().unwrap_or("0").parse().unwrap_or(0);
                l.exit = Some((code, String::from_utf8_lossy(&unesc(it.next().unwrap_or(""))).into_owned()));
            }
            _ => {}
        }
    }
    l
}

fn split_lines(b: &[u8]) -> Vec<Vec<u8>> {
    let mut out = vec![];
    let mut cur = vec![];
    for &c in b {
        cur.push(c);
        if c == b'\n' {
            out.push(std::mem::take(&mut cur));
        }
    }
    if !cur.is_empty() {
        out.push(cur);
    }
    out
}

fn quote_bytes(b: &[u8]) -> String {
    let mut out = String::from("\"");
    for &c in b {
        match c {
            b'"' => out.push_str("\\\""),
            b'\\' => out.push_str("\\\\"),
            b'\n' => out.push_str("\\n"),
            b'\t' => out.push_str("\\t"),
            b'\r' => out.push_str("\\r"),
            c if c < 32 || c > 126 => out.push_str(&format!("\\x{:02x}", c)),
            c => out.push(c as char),
        }
    }
    out.push('"');
    out
}

// ------------------------------------------------------------------------------------------ one run

#[derive(Clone)]
struct Setup {
    exe: String,
    shim_dir: String,
    tmp: String,
    solver: String,
    real: String,
    stall_ms: u64,
    spin_ms: u64,
    max_ms: u64,
}

#[derive(Clone)]
struct Job {
    sys_file: String,
    engine: String,
    kmax: u64,
    ind: bool,
    cc: bool,
    at: Option<u64>,
    fault: String,
    /// context-level fault (FaultyCtx in the worker): response-bearing call index and kind
    ctx_at: Option<u64>,
    ctx_fault: String,
    tag: String,
    /// log of the fault-free run whose replies may be reused (None = always a live solver)
    replay: Option<String>,
    keep_log: bool,
}

#[derive(Clone, Default)]
struct Outcome {
    fin: String,
    pre: String,
    log: ShimLog,
    wall_ms: u64,
    retried: Option<String>,
}

fn run_job_once(st: &Setup, j: &Job) -> Outcome {
    let log_path = format!("{}/{}.log", st.tmp, j.tag);
    let _ = std::fs::remove_file(&log_path);
    let path = format!("{}:{}", st.shim_dir, std::env::var("PATH").unwrap_or_default());
    let mut cmd = Command::new(&st.exe);
    cmd.args(["C15", "--worker", "1", "--sys-file", &j.sys_file, "--engine", &j.engine, "--kmax", &j.kmax.to_string()])
        .args(["--ind", if j.ind { "1" } else { "0" }, "--cc", if j.cc { "1" } else { "0" }, "--solver", &st.solver])
        .env("PATH", path)
        .env("SHIM_REAL", &st.real)
        .env("SHIM_LOG", &log_path)
        .env("RUST_BACKTRACE", "0")
        .env_remove("SHIM_AT")
        .env_remove("SHIM_FAULT")
        .stdin(Stdio::null())
        .stdout(Stdio::piped())
        .stderr(Stdio::null());
    cmd.env_remove("SHIM_REPLAY");
    if let Some(at) = j.at {
        cmd.env("SHIM_AT", at.to_string()).env("SHIM_FAULT", &j.fault);
    }
    if let Some(at) = j.ctx_at {
        cmd.args(["--ctx-at", &at.to_string(), "--ctx-fault", &j.ctx_fault]);
    }
    if let Some(r) = &j.replay {
        cmd.env("SHIM_REPLAY", r);
    }
    let t0 = Instant::now();
    let mut child = cmd.spawn().expect("spawn worker");
    let pid = child.id();
    let mut last_size = 0u64;
    let mut last_progress = Instant::now();
    let mut last_sample = Instant::now();
    let mut last_tree_cpu = 0u64;
    let mut seen_pids: std::collections::HashSet<u32> = std::collections::HashSet::new();
    let mut shim_exit_seen: Option<u64> = None; // worker CPU (ms) when the shim was first seen to have terminated itself
    let mut hang: Option<String> = None;
    loop {
        match child.try_wait() {
            Ok(Some(_)) => break,
            Ok(None) => {}
            Err(_) => break,
        }
        let size = std::fs::metadata(&log_path).map(|m| m.len()).unwrap_or(0);
        if size != last_size {
            last_size = size;
            last_progress = Instant::now();
            if shim_exit_seen.is_none() && std::fs::read_to_string(&log_path).map(|t| t.lines().any(|l| l.starts_with("X "))).unwrap_or(false) {
                shim_exit_seen = Some(proc_cpu_ms(pid));
            }
        }
        // (a) the solver is gone and the worker keeps burning CPU: nothing is left to wait for
        if let Some(c0) = shim_exit_seen {
            let used = proc_cpu_ms(pid).saturating_sub(c0);
            if used >= st.spin_ms {
                hang = Some(format!("spinning: {} ms of CPU after the solver process had exited", st.spin_ms));
            }
        }
        // (b) nobody makes progress: no new reply, and every process of the tree (worker, shim, solver)
        // has been asleep - not running, not runnable, not in the kernel - at every sample of the window.
        // (A starved but runnable process shows up as R: heavy load on the machine is not a hang.)
        if hang.is_none() && last_sample.elapsed() > Duration::from_millis(40) {
            last_sample = Instant::now();
            let (busy, cpu) = tree_activity(pid, &mut seen_pids);
            if busy || cpu != last_tree_cpu {
                last_progress = Instant::now();
            }
            last_tree_cpu = cpu;
        }
        if hang.is_none() && last_progress.elapsed() > Duration::from_millis(st.stall_ms) {
            if emitter_pending(&seen_pids) {
                // the shim's emitter (re-parented, hence outside the tree) has not delivered yet
                last_progress = Instant::now();
            } else {
                hang = Some(format!("blocked: no reply, every process asleep and no CPU used for {} ms; {}", st.stall_ms, tree_description(pid)));
            }
        }
        if hang.is_none() && t0.elapsed() > Duration::from_millis(st.max_ms) {
            hang = Some(format!("still running after {} ms", st.max_ms));
        }
        if hang.is_some() {
            let _ = child.kill();
            let _ = child.wait();
            break;
        }
        std::thread::sleep(Duration::from_millis(4));
    }
    let mut text = String::new();
    if let Some(mut o) = child.stdout.take() {
        let mut buf = vec![];
        let _ = o.read_to_end(&mut buf);
        text = String::from_utf8_lossy(&buf).into_owned();
    }
    let mut out = Outcome { wall_ms: t0.elapsed().as_millis() as u64, ..Default::default() };
    for l in text.lines() {
        if let Some(r) = l.strip_prefix("(pre ") {
            out.pre = r[..r.len() - 1].to_string();
        } else if let Some(r) = l.strip_prefix("(final ") {
            out.fin = r[..r.len() - 1].to_string();
        }
    }
    // give the shim a moment to finish its log (it exits when its stdin closes)
    std::thread::sleep(Duration::from_millis(2));
    out.log = parse_log(&log_path);
    if let Some(why) = hang {
        out.fin = format!("(hang {})", quote(&why));
    } else if out.fin.is_empty() {
        out.fin = format!("(crash {})", quote(text.trim()));
    }
    if out.pre.is_empty() {
        out.pre = "none".into();
    }
    if !j.keep_log {
        let _ = std::fs::remove_file(&log_path);
    }
    out
}

/// A run that ends as a hang (blocked, spinning or over the time limit) is repeated up to two more times: a
/// genuine hang is deterministic and hangs every time; anything else was a scheduling/accounting accident of
/// a loaded machine and the first non-hanging outcome is taken (the first verdict is kept in `retried`).
fn run_job(st: &Setup, j: &Job) -> Outcome {
    let first = run_job_once(st, j);
    if !first.fin.starts_with("(hang") {
        return first;
    }
    let mut wall = first.wall_ms;
    let mut last = first.clone();
    for _ in 0..2 {
        let mut next = run_job_once(st, j);
        wall += next.wall_ms;
        next.retried = Some(first.fin.clone());
        next.wall_ms = wall;
        if !next.fin.starts_with("(hang") {
            return next;
        }
        last = next;
    }
    last
}

// ------------------------------------------------------------------------------------------ systems

struct SysCase {
    name: String,
    dump: String,
    n_bads: usize,
    n_states: usize,
    n_inputs: usize,
    has_array: bool,
    kmax: u64,
    ind: bool,
    cc: bool,
}

fn describe(ctx: &Context, sys: &TransitionSystem, name: &str, kmax: u64, ind: bool, cc: bool) -> SysCase {
    SysCase {
        name: name.to_string(),
        dump: dump_sys(ctx, sys),
        n_bads: sys.bad_states.len(),
        n_states: sys.states.len(),
        n_inputs: sys.inputs.len(),
        has_array: sys.states.iter().any(|s| s.symbol.get_type(ctx).is_array()) || sys.inputs.iter().any(|s| s.get_type(ctx).is_array()),
        kmax,
        ind,
        cc,
    }
}

/// hand-written systems that are always part of the run
fn builtin(k: u64) -> Option<SysCase> {
    let mut ctx = Context::default();
    let mut sys = TransitionSystem::new("builtin".to_string());
    match k {
        0 => {
            // 3-bit counter with enable input, bad when it reaches 2: fails at step 2
            let c = ctx.bv_symbol("c", 3);
            let en = ctx.bv_symbol("en", 1);
            sys.add_input(&ctx, en);
            let one = ctx.bit_vec_val(1, 3);
            let inc = ctx.add(c, one);
            let next = ctx.ite(en, inc, c);
            let zero = ctx.bit_vec_val(0, 3);
            sys.add_state(&ctx, State { symbol: c, init: Some(zero), next: Some(next) });
            let two = ctx.bit_vec_val(2, 3);
            let bad = ctx.equal(c, two);
            sys.bad_states.push(bad);
            Some(describe(&ctx, &sys, "counter-fails-at-2", 3, false, false))
        }
        1 => {
            // two states, two bad predicates checked individually, constraint checked; safe
            let a = ctx.bv_symbol("a", 2);
            let b = ctx.bv_symbol("b", 2);
            let i = ctx.bv_symbol("i", 2);
            sys.add_input(&ctx, i);
            let zero = ctx.bit_vec_val(0, 2);
            let na = ctx.and(a, i);
            let nb = ctx.or(b, na);
            sys.add_state(&ctx, State { symbol: a, init: Some(zero), next: Some(na) });
            sys.add_state(&ctx, State { symbol: b, init: Some(zero), next: Some(nb) });
            let three = ctx.bit_vec_val(3, 2);
            let bad0 = ctx.equal(a, three);
            let bad1 = ctx.equal(b, three);
            sys.bad_states.push(bad0);
            sys.bad_states.push(bad1);
            let three_i = ctx.bit_vec_val(3, 2);
            let ne = ctx.equal(i, three_i);
            let c = ctx.not(ne);
            sys.constraints.push(c);
            Some(describe(&ctx, &sys, "safe-two-bads-individually-cc", 2, true, true))
        }
        2 => {
            // 1-bit state (init 0) that copies the input `trigger`; bad when the state is 1: fails at step 1
            // (the unsafe system of the seeded-change demo C15-m3)
            let st = ctx.bv_symbol("st", 1);
            let trigger = ctx.bv_symbol("trigger", 1);
            sys.add_input(&ctx, trigger);
            let zero = ctx.bit_vec_val(0, 1);
            sys.add_state(&ctx, State { symbol: st, init: Some(zero), next: Some(trigger) });
            sys.bad_states.push(st);
            Some(describe(&ctx, &sys, "trigger-bad", 2, false, false))
        }
        3 => {
            // 2-bit free-running counter, bad exactly when it is 3: reachable at step 3 and at no other step <= k_max.
            // (A client that takes an `unknown` answer at step 3 for "not sat" ends with Success.)
            let c = ctx.bv_symbol("n", 2);
            let one = ctx.bit_vec_val(1, 2);
            let inc = ctx.add(c, one);
            let zero = ctx.bit_vec_val(0, 2);
            sys.add_state(&ctx, State { symbol: c, init: Some(zero), next: Some(inc) });
            let three = ctx.bit_vec_val(3, 2);
            let bad = ctx.equal(c, three);
            sys.bad_states.push(bad);
            Some(describe(&ctx, &sys, "counter-bad-exactly-at-3", 3, false, false))
        }
        _ => None,
    }
}

const N_BUILTIN: usize = 4;

fn gen_system(rng: &mut Rng, idx: u64) -> SysCase {
    let mut ctx = Context::default();
    let cfg = SysCfg {
        max_bv_states: 2,
        max_inputs: 2,
        array_state_chance: (1, 6),
        widths: vec![1, 1, 2, 3],
        max_depth: 2,
        max_bads: 2,
        max_constraints: 1,
        max_outputs: 0,
        arrays_in_exprs: true,
        init_reads_earlier: true,
        div_rem: false,
        anon_inputs: false,
    };
    let sys = gen_sys(&mut ctx, rng, &cfg);
    let kmax = rng.range(1, 3);
    let ind = rng.chance(1, 3);
    let cc = rng.chance(1, 4);
    describe(&ctx, &sys, &format!("gen{idx}"), kmax, ind, cc)
}

// ------------------------------------------------------------------------------------------ faults

/// The fault kinds.  PRIMARY kinds (the list of the property: error replies of the critical lengths,
/// unknown, empty, unbalanced reply then exit, exit 0/1, garbage, split reply) are injected at EVERY
/// response point; SECONDARY kinds (variations) at every point in the thorough tier and at one point
/// per point kind (rotating) in the quick tier.
fn fault_kinds(tier: &str) -> (Vec<String>, Vec<String>) {
    let mut prim: Vec<String> = vec![];
    for n in [0, 1, 5, 6, 7, 8, 20, 200] {
        prim.push(format!("error:{n}"));
    }
    for s in ["unknown", "empty", "truncopen:0", "exit0", "exit1", "garbage:0", "split"] {
        prim.push(s.to_string());
    }
    let mut sec: Vec<String> = vec![];
    for s in [
        "truncopen:1", "truncopennl", "trunchalf", "exit1quiet", "garbage:1", "garbage:2", "garbage:3", "garbage:4", "garbage:5", "garbage:6", "garbage:7",
        "garbage:8", "garbage:9", "garbage:10", "garbage:11", "garbage:12", "pad", "replyexit0", "replyexit1", "errorexit:20", "unknowntrunc", "errormultiline",
        // message with quotes inside; z3's real duplicate-definition message; a 2-byte character that the slice cuts in half
        "errortext:named \"x\" already defined", "errortext:line 9 column 54: named expression already defined", "errortext:a\u{e9}bcdef",
        // a message containing an opening parenthesis: count_parens does not know about string literals
        "errortext:unexpected token, '(' expected",
    ] {
        sec.push(s.to_string());
    }
    if tier == "thorough" {
        for n in [2, 4, 9, 16, 1000] {
            sec.push(format!("error:{n}"));
        }
        sec.push("errorexit:3".into());
        sec.push("errortext:)".into());
        sec.push("errortext:\"".into());
    }
    (prim, sec)
}

fn class_of(outcome: &str) -> String {
    let x = Sexp::parse(outcome).ok();
    match x {
        Some(Sexp::List(l)) if !l.is_empty() => {
            let h = l[0].atom().to_string();
            if (h == "err" || h == "verdict") && l.len() > 1 { format!("{h}:{}", l[1].atom()) } else { h }
        }
        _ => "?".into(),
    }
}

// ------------------------------------------------------------------------------------------ parent

struct Plan {
    sys_idx: usize,
    engine: String,
    nominal: Outcome,
    jobs: Vec<(Job, u64, String, Vec<u8>)>, // job, point, kind, real reply
}

fn case_line(id: &str, sc: &SysCase, st: &Setup, engine: &str, point: i64, npoints: usize, kind: &str, fault: &str, reply: &[u8], nominal: &Outcome, o: &Outcome) -> String {
    let mut s = format!(
        "(case {id} (engine {engine}) (solver {}) (kmax {}) (ind {}) (cc {}) (nbads {}) (nstates {}) (ninputs {}) (nopts 1) (point {point}) (npoints {npoints}) (kind {kind}) (fault {}) (reply {})",
        st.solver,
        sc.kmax,
        sc.ind as u8,
        sc.cc as u8,
        sc.n_bads,
        sc.n_states,
        sc.n_inputs,
        quote(fault),
        quote_bytes(reply)
    );
    s.push_str(" (cmds");
    for p in nominal.log.points.iter() {
        s.push_str(&format!(" {}", p.3));
    }
    // commands the fault-free conversation still sends after this point (same solver instance)
    let after = if point >= 0 {
        let p = point as usize;
        match (nominal.log.points.get(p), nominal.log.point_instance.get(p)) {
            (Some(pt), Some(inst)) => nominal.log.instance_total.get(*inst).copied().unwrap_or(0).saturating_sub(pt.3),
            _ => 0,
        }
    } else {
        0
    };
    s.push_str(&format!(") (after {after}) (totals"));
    for t in nominal.log.instance_total.iter() {
        s.push_str(&format!(" {t}"));
    }
    s.push_str(") (lines");
    for l in split_lines(&o.log.out) {
        s.push(' ');
        s.push_str(&quote_bytes(&l));
    }
    s.push_str(") (faultlines");
    for l in split_lines(&o.log.fault_out) {
        s.push(' ');
        s.push_str(&quote_bytes(&l));
    }
    s.push(')');
    match &o.log.exit {
        Some((code, text)) => s.push_str(&format!(" (tail eof {code} {})", quote(text))),
        None => s.push_str(" (tail alive)"),
    }
    s.push_str(&format!(" (live {}) (instances {}) (nominal {}) (impl {}) (pre {}) (wallms {}) {})", o.log.live_starts, o.log.instances, nominal.fin, o.fin, o.pre, o.wall_ms, sc.dump));
    s
}

fn parent(args: &Args) {
    let mut rng = Rng::new(args.seed);
    let mut stats = Stats::default();
    let tier = args.tier.clone();
    let solver = args.get("solver").unwrap_or("z3").to_string();
    let real = match solver.as_str() {
        "cvc5" => which("cvc5"),
        _ => which("z3"),
    };
    let exe = std::env::current_exe().expect("current_exe");
    let shim_exe = exe.parent().unwrap().join("solver-shim");
    if !shim_exe.exists() {
        eprintln!("C15: {} not built", shim_exe.display());
        std::process::exit(2);
    }
    let base = std::path::Path::new(&args.out).parent().map(|p| p.to_path_buf()).filter(|p| !p.as_os_str().is_empty()).unwrap_or_else(|| std::path::PathBuf::from("."));
    let base = std::fs::canonicalize(&base).unwrap_or(base);
    let stem = std::path::Path::new(&args.out).file_name().unwrap().to_string_lossy().to_string();
    let tmp = base.join(format!("{stem}.tmp"));
    let _ = std::fs::remove_dir_all(&tmp);
    std::fs::create_dir_all(tmp.join("bin")).expect("tmp dir");
    let link = tmp.join("bin").join(&solver);
    std::fs::copy(&shim_exe, &link).expect("install shim");
    let st = Setup {
        exe: exe.to_string_lossy().into_owned(),
        shim_dir: tmp.join("bin").to_string_lossy().into_owned(),
        tmp: tmp.to_string_lossy().into_owned(),
        solver: solver.clone(),
        real,
        stall_ms: args.get_u64("stall-ms", 3000),
        spin_ms: args.get_u64("spin-ms", 400),
        max_ms: args.get_u64("max-ms", 120000),
    };
    let jobs_n = args.get_u64("jobs", 8) as usize;
    let engines: Vec<String> = args.get("engines").unwrap_or("bmc,pdr,pdrnc").split(',').map(|s| s.to_string()).collect();
    let pdr_cap = args.get_u64("pdr-cap", 24) as usize;
    let full_limit = args.get_u64("full-limit", 40) as usize;
    let only_fault = args.get("fault").map(|s| s.to_string());
    let (faults, faults2) = match &only_fault {
        Some(f) => (vec![f.clone()], vec![]),
        None => fault_kinds(&tier),
    };
    let live_every = args.get_u64("live-every", 20);
    // where the secondary kinds go: "all" = every point, "rotate" = one point per point kind; per engine
    let sec_default = if tier == "thorough" { "all" } else { "rotate" };
    let sec_bmc = args.get("secondary-bmc").or(args.get("secondary")).unwrap_or(sec_default).to_string();
    let sec_pdr = args.get("secondary-pdr").or(args.get("secondary")).unwrap_or("rotate").to_string();

    let mut out = std::io::BufWriter::new(std::fs::File::create(&args.out).expect("out file"));
    let mut distinct = std::collections::HashSet::new();

    // ---- replay: re-run exactly the (system, engine, point, fault) of dumped cases
    if let Some(path) = args.get("cases-in") {
        for (n, c) in read_cases(path).iter().enumerate() {
            let f = |k: &str| c.field(k).map(|v| v[0].atom().to_string()).unwrap_or_default();
            let dump = sexp_to_string(find_sys(c));
            let sys_file = format!("{}/replay{n}.sys", st.tmp);
            std::fs::write(&sys_file, format!("(case r {dump})\n")).unwrap();
            let sc = SysCase {
                name: "replay".into(),
                dump,
                n_bads: f("nbads").parse().unwrap_or(0),
                n_states: f("nstates").parse().unwrap_or(0),
                n_inputs: f("ninputs").parse().unwrap_or(0),
                has_array: false,
                kmax: f("kmax").parse().unwrap_or(3),
                ind: f("ind") == "1",
                cc: f("cc") == "1",
            };
            let engine = f("engine");
            let point: i64 = f("point").parse().unwrap_or(-1);
            let fault = f("fault");
            let base_job = Job { sys_file: sys_file.clone(), engine: engine.clone(), kmax: sc.kmax, ind: sc.ind, cc: sc.cc, at: None, fault: String::new(), ctx_at: None, ctx_fault: String::new(), tag: format!("replay{n}n"), replay: None, keep_log: true };
            let nominal = run_job(&st, &base_job);
            let id = c.list()[1].atom().to_string();
            let line = if point < 0 {
                case_line(&id, &sc, &st, &engine, -1, nominal.log.points.len(), "none", "none", b"", &nominal, &nominal)
            } else {
                let j = match fault.strip_prefix("ctx-") {
                    Some(k) => Job { at: None, fault: fault.clone(), ctx_at: Some(point as u64), ctx_fault: k.to_string(), tag: format!("replay{n}f"), replay: None, keep_log: false, ..base_job.clone() },
                    None => Job { at: Some(point as u64), fault: fault.clone(), tag: format!("replay{n}f"), replay: None, keep_log: false, ..base_job.clone() },
                };
                let o = run_job(&st, &j);
                let (kind, reply) = nominal.log.points.get(point as usize).map(|p| (p.1.clone(), p.2.clone())).unwrap_or_default();
                case_line(&id, &sc, &st, &engine, point, nominal.log.points.len(), &kind, &fault, &reply, &nominal, &o)
            };
            stats.bump("outcome-class", &class_of(&f_impl(&line)));
            distinct.insert(line.clone());
            stats.sample(&line, 3);
            writeln!(out, "{line}").unwrap();
        }
    }

    // ---- systems
    let mut systems: Vec<SysCase> = vec![];
    let n_sys = args.count as usize;
    let mut b = 0;
    while systems.len() < n_sys.min(N_BUILTIN) {
        match builtin(b) {
            Some(s) => systems.push(s),
            None => break,
        }
        b += 1;
    }
    let mut gi = 0u64;
    while systems.len() < n_sys {
        let mut r = rng.fork();
        systems.push(gen_system(&mut r, gi));
        gi += 1;
    }

    // ---- nominal runs and the plan
    let mut plans: Vec<Plan> = vec![];
    let mut sys_files = vec![];
    for (si, sc) in systems.iter().enumerate() {
        let sys_file = format!("{}/s{si}.sys", st.tmp);
        std::fs::write(&sys_file, format!("(case s{si} {})\n", sc.dump)).unwrap();
        sys_files.push(sys_file.clone());
        stats.bump("system", &format!("states={} inputs={} bads={} array={} kmax={} ind={} cc={}", sc.n_states, sc.n_inputs, sc.n_bads, sc.has_array, sc.kmax, sc.ind as u8, sc.cc as u8));
        for engine in engines.iter() {
            let is_pdr = engine.starts_with("pdr");
            let is_builtin = si < N_BUILTIN.min(n_sys);
            if is_pdr && sc.has_array {
                stats.bump("pdr-skipped", "array state (todo! in pdr.rs)");
                continue;
            }
            if engine == "pdrnc" && !is_builtin {
                continue; // the second generalisation mode only on the hand-written systems
            }
            let base_job = Job { sys_file: sys_file.clone(), engine: engine.clone(), kmax: sc.kmax, ind: sc.ind, cc: sc.cc, at: None, fault: String::new(), ctx_at: None, ctx_fault: String::new(), tag: format!("s{si}.{engine}.nominal"), replay: None, keep_log: true };
            let nominal = run_job(&st, &base_job);
            stats.bump(&format!("nominal-{engine}"), &class_of(&nominal.fin));
            let pts = nominal.log.points.clone();
            stats.bump(&format!("points-per-run-{engine}"), &bucket(pts.len()));
            if is_pdr && (class_of(&nominal.fin) == "hang" || class_of(&nominal.fin) == "panic") {
                // PDR itself does not finish on this system: nothing to enumerate, still reported as a case
                stats.bump("pdr-skipped", "nominal run does not finish");
            }
            // which points get the whole primary list
            let mut chosen: Vec<usize> = (0..pts.len()).collect();
            if is_pdr && pts.len() > pdr_cap {
                // the first and last points, every get-unsat-assumptions/get-value kind represented, the rest sampled
                let mut keep = std::collections::BTreeSet::new();
                keep.insert(0);
                keep.insert(pts.len() - 1);
                for kind in ["check-sat-assuming", "get-value", "get-unsat-assumptions"] {
                    let of_kind: Vec<usize> = (0..pts.len()).filter(|i| pts[*i].1 == kind).collect();
                    if !of_kind.is_empty() && keep.len() < pdr_cap {
                        keep.insert(*rng.pick(&of_kind));
                    }
                }
                // points after a solver restart (the BMC run that builds the witness) are represented too
                let second: Vec<usize> = (0..pts.len()).filter(|i| nominal.log.point_instance.get(*i).copied().unwrap_or(0) > 0).collect();
                if !second.is_empty() && keep.len() < pdr_cap {
                    keep.insert(*rng.pick(&second));
                }
                while keep.len() < pdr_cap.min(pts.len()) {
                    keep.insert(rng.below(pts.len() as u64) as usize);
                }
                chosen = keep.into_iter().collect();
                stats.add("pdr-points-sampled-out-for-the-other-kinds", (pts.len() - chosen.len()) as u64);
            }
            if engine == "pdrnc" {
                chosen.clear(); // second mode: only the kinds that go to every point
            }
            // The kinds that go to EVERY response point of the conversation, whatever its length (PDR: the hand-written
            // systems always, generated ones up to `full_limit` points): byte-level unknown / error / garbage, and the
            // context-level faults (a check answers Ok(Unknown); a call returns Err).
            let everywhere: Vec<String> = if only_fault.is_some() {
                vec![]
            } else if engine == "pdr" && (si < 3 || tier == "thorough") {
                vec!["unknown".into(), "error:20".into(), "garbage:0".into(), "ctx-unknown".into(), "ctx-error".into()]
            } else if is_pdr {
                vec!["unknown".into(), "ctx-unknown".into(), "ctx-error".into()]
            } else {
                vec!["ctx-unknown".into(), "ctx-error".into()]
            };
            let full = !is_pdr || (is_builtin && engine == "pdr") || pts.len() <= full_limit;
            let mut jobs = vec![];
            let secondary_everywhere = (if is_pdr { &sec_pdr } else { &sec_bmc }) == "all";
            if class_of(&nominal.fin) != "hang" {
                let nominal_log = format!("{}/s{si}.{engine}.nominal.log", st.tmp);
                let mut done: std::collections::HashSet<(usize, String)> = std::collections::HashSet::new();
                let mut push = |p: usize, f: &String| {
                    if !done.insert((p, f.clone())) {
                        return;
                    }
                    let is_check = pts[p].1.starts_with("check-sat");
                    if f == "ctx-unknown" && !is_check {
                        return; // only a check can answer `unknown`
                    }
                    // unique per (point, fault): two fault names may sanitize to the same text
                    let tag = format!("s{si}.{engine}.p{p}.{}.{:x}", sanitize(f), f.bytes().fold(0u32, |h, b| h.wrapping_mul(31).wrapping_add(b as u32)) & 0xffff);
                    // every `live_every`-th job talks to a live solver all the way, the others reuse the recorded replies
                    let live = live_every > 0 && (jobs.len() as u64) % live_every == 0;
                    let replay = if live { None } else { Some(nominal_log.clone()) };
                    let job = match f.strip_prefix("ctx-") {
                        Some(k) => Job { at: None, fault: f.clone(), ctx_at: Some(pts[p].0), ctx_fault: k.to_string(), tag, replay, keep_log: false, ..base_job.clone() },
                        None => Job { at: Some(pts[p].0), fault: f.clone(), tag, replay, keep_log: false, ..base_job.clone() },
                    };
                    jobs.push((job, pts[p].0, pts[p].1.clone(), pts[p].2.clone()));
                };
                if full {
                    for p in 0..pts.len() {
                        for f in everywhere.iter() {
                            push(p, f);
                        }
                    }
                    if is_pdr {
                        let checks = pts.iter().filter(|x| x.1.starts_with("check-sat")).count();
                        stats.add("pdr-points-fully-enumerated", pts.len() as u64);
                        stats.add("pdr-check-points-answered-unknown-by-the-context", checks as u64);
                        stats.bump("pdr-full-enumeration", &format!("s{si} {} {engine} nominal={}: all {} points ({} checks) x {}", sc.name, class_of(&nominal.fin), pts.len(), checks, everywhere.join(",")));
                    }
                } else if is_pdr {
                    stats.add("pdr-points-not-fully-enumerated", pts.len() as u64);
                    for &p in chosen.iter() {
                        for f in everywhere.iter() {
                            push(p, f);
                        }
                    }
                }
                for &p in chosen.iter() {
                    for f in faults.iter() {
                        push(p, f);
                    }
                    if secondary_everywhere {
                        for f in faults2.iter() {
                            push(p, f);
                        }
                    }
                }
                if !secondary_everywhere {
                    // quick tier: the k-th secondary kind goes to ONE point of each point kind of this engine,
                    // rotating over the systems (system k mod n) and over the points of that kind
                    for kind in ["check-sat", "check-sat-assuming", "get-value", "get-unsat-assumptions"] {
                        let group: Vec<usize> = chosen.iter().copied().filter(|p| pts[*p].1 == kind).collect();
                        if group.is_empty() {
                            continue;
                        }
                        for (k, f) in faults2.iter().enumerate() {
                            if k % n_sys.max(1) == si % n_sys.max(1) {
                                push(group[(k / n_sys.max(1) + si) % group.len()], f);
                            }
                        }
                    }
                }
            }
            plans.push(Plan { sys_idx: si, engine: engine.clone(), nominal, jobs });
        }
    }

    // ---- run everything, `jobs_n` workers at a time
    let all: Vec<(usize, usize)> = plans.iter().enumerate().flat_map(|(pi, p)| (0..p.jobs.len()).map(move |ji| (pi, ji))).collect();
    let results: Mutex<BTreeMap<(usize, usize), Outcome>> = Mutex::new(BTreeMap::new());
    let next = Mutex::new(0usize);
    std::thread::scope(|s| {
        for _ in 0..jobs_n.max(1) {
            s.spawn(|| {
                loop {
                    let k = {
                        let mut n = next.lock().unwrap();
                        let k = *n;
                        *n += 1;
                        k
                    };
                    if k >= all.len() {
                        break;
                    }
                    let (pi, ji) = all[k];
                    let o = run_job(&st, &plans[pi].jobs[ji].0);
                    results.lock().unwrap().insert((pi, ji), o);
                }
            });
        }
    });
    let results = results.into_inner().unwrap();

    // ---- dump
    for (pi, p) in plans.iter().enumerate() {
        let sc = &systems[p.sys_idx];
        let npoints = p.nominal.log.points.len();
        let id = format!("s{}.{}.nominal", p.sys_idx, p.engine);
        let line = case_line(&id, sc, &st, &p.engine, -1, npoints, "none", "none", b"", &p.nominal, &p.nominal);
        distinct.insert(line[line.find("(engine").unwrap_or(0)..].to_string());
        stats.sample(&line, 2);
        writeln!(out, "{line}").unwrap();
        for (ji, (job, point, kind, reply)) in p.jobs.iter().enumerate() {
            let o = &results[&(pi, ji)];
            let id = job.tag.clone();
            let line = case_line(&id, sc, &st, &p.engine, *point as i64, npoints, kind, &job.fault, reply, &p.nominal, o);
            let fk = job.fault.split(':').next().unwrap_or("").to_string();
            stats.bump(&format!("fault-x-outcome-{}", p.engine), &format!("{} -> {}", fk, class_of(&o.fin)));
            if fk.starts_with("ctx-") {
                stats.bump("ctx-fault-x-nominal-x-outcome", &format!("{} {} nominal {} -> {}", p.engine, fk, class_of(&p.nominal.fin), class_of(&o.fin)));
            }
            stats.bump("outcome-class", &class_of(&o.fin));
            stats.bump("point-kind", &format!("{}:{}", p.engine, kind));
            stats.bump("fault-kind", &job.fault);
            stats.add("wall-ms-total", o.wall_ms);
            if let Some(first) = &o.retried {
                stats.bump("blocked-runs-repeated", if class_of(&o.fin) == "hang" { "blocked again (genuine)" } else { "second run finished (scheduling accident)" });
                let _ = first;
            }
            stats.bump("solver-process", if o.log.live_starts > 0 { "live" } else { "recorded-replies" });
            distinct.insert(line[line.find("(engine").unwrap_or(0)..].to_string());
            if fk != "error" || ji % 7 == 0 {
                stats.sample(&line, 4);
            }
            writeln!(out, "{line}").unwrap();
        }
    }
    out.flush().unwrap();
    stats.add("distinct_cases", distinct.len() as u64);
    stats.add("systems", systems.len() as u64);
    stats.write(&args.out);
    let _ = std::fs::remove_dir_all(&tmp);
}

fn f_impl(line: &str) -> String {
    match Sexp::parse(line) {
        Ok(c) => c.field("impl").map(|v| sexp_to_string(&v[0])).unwrap_or_default(),
        Err(_) => String::new(),
    }
}

/// user+system CPU time of one process in ms (0 if it is gone)
fn proc_cpu_ms(pid: u32) -> u64 {
    let txt = match std::fs::read_to_string(format!("/proc/{pid}/stat")) {
        Ok(t) => t,
        Err(_) => return 0,
    };
    // fields after the parenthesised command name
    let rest = match txt.rfind(')') {
        Some(i) => &txt[i + 1..],
        None => return 0,
    };
    let f: Vec<&str> = rest.split_whitespace().collect();
    // rest[0] = state, [1] = ppid, ..., utime = field 14, stime = field 15 of the full line => rest[11], rest[12]
    let ut: u64 = f.get(11).and_then(|v| v.parse().ok()).unwrap_or(0);
    let stt: u64 = f.get(12).and_then(|v| v.parse().ok()).unwrap_or(0);
    (ut + stt) * 10
}

fn proc_state(pid: u32) -> Option<char> {
    let txt = std::fs::read_to_string(format!("/proc/{pid}/stat")).ok()?;
    let rest = &txt[txt.rfind(')')? + 1..];
    rest.split_whitespace().next()?.chars().next()
}

/// the process and all its descendants (through /proc/<pid>/task/<tid>/children)
fn tree_pids(root: u32) -> Vec<u32> {
    let mut out = vec![root];
    let mut i = 0;
    while i < out.len() && out.len() < 64 {
        let p = out[i];
        if let Ok(rd) = std::fs::read_dir(format!("/proc/{p}/task")) {
            for t in rd.flatten() {
                if let Ok(txt) = std::fs::read_to_string(t.path().join("children")) {
                    for c in txt.split_whitespace() {
                        if let Ok(c) = c.parse::<u32>() {
                            if !out.contains(&c) {
                                out.push(c);
                            }
                        }
                    }
                }
            }
        }
        i += 1;
    }
    out
}

/// (some process of the tree is running / runnable / in uninterruptible sleep, total CPU ms of the tree)
fn tree_activity(root: u32, seen: &mut std::collections::HashSet<u32>) -> (bool, u64) {
    let mut busy = false;
    let mut cpu = 0;
    for p in tree_pids(root) {
        seen.insert(p);
        match proc_state(p) {
            Some('R') | Some('D') => busy = true,
            _ => {}
        }
        cpu += proc_cpu_ms(p);
    }
    (busy, cpu)
}

/// "pid:comm:state:wchan" of every process of the tree (diagnostics of a blocked run)
fn tree_description(root: u32) -> String {
    let mut parts = vec![];
    for p in tree_pids(root) {
        let comm = std::fs::read_to_string(format!("/proc/{p}/comm")).unwrap_or_default().trim().to_string();
        let wchan = std::fs::read_to_string(format!("/proc/{p}/wchan")).unwrap_or_default().trim().to_string();
        parts.push(format!("{p}:{comm}:{}:{wchan}", proc_state(p).unwrap_or('?')));
    }
    format!("tree=[{}]", parts.join(" "))
}

/// is there a live `solver-shim --shim-emit <hex> <delay> <shim pid>` whose shim belonged to this run?
fn emitter_pending(seen: &std::collections::HashSet<u32>) -> bool {
    if let Ok(rd) = std::fs::read_dir("/proc") {
        for e in rd.flatten() {
            let name = e.file_name();
            let name = name.to_string_lossy();
            if !name.chars().all(|c| c.is_ascii_digit()) {
                continue;
            }
            if let Ok(cmd) = std::fs::read(e.path().join("cmdline")) {
                let args: Vec<String> = cmd.split(|b| *b == 0).map(|a| String::from_utf8_lossy(a).into_owned()).collect();
                if args.len() >= 5 && args[1] == "--shim-emit" {
                    if let Ok(p) = args[4].parse::<u32>() {
                        if seen.contains(&p) {
                            return true;
                        }
                    }
                }
            }
        }
    }
    false
}

fn bucket(n: usize) -> String {
    match n {
        0 => "0".into(),
        1..=4 => "1-4".into(),
        5..=9 => "5-9".into(),
        10..=19 => "10-19".into(),
        20..=49 => "20-49".into(),
        50..=99 => "50-99".into(),
        _ => "100+".into(),
    }
}

fn sanitize(s: &str) -> String {
    s.chars().map(|c| if c.is_ascii_alphanumeric() || c == ':' || c == '-' { c } else { '_' }).collect()
}

fn which(name: &str) -> String {
    for d in std::env::var("PATH").unwrap_or_default().split(':') {
        let p = format!("{d}/{name}");
        if std::path::Path::new(&p).is_file() {
            return p;
        }
    }
    format!("/usr/bin/{name}")
}

pub fn sexp_to_string(x: &Sexp) -> String {
    match x {
        Sexp::Atom(a) => a.clone(),
        Sexp::Str(s) => quote(s),
        Sexp::List(l) => format!("({})", l.iter().map(sexp_to_string).collect::<Vec<_>>().join(" ")),
    }
}
