//! Small shared helpers: argument parsing, JSON writing, panic capture.
use std::collections::BTreeMap;
use std::panic::{AssertUnwindSafe, catch_unwind};

#[derive(Clone, Debug)]
pub struct Args {
    pub prop: String,
    pub seed: u64,
    pub count: u64,
    pub out: String,
    pub tier: String,
    pub extra: BTreeMap<String, String>,
}

impl Args {
    pub fn parse() -> Args {
        let a: Vec<String> = std::env::args().collect();
        if a.len() < 2 {
            eprintln!("usage: verif-harness <property> [--seed N] [--count N] [--out FILE] [--tier quick|thorough] [--key value]...");
            std::process::exit(2);
        }
        let mut args = Args { prop: a[1].clone(), seed: 1, count: 100, out: "cases.txt".into(), tier: "quick".into(), extra: BTreeMap::new() };
        let mut i = 2;
        while i + 1 < a.len() + 1 && i < a.len() {
            let k = a[i].trim_start_matches("--").to_string();
            let v = a.get(i + 1).cloned().unwrap_or_default();
            match k.as_str() {
                "seed" => args.seed = v.parse().expect("seed"),
                "count" => args.count = v.parse().expect("count"),
                "out" => args.out = v,
                "tier" => args.tier = v,
                _ => {
                    args.extra.insert(k, v);
                }
            }
            i += 2;
        }
        args
    }
    pub fn get(&self, k: &str) -> Option<&str> {
        self.extra.get(k).map(|s| s.as_str())
    }
    pub fn get_u64(&self, k: &str, default: u64) -> u64 {
        self.get(k).map(|v| v.parse().expect("numeric option")).unwrap_or(default)
    }
}

pub fn json_str(s: &str) -> String {
    let mut o = String::from("\"");
    for c in s.chars() {
        match c {
            '"' => o.push_str("\\\""),
            '\\' => o.push_str("\\\\"),
            '\n' => o.push_str("\\n"),
            '\t' => o.push_str("\\t"),
            '\r' => o.push_str("\\r"),
            c if (c as u32) < 32 => o.push_str(&format!("\\u{:04x}", c as u32)),
            c => o.push(c),
        }
    }
    o.push('"');
    o
}

/// Statistics written next to the case file: histograms and a few sample cases.
#[derive(Default)]
pub struct Stats {
    pub counters: BTreeMap<String, u64>,
    pub hist: BTreeMap<String, BTreeMap<String, u64>>,
    pub samples: Vec<String>,
    pub notes: Vec<String>,
}

impl Stats {
    pub fn inc(&mut self, k: &str) {
        *self.counters.entry(k.to_string()).or_insert(0) += 1;
    }
    pub fn add(&mut self, k: &str, n: u64) {
        *self.counters.entry(k.to_string()).or_insert(0) += n;
    }
    pub fn bump(&mut self, h: &str, k: &str) {
        *self.hist.entry(h.to_string()).or_default().entry(k.to_string()).or_insert(0) += 1;
    }
    pub fn bump_n(&mut self, h: &str, k: &str, n: u64) {
        *self.hist.entry(h.to_string()).or_default().entry(k.to_string()).or_insert(0) += n;
    }
    pub fn sample(&mut self, s: &str, max: usize) {
        if self.samples.len() < max {
            let mut t = s.to_string();
            if t.len() > 600 {
                t.truncate(600);
                t.push_str("...");
            }
            self.samples.push(t);
        }
    }
    pub fn to_json(&self) -> String {
        let mut o = String::from("{\"counters\":{");
        o.push_str(&self.counters.iter().map(|(k, v)| format!("{}:{}", json_str(k), v)).collect::<Vec<_>>().join(","));
        o.push_str("},\"hist\":{");
        o.push_str(
            &self
                .hist
                .iter()
                .map(|(h, m)| format!("{}:{{{}}}", json_str(h), m.iter().map(|(k, v)| format!("{}:{}", json_str(k), v)).collect::<Vec<_>>().join(",")))
                .collect::<Vec<_>>()
                .join(","),
        );
        o.push_str("},\"samples\":[");
        o.push_str(&self.samples.iter().map(|s| json_str(s)).collect::<Vec<_>>().join(","));
        o.push_str("],\"notes\":[");
        o.push_str(&self.notes.iter().map(|s| json_str(s)).collect::<Vec<_>>().join(","));
        o.push_str("]}");
        o
    }
    pub fn write(&self, case_file: &str) {
        std::fs::write(format!("{case_file}.stats.json"), self.to_json()).expect("write stats");
    }
}

/// Run `f`, mapping a panic to `Err(message)`.
pub fn guarded<T>(f: impl FnOnce() -> T) -> Result<T, String> {
    match catch_unwind(AssertUnwindSafe(f)) {
        Ok(v) => Ok(v),
        Err(e) => {
            let msg = if let Some(s) = e.downcast_ref::<&str>() {
                s.to_string()
            } else if let Some(s) = e.downcast_ref::<String>() {
                s.clone()
            } else {
                "panic".to_string()
            };
            Err(msg)
        }
    }
}

thread_local! {
    pub static LAST_PANIC_LOC: std::cell::RefCell<String> = std::cell::RefCell::new(String::new());
}

/// Panics are silent; the location of the last one is recorded (crate-relative path:line).
pub fn silence_panics() {
    std::panic::set_hook(Box::new(|info| {
        let loc = info.location().map(|l| format!("{}:{}", l.file(), l.line())).unwrap_or_default();
        // keep the path from the crate directory on, so that it does not depend on $HOME
        let short = match loc.find("/registry/src/") {
            Some(i) => loc[i..].splitn(5, '/').last().unwrap_or(&loc).to_string(),
            // repository sources: keep the path from the crate directory on ("patronus/src/...",
            // "patronus-dse/src/..."), wherever the checkout lives (/repo or a scratch copy)
            None => match loc.find("patronus") {
                Some(i) => loc[i..].to_string(),
                None => loc.trim_start_matches("/repo/").to_string(),
            },
        };
        LAST_PANIC_LOC.with(|l| *l.borrow_mut() = short);
    }));
}

pub fn last_panic_loc() -> String {
    LAST_PANIC_LOC.with(|l| l.borrow().clone())
}
