//! C05: the SMT-LIB writer (patronus::smt::serialize_cmd; serialize_expr is only reachable through it).
//!
//! One case per line:
//!   (case ID (kind expr) (expr E) (syms (S "decl text")..) (text "..") (envs (env (bvenv ..) (arrenv ..))..)
//!            (indices b..) (solver ("z3" "raw output") ..) (panicloc "..") (classes c..))
//!   (case ID (kind cmd) (cmd C) (syms ..) (text "..") (panicloc ".."))
//! `text` of an expr case is what `serialize_cmd(GetValue(e))` writes; the decl texts are what
//! `serialize_cmd(DeclareConst(sym))` writes for every symbol of the case.
//! C = (assert E) | (declare S) | (define S E) | (csa E..) | (getvalue E) | (push n) | (pop n) | (setlogic L)
//!   | (setoption "k" "v") | (setinfo "k" "v") | (exit) | (checksat) | (gua) | (declare-nonsym E)
use crate::dump::*;
use crate::exprgen::{lit_value, shift_amount};
use crate::rng::Rng;
use crate::sexp::{Sexp, build_expr, read_cases};
use crate::util::*;
use baa::{BitVecOps, BitVecValue};
use patronus::expr::*;
use patronus::smt::{Logic, SmtCommand, serialize_cmd};
use std::collections::{BTreeMap, HashSet};
use std::io::Write;

// ------------------------------------------------------------------------------------------ names

pub const SIMPLE_NAMES: &[&str] = &[
    "x", "y", "s1", "_tmp", "$auto$1", "a.b", "foo@3", "<=", "+", "state_next", "A", "Z9", "~q", "%r", "k?", "n!", "a^b", "a&b", "u/v", "p*q", "e=f", "o-o",
    "top.cpu.pc", "__n6@0", "BitVec2", "bv", "lets", "pusher",
    // simple symbols that begin with a literal / keyword / theory name of the reader
    "true_x", "falsey", "trueish", "true2", "false.0", "Boolean", "letx", "let_1", "_x", "as_if", "notx", "ite2", "BitVecs", "exit_code", "pop_", "store1", "const_",
    "bvadd_x", "select2", "Array1", "extract_lo", "zero_extend_", "x_true", "x.false",
];
pub const QUOTED_NAMES: &[&str] = &[
    "a b", "1abc", "x[3]", "m:n", "#b01", "a(b)", "x;y", "\"q\"", "", " ", "a\tb", "a\nb", "$auto$async2sync.cc:262:execute$65@20", "mem[0][1]", "a,b", "{x}", "it's",
    "0", "12", "#x0f", "(", ")", "a#", "`t`",
    // quoted names with spaces around / between words that are literals or keywords when read alone
    "true x", "x true", "let me", "a  b", " lead", "trail ", "not a", "false ", " true", "( x )", "_ BitVec 8", "1 2",
];
// multi-byte UTF-8.  The second row: every character is above U+00FF and its LOW BYTE is an ASCII letter, digit or allowed punctuation
// (a quoting rule that looks at `c as u8` takes them for simple symbols); the third row: the low byte is not allowed / a digit in first position
pub const NONASCII_NAMES: &[&str] = &[
    "π", "größe", "a→b", "名前", "entrée", "Ωmega", "x²", "naïve_1",
    "сумма", "Łukasz", "idő", "中", "a中b", "Őz", "ŁA", "šx", "x𝔸", "\u{141}\u{142}\u{143}",
    "вход", "флаг", "такт", "ж", "\u{130}x", "\u{120}", "a\u{10a}b", "\u{1f600}", "日本語", "\u{e9}\u{301}",
];
// names made of the delimiters of the lexical level: one or an odd number of double quotes, string-literal-like text, comment starts,
// parentheses, `#`, line breaks and tabs; all of them legal inside |..| (only `|` and `\` are not)
pub const DELIMITER_NAMES: &[&str] = &[
    "in\"0", "\"", "a\"b", "say \"hi", "\"(", ")\"", "x\")", "(\"", "\"a b\"", "\"\"", "\"\"\"", "\" \"", "\"a\" \"", "s \"(\" t", "\"x;y\"",
    ";", "a;b(", "; c", "(;", ";)", "#", "#b", "#x", "a#(", "()", ")(", "((", "))", "( (", ") \"",
    "a\n;b", "a\n(b", "a\n\"b", "\n", "\t", "\r\n", "x\t\"y", " \n ", "(\n", "a\nb\nc",
];
/// a name from [`DELIMITER_NAMES`] or a random string over the delimiter alphabet
pub fn delimiter_name(rng: &mut Rng) -> String {
    if rng.chance(1, 2) {
        return rng.pick(DELIMITER_NAMES).to_string();
    }
    const ALPHABET: &[char] = &['"', '"', ';', '(', ')', '#', ' ', '\n', '\t', 'a', '0', '_', '"'];
    let n = 1 + rng.below(4);
    (0..n).map(|_| *rng.pick(ALPHABET)).collect()
}
pub const RESERVED_NAMES: &[&str] = &[
    "let", "push", "pop", "exit", "_", "!", "as", "par", "assert", "forall", "exists", "match", "check-sat", "reset", "echo", "BINARY", "NUMERAL", "define-fun", "get-value",
    "set-logic",
];
pub const THEORY_NAMES: &[&str] = &["true", "false", "not", "and", "bvadd", "select", "store", "Bool", "ite", "=", "=>", "concat", "extract", "BitVec", "Array", "const"];
pub const UNREPRESENTABLE_NAMES: &[&str] = &["a|b", "a\\b", "|", "\\", "x\u{1}y", "\u{7f}", "|q|"];

pub fn name_class(n: &str) -> &'static str {
    if UNREPRESENTABLE_NAMES.contains(&n) {
        "unrepresentable"
    } else if RESERVED_NAMES.contains(&n) {
        "reserved"
    } else if THEORY_NAMES.contains(&n) {
        "theory"
    } else if n.starts_with('.') || n.starts_with('@') {
        "solver-reserved"
    } else if DELIMITER_NAMES.contains(&n) || n.contains('"') {
        "delimiters"
    } else if NONASCII_NAMES.contains(&n) || !n.is_ascii() {
        "nonascii"
    } else if QUOTED_NAMES.contains(&n) {
        "needs-quoting"
    } else if SIMPLE_NAMES.contains(&n) {
        "simple"
    } else if n.chars().count() <= 2 && n.chars().all(|c| (c as u32) >= 32 && (c as u32) < 127) {
        "ascii-char"
    } else {
        "derived"
    }
}

// ------------------------------------------------------------------------------------------ generator

const WIDE: &[WidthInt] = &[2, 2, 3, 4, 5, 7, 8, 8, 16, 31, 32, 33, 63, 64, 65, 127, 128, 129];

pub struct Gen<'a> {
    pub ctx: &'a mut Context,
    pub rng: &'a mut Rng,
    pub ops: BTreeMap<String, u64>,
    /// names used so far in this case with their type (a name has one type per case)
    pub used: Vec<(String, Type)>,
    pub plain_names: bool,
    pub div_rem: bool,
    /// index widths of all arrays (kept small: the reference evaluates array equality over the whole index space)
    pub max_iw: WidthInt,
}

impl<'a> Gen<'a> {
    pub fn new(ctx: &'a mut Context, rng: &'a mut Rng) -> Self {
        Gen { ctx, rng, ops: BTreeMap::new(), used: vec![], plain_names: false, div_rem: true, max_iw: 6 }
    }
    fn count(&mut self, op: &str) {
        *self.ops.entry(op.to_string()).or_insert(0) += 1;
    }
    /// a width: 1 with probability 2/5
    pub fn width(&mut self) -> WidthInt {
        if self.rng.chance(2, 5) { 1 } else { *self.rng.pick(WIDE) }
    }
    fn index_width(&mut self) -> WidthInt {
        if self.rng.chance(2, 5) { 1 } else { self.rng.range(2, self.max_iw as u64) as WidthInt }
    }
    fn fresh_name(&mut self) -> String {
        // every printable ASCII character alone and in second position (character classification of the quoting rule)
        if !self.plain_names && self.rng.chance(1, 8) {
            let c = (32 + self.rng.below(95)) as u8 as char;
            if c != '|' && c != '\\' {
                let cand = if self.rng.chance(1, 2) { format!("{c}") } else { format!("v{c}") };
                if !self.used.iter().any(|(n, _)| *n == cand) {
                    return cand;
                }
            }
        }
        if !self.plain_names && self.rng.chance(1, 10) {
            let cand = delimiter_name(self.rng);
            if !self.used.iter().any(|(n, _)| *n == cand) {
                return cand;
            }
        }
        // random multi-byte names: code point = page * 256 + low byte, every low byte (letters, digits, punctuation, controls, |, \) on pages
        // 1 .. 7, 0x4E .. 0x9D, 0xE0 .. 0xFF and above the BMP; sometimes mixed with ASCII
        if !self.plain_names && self.rng.chance(1, 12) {
            let mut cand = String::new();
            for _ in 0..(1 + self.rng.below(3)) {
                let low = if self.rng.chance(2, 3) { *self.rng.pick(&[0x41u32, 0x5a, 0x61, 0x7a, 0x30, 0x39, 0x2d, 0x5f, 0x2e, 0x24, 0x3c, 0x40]) } else { self.rng.below(256) as u32 };
                let page = match self.rng.below(4) {
                    0 => 1 + self.rng.below(7) as u32,
                    1 => 0x4e + self.rng.below(0x50) as u32,
                    2 => 0xe0 + self.rng.below(0x20) as u32,
                    _ => 0x100 + self.rng.below(0xf00) as u32,
                };
                if let Some(c) = char::from_u32(page * 256 + low) {
                    cand.push(c);
                }
                if self.rng.chance(1, 4) {
                    cand.push(*self.rng.pick(&['a', 'Z', '0', '_', '.']));
                }
            }
            if !cand.is_empty() && !self.used.iter().any(|(n, _)| *n == cand) {
                return cand;
            }
        }
        let base: &str = if self.plain_names {
            *self.rng.pick(SIMPLE_NAMES)
        } else {
            match self.rng.below(100) {
                0..=49 => *self.rng.pick(SIMPLE_NAMES),
                50..=84 => *self.rng.pick(QUOTED_NAMES),
                85..=91 => *self.rng.pick(NONASCII_NAMES),
                92..=94 => *self.rng.pick(RESERVED_NAMES),
                95..=96 => *self.rng.pick(THEORY_NAMES),
                _ => *self.rng.pick(UNREPRESENTABLE_NAMES),
            }
        };
        let mut name = base.to_string();
        let mut k = 0;
        while self.used.iter().any(|(n, _)| *n == name) {
            k += 1;
            name = format!("{base}_{k}");
        }
        name
    }
    /// a fresh symbol whose name is made of lexical delimiters (see [`DELIMITER_NAMES`])
    pub fn delim_symbol(&mut self, tpe: Type) -> ExprRef {
        let mut name = delimiter_name(self.rng);
        while self.used.iter().any(|(n, _)| *n == name) {
            name.push('"');
        }
        self.used.push((name.clone(), tpe));
        match tpe {
            Type::BV(w) => self.ctx.bv_symbol(&name, w),
            Type::Array(a) => self.ctx.array_symbol(&name, a.index_width, a.data_width),
        }
    }
    /// a symbol whose name has not been used in this case
    pub fn fresh_symbol(&mut self, tpe: Type) -> ExprRef {
        let name = self.fresh_name();
        self.used.push((name.clone(), tpe));
        match tpe {
            Type::BV(w) => self.ctx.bv_symbol(&name, w),
            Type::Array(a) => self.ctx.array_symbol(&name, a.index_width, a.data_width),
        }
    }
    pub fn symbol(&mut self, tpe: Type) -> ExprRef {
        let same: Vec<String> = self.used.iter().filter(|(_, t)| *t == tpe).map(|(n, _)| n.clone()).collect();
        let name = if !same.is_empty() && self.rng.chance(1, 2) {
            self.rng.pick(&same).clone()
        } else {
            let n = self.fresh_name();
            self.used.push((n.clone(), tpe));
            n
        };
        match tpe {
            Type::BV(w) => self.ctx.bv_symbol(&name, w),
            Type::Array(a) => self.ctx.array_symbol(&name, a.index_width, a.data_width),
        }
    }
    pub fn leaf(&mut self, w: WidthInt) -> ExprRef {
        if self.rng.chance(3, 5) {
            self.count("sym");
            self.symbol(Type::BV(w))
        } else {
            self.count("lit");
            let v = lit_value(self.rng, w);
            self.ctx.bv_lit(&v)
        }
    }
    /// an operator application (never a leaf) of width `w`, operands of depth `d`
    pub fn bv_op(&mut self, w: WidthInt, d: u32) -> ExprRef {
        loop {
            let choice = self.rng.below(34);
            match choice {
                0 => {
                    self.count(if w == 1 { "not:bool" } else { "not" });
                    let a = self.bv(w, d);
                    return self.ctx.not(a);
                }
                1 => {
                    self.count(if w == 1 { "neg:1bit" } else { "neg" });
                    let a = self.bv(w, d);
                    return self.ctx.negate(a);
                }
                2..=4 => {
                    let a = self.bv(w, d);
                    let b = self.bv(w, d);
                    let (n, r) = match choice {
                        2 => ("and", self.ctx.and(a, b)),
                        3 => ("or", self.ctx.or(a, b)),
                        _ => ("xor", self.ctx.xor(a, b)),
                    };
                    self.count(&format!("{n}{}", if w == 1 { ":bool" } else { "" }));
                    return r;
                }
                5..=10 => {
                    let a = self.bv(w, d);
                    let b = if choice >= 8 && self.rng.chance(1, 2) {
                        let v = shift_amount(self.rng, w);
                        self.ctx.bv_lit(&v)
                    } else {
                        self.bv(w, d)
                    };
                    let (n, r) = match choice {
                        5 => ("add", self.ctx.add(a, b)),
                        6 => ("sub", self.ctx.sub(a, b)),
                        7 => ("mul", self.ctx.mul(a, b)),
                        8 => ("shl", self.ctx.shift_left(a, b)),
                        9 => ("lshr", self.ctx.shift_right(a, b)),
                        _ => ("ashr", self.ctx.arithmetic_shift_right(a, b)),
                    };
                    self.count(&format!("{n}{}", if w == 1 { ":1bit" } else { "" }));
                    return r;
                }
                11..=13 => {
                    if !self.div_rem {
                        continue;
                    }
                    let a = self.bv(w, d);
                    // make zero divisors likely
                    let b = if self.rng.chance(1, 4) { self.ctx.zero(w) } else { self.bv(w, d) };
                    let (n, r) = match self.rng.below(5) {
                        0 => ("udiv", self.ctx.div(a, b)),
                        1 => ("sdiv", self.ctx.signed_div(a, b)),
                        2 => ("urem", self.ctx.remainder(a, b)),
                        3 => ("srem", self.ctx.signed_remainder(a, b)),
                        _ => ("smod", self.ctx.signed_mod(a, b)),
                    };
                    self.count(&format!("{n}{}", if w == 1 { ":1bit" } else { "" }));
                    return r;
                }
                14 | 15 => {
                    if w < 2 {
                        continue;
                    }
                    let wa = if self.rng.chance(1, 3) { 1 } else if self.rng.chance(1, 2) { w - 1 } else { self.rng.range(1, w as u64 - 1) as WidthInt };
                    self.count(&format!("concat{}{}", if wa == 1 { ":hi1" } else { "" }, if w - wa == 1 { ":lo1" } else { "" }));
                    let a = self.bv(wa, d);
                    let b = self.bv(w - wa, d);
                    return self.ctx.concat(a, b);
                }
                16 | 17 => {
                    let src_w = if self.rng.chance(1, 2) { w + 1 + self.rng.below(8) as WidthInt } else { w + *self.rng.pick(WIDE) };
                    let lo = match self.rng.below(3) {
                        0 => 0,
                        1 => src_w - w,
                        _ => self.rng.below((src_w - w) as u64 + 1) as WidthInt,
                    };
                    self.count(if w == 1 { "slice:1bit" } else { "slice" });
                    let a = self.bv(src_w, d);
                    return self.ctx.slice(a, lo + w - 1, lo);
                }
                18 | 19 => {
                    if w < 2 {
                        continue;
                    }
                    let by = if self.rng.chance(2, 5) { w - 1 } else { self.rng.range(1, w as u64 - 1) as WidthInt };
                    let a = self.bv(w - by, d);
                    return if choice == 18 {
                        self.count(if w - by == 1 { "zext:bool" } else { "zext" });
                        self.ctx.zero_extend(a, by)
                    } else {
                        self.count(if w - by == 1 { "sext:1bit" } else { "sext" });
                        self.ctx.sign_extend(a, by)
                    };
                }
                20 | 21 => {
                    self.count(if w == 1 { "ite:bool" } else { "ite" });
                    let c = self.bv(1, d);
                    let t = self.bv(w, d);
                    let f = self.bv(w, d);
                    return self.ctx.ite(c, t, f);
                }
                22 | 23 => {
                    let iw = self.index_width();
                    self.count(&format!("read{}{}", if iw == 1 { ":ibool" } else { "" }, if w == 1 { ":dbool" } else { "" }));
                    let arr = self.array(iw, w, d);
                    let idx = self.bv(iw, d);
                    return self.ctx.array_read(arr, idx);
                }
                24..=29 => {
                    if w != 1 {
                        continue;
                    }
                    let ow = self.width();
                    let a = self.bv(ow, d);
                    let b = if self.rng.chance(1, 6) { a } else { self.bv(ow, d) };
                    let (n, r) = match choice {
                        24 | 29 => ("eq", self.ctx.equal(a, b)),
                        25 => ("ugt", self.ctx.greater(a, b)),
                        26 => ("uge", self.ctx.greater_or_equal(a, b)),
                        27 => ("sgt", self.ctx.greater_signed(a, b)),
                        _ => ("sge", self.ctx.greater_or_equal_signed(a, b)),
                    };
                    self.count(&format!("{n}{}", if ow == 1 { ":1bit" } else { "" }));
                    return r;
                }
                30 | 31 => {
                    if w != 1 {
                        continue;
                    }
                    self.count("implies");
                    let a = self.bv(1, d);
                    let b = self.bv(1, d);
                    return self.ctx.implies(a, b);
                }
                _ => {
                    if w != 1 {
                        continue;
                    }
                    let iw = if self.rng.chance(1, 2) { 1 } else { self.rng.range(2, 3) as WidthInt };
                    let dw = if self.rng.chance(2, 5) { 1 } else { *self.rng.pick(&[2, 3, 8, 65]) };
                    self.count(&format!("aeq{}{}", if iw == 1 { ":ibool" } else { "" }, if dw == 1 { ":dbool" } else { "" }));
                    let a = self.array(iw, dw, d);
                    let b = if self.rng.chance(1, 5) { a } else { self.array(iw, dw, d) };
                    return self.ctx.equal(a, b);
                }
            }
        }
    }
    pub fn bv(&mut self, w: WidthInt, depth: u32) -> ExprRef {
        if depth == 0 || self.rng.chance(1, 8) {
            return self.leaf(w);
        }
        self.bv_op(w, depth - 1)
    }
    pub fn array(&mut self, iw: WidthInt, dw: WidthInt, depth: u32) -> ExprRef {
        let tag = format!("{}{}", if iw == 1 { ":ibool" } else { "" }, if dw == 1 { ":dbool" } else { "" });
        if depth == 0 || self.rng.chance(1, 4) {
            return if self.rng.chance(1, 2) {
                self.count(&format!("asym{tag}"));
                self.symbol(Type::Array(ArrayType { index_width: iw, data_width: dw }))
            } else {
                self.count(&format!("aconst{tag}"));
                let e = self.leaf(dw);
                self.ctx.array_const(e, iw)
            };
        }
        let d = depth - 1;
        match self.rng.below(6) {
            0 => {
                self.count(&format!("aconst{tag}"));
                let e = self.bv(dw, d);
                self.ctx.array_const(e, iw)
            }
            1..=3 => {
                self.count(&format!("store{tag}"));
                let a = self.array(iw, dw, d);
                let i = self.bv(iw, d);
                let v = self.bv(dw, d);
                self.ctx.array_store(a, i, v)
            }
            4 => {
                self.count(&format!("aite{tag}"));
                let c = self.bv(1, d);
                let t = self.array(iw, dw, d);
                let f = self.array(iw, dw, d);
                self.ctx.ite(c, t, f)
            }
            _ => {
                self.count(&format!("asym{tag}"));
                self.symbol(Type::Array(ArrayType { index_width: iw, data_width: dw }))
            }
        }
    }
    /// a root of any type
    pub fn root(&mut self, depth: u32) -> ExprRef {
        if self.rng.chance(1, 5) {
            let iw = self.index_width();
            let dw = self.width();
            self.array(iw, dw, depth)
        } else {
            let w = self.width();
            if depth == 0 { self.leaf(w) } else { self.bv_op(w, depth - 1) }
        }
    }
}

fn op_tag(e: &Expr) -> &'static str {
    match e {
        Expr::BVSymbol { .. } => "sym",
        Expr::BVLiteral(_) => "lit",
        Expr::BVZeroExt { .. } => "zext",
        Expr::BVSignExt { .. } => "sext",
        Expr::BVSlice { .. } => "slice",
        Expr::BVNot(..) => "not",
        Expr::BVNegate(..) => "neg",
        Expr::BVEqual(..) => "eq",
        Expr::BVImplies(..) => "implies",
        Expr::BVGreater(..) => "ugt",
        Expr::BVGreaterSigned(..) => "sgt",
        Expr::BVGreaterEqual(..) => "uge",
        Expr::BVGreaterEqualSigned(..) => "sge",
        Expr::BVConcat(..) => "concat",
        Expr::BVAnd(..) => "and",
        Expr::BVOr(..) => "or",
        Expr::BVXor(..) => "xor",
        Expr::BVShiftLeft(..) => "shl",
        Expr::BVArithmeticShiftRight(..) => "ashr",
        Expr::BVShiftRight(..) => "lshr",
        Expr::BVAdd(..) => "add",
        Expr::BVMul(..) => "mul",
        Expr::BVSignedDiv(..) => "sdiv",
        Expr::BVUnsignedDiv(..) => "udiv",
        Expr::BVSignedMod(..) => "smod",
        Expr::BVSignedRem(..) => "srem",
        Expr::BVUnsignedRem(..) => "urem",
        Expr::BVSub(..) => "sub",
        Expr::BVArrayRead { .. } => "read",
        Expr::BVIte { .. } => "ite",
        Expr::ArraySymbol { .. } => "asym",
        Expr::ArrayConstant { .. } => "aconst",
        Expr::ArrayEqual(..) => "aeq",
        Expr::ArrayStore { .. } => "store",
        Expr::ArrayIte { .. } => "aite",
    }
}

/// histogram "operator.position:kind-of-operand" over the distinct nodes of the expression
pub fn position_hist(ctx: &Context, root: ExprRef, stats: &mut Stats) {
    for n in crate::exprgen::collect_nodes(ctx, root) {
        let mut cs = vec![];
        ctx[n].collect_children(&mut cs);
        for (k, c) in cs.iter().enumerate() {
            let kind = match c.get_type(ctx) {
                Type::BV(1) => "1bit",
                Type::BV(_) => "wide",
                Type::Array(_) => "array",
            };
            let leaf = match &ctx[*c] {
                Expr::BVSymbol { .. } | Expr::ArraySymbol { .. } => "sym",
                Expr::BVLiteral(_) => "lit",
                _ => "op",
            };
            stats.bump("operand", &format!("{}.{}:{}:{}", op_tag(&ctx[n]), k, kind, leaf));
        }
    }
}

/// all symbols of the expression in first-visit order (own walker)
pub fn symbols_of(ctx: &Context, roots: &[ExprRef]) -> Vec<ExprRef> {
    let mut seen = HashSet::new();
    let mut out = vec![];
    let mut todo: Vec<ExprRef> = roots.iter().rev().copied().collect();
    while let Some(x) = todo.pop() {
        if !seen.insert(x) {
            continue;
        }
        if ctx[x].is_symbol() {
            out.push(x);
        }
        let mut cs = vec![];
        ctx[x].collect_children(&mut cs);
        for c in cs.into_iter().rev() {
            todo.push(c);
        }
    }
    out
}

// ------------------------------------------------------------------------------------------ implementation runner

pub fn write_cmd(ctx: &Context, cmd: &SmtCommand) -> Result<String, String> {
    guarded(|| {
        let mut out: Vec<u8> = vec![];
        serialize_cmd(&mut out, Some(ctx), cmd).expect("io");
        String::from_utf8_lossy(&out).into_owned()
    })
}

pub fn dump_sym_decl(ctx: &Context, s: ExprRef) -> String {
    let text = match write_cmd(ctx, &SmtCommand::DeclareConst(s)) {
        Ok(t) => quote(&t),
        Err(_) => "\"<panic>\"".to_string(),
    };
    format!("({} {})", dump_expr(ctx, s), text)
}

#[derive(Clone)]
pub struct ArrVal {
    pub default: BitVecValue,
    pub entries: Vec<(BitVecValue, BitVecValue)>,
}
#[derive(Clone)]
pub struct Env {
    pub bvs: Vec<(ExprRef, BitVecValue)>,
    pub arrs: Vec<(ExprRef, ArrVal)>,
}

pub fn random_env(ctx: &Context, rng: &mut Rng, syms: &[ExprRef]) -> Env {
    let mut env = Env { bvs: vec![], arrs: vec![] };
    for s in syms {
        match s.get_type(ctx) {
            Type::BV(w) => env.bvs.push((*s, lit_value(rng, w))),
            Type::Array(t) => {
                let default = lit_value(rng, t.data_width);
                let n = rng.below(4);
                let entries = (0..n).map(|_| (lit_value(rng, t.index_width), lit_value(rng, t.data_width))).collect();
                env.arrs.push((*s, ArrVal { default, entries }));
            }
        }
    }
    env
}

pub fn dump_env(ctx: &Context, env: &Env) -> String {
    let mut bvenv = String::new();
    for (s, v) in env.bvs.iter() {
        bvenv.push_str(&format!(" ({} {} {})", quote(ctx.get_symbol_name(*s).unwrap()), v.width(), bv_tok(v)));
    }
    let mut arrenv = String::new();
    for (s, a) in env.arrs.iter() {
        let t = s.get_array_type(ctx).unwrap();
        let mut txt = format!("{} {} {} {}", quote(ctx.get_symbol_name(*s).unwrap()), t.index_width, t.data_width, bv_tok(&a.default));
        for (i, v) in a.entries.iter() {
            txt.push_str(&format!(" ({} {})", bv_tok(i), bv_tok(v)));
        }
        arrenv.push_str(&format!(" ({txt})"));
    }
    format!("(env (bvenv{bvenv}) (arrenv{arrenv}))")
}

pub fn parse_env(ctx: &mut Context, e: &Sexp) -> Env {
    let mut env = Env { bvs: vec![], arrs: vec![] };
    for b in e.field("bvenv").unwrap_or(&[]) {
        let l = b.list();
        let s = ctx.bv_symbol(l[0].atom(), l[1].num() as WidthInt);
        env.bvs.push((s, l[2].bits()));
    }
    for a in e.field("arrenv").unwrap_or(&[]) {
        let l = a.list();
        let s = ctx.array_symbol(l[0].atom(), l[1].num() as WidthInt, l[2].num() as WidthInt);
        let entries = l[4..].iter().map(|p| (p.list()[0].bits(), p.list()[1].bits())).collect();
        env.arrs.push((s, ArrVal { default: l[3].bits(), entries }));
    }
    env
}

// ------------------------------------------------------------------------------------------ solver cross-check (thorough tier)

pub fn own_quote(n: &str) -> Option<String> {
    if n.contains('|') || n.contains('\\') || n.chars().any(|c| (c as u32) < 32 && !matches!(c, '\t' | '\n' | '\r') || c as u32 == 127) {
        None
    } else {
        Some(format!("|{n}|"))
    }
}
pub fn own_elem_sort(w: WidthInt) -> String {
    if w == 1 { "Bool".into() } else { format!("(_ BitVec {w})") }
}
pub fn own_elem_value(v: &BitVecValue) -> String {
    if v.width() == 1 { if v.is_true() { "true".into() } else { "false".into() } } else { format!("#b{}", v.to_bit_str()) }
}

/// the solver script for one expr case under one assignment; None when a name cannot be written at all
pub fn solver_script(ctx: &Context, decls: &[String], term: &str, root_ty: Type, env: &Env, indices: &[BitVecValue]) -> Option<String> {
    let mut s = String::new();
    for d in decls {
        s.push_str(d);
        if !d.ends_with('\n') {
            s.push('\n');
        }
    }
    for (sym, v) in env.bvs.iter() {
        let n = own_quote(ctx.get_symbol_name(*sym).unwrap())?;
        s.push_str(&format!("(assert (= {n} {}))\n", own_elem_value(v)));
    }
    for (sym, a) in env.arrs.iter() {
        let n = own_quote(ctx.get_symbol_name(*sym).unwrap())?;
        let t = sym.get_array_type(ctx).unwrap();
        let mut val = format!("((as const (Array {} {})) {})", own_elem_sort(t.index_width), own_elem_sort(t.data_width), own_elem_value(&a.default));
        for (i, d) in a.entries.iter() {
            val = format!("(store {val} {} {})", own_elem_value(i), own_elem_value(d));
        }
        s.push_str(&format!("(assert (= {n} {val}))\n"));
    }
    s.push_str("(check-sat)\n");
    match root_ty {
        Type::BV(_) => s.push_str(&format!("(get-value ({term}))\n")),
        Type::Array(_) => {
            for i in indices {
                s.push_str(&format!("(get-value ((select {term} {})))\n", own_elem_value(i)));
            }
        }
    }
    Some(s)
}

/// All solver queries of one stream go into one incremental session per solver: each case is wrapped in
/// `(echo "@@case ID") (push 1) ... (pop 1)`.
#[derive(Default)]
pub struct SolverBatch {
    pub script: String,
    pub ids: Vec<String>,
}

impl SolverBatch {
    pub fn add(&mut self, id: &str, body: &str) {
        self.script.push_str(&format!("(echo \"@@case {id}@@\")\n(push 1)\n{body}(pop 1)\n"));
        self.ids.push(id.to_string());
    }
    /// per case id: the solver's output between this case's marker and the next
    pub fn run(&self, name: &str, scratch: &str) -> std::collections::HashMap<String, String> {
        let mut res = std::collections::HashMap::new();
        if self.ids.is_empty() {
            return res;
        }
        let path = format!("{scratch}.{name}.smt2");
        // z3 only knows `(as const ..)` under ALL; under ALL cvc5 also loads arithmetic, whose symbols (+ - * / <= ..) a script
        // may then not declare: the array/bit-vector logic is the right one for it
        let header = format!("(set-option :produce-models true)\n(set-logic {})\n", if name == "z3" { "ALL" } else { "QF_ABV" });
        std::fs::write(&path, format!("{header}{}", self.script)).expect("write solver script");
        let mut cmd = std::process::Command::new(if name == "z3" { "/usr/bin/z3" } else { "cvc5" });
        if name == "cvc5" {
            cmd.arg("--lang=smt2").arg("--incremental");
        }
        cmd.arg(&path);
        let text = match cmd.output() {
            Ok(o) => {
                let mut t = String::from_utf8_lossy(&o.stdout).into_owned();
                t.push_str(&String::from_utf8_lossy(&o.stderr));
                t
            }
            Err(e) => format!("(error \"cannot run solver: {e}\")"),
        };
        let mut cur: Option<String> = None;
        let mut buf = String::new();
        for l in text.lines() {
            if l.contains("WARNING conda") {
                continue;
            }
            if let Some(p) = l.find("@@case ") {
                if let Some(c) = cur.take() {
                    res.insert(c, std::mem::take(&mut buf));
                }
                let rest = &l[p + 7..];
                let id = rest.split("@@").next().unwrap_or("").to_string();
                cur = Some(id);
                buf.clear();
            } else {
                buf.push_str(l);
                buf.push('\n');
            }
        }
        if let Some(c) = cur.take() {
            res.insert(c, buf);
        }
        res
    }
}

// ------------------------------------------------------------------------------------------ cases

pub enum CmdCase {
    Assert(ExprRef),
    Declare(ExprRef),
    DeclareNonSym(ExprRef),
    Define(ExprRef, ExprRef),
    Csa(Vec<ExprRef>),
    GetValue(ExprRef),
    Push(u64),
    Pop(u64),
    SetLogic(Logic),
    SetOption(String, String),
    SetInfo(String, String),
    Exit,
    CheckSat,
    Gua,
}

const OPTION_KEYS: &[&str] = &["produce-models", "random-seed", "smt-lib-version", "source", "status", "incremental", "produce-unsat-assumptions", "k_1"];
const OPTION_VALUES: &[&str] = &["true", "false", "1", "42", "2.6", "sat", "unsat", "a b", "QF_BV", "|x|", "", "patronus", "\"s\""];

pub fn logic_name(l: &Logic) -> &'static str {
    match l {
        Logic::All => "ALL",
        Logic::QfAufbv => "QF_AUFBV",
        Logic::QfAbv => "QF_ABV",
        Logic::QfBv => "QF_BV",
    }
}

pub fn gen_cmd(g: &mut Gen, stats: &mut Stats) -> CmdCase {
    let depth = g.rng.below(3) as u32;
    let k = g.rng.below(20);
    match k {
        0..=3 => CmdCase::Assert(g.bv(1, depth + 1)),
        4..=6 => {
            let t = if g.rng.chance(1, 3) {
                Type::Array(ArrayType { index_width: g.index_width(), data_width: g.width() })
            } else {
                Type::BV(g.width())
            };
            CmdCase::Declare(g.symbol(t))
        }
        7..=9 => {
            if g.rng.chance(1, 4) {
                let iw = g.index_width();
                let dw = g.width();
                let v = g.array(iw, dw, depth);
                let s = g.fresh_symbol(Type::Array(ArrayType { index_width: iw, data_width: dw }));
                CmdCase::Define(s, v)
            } else {
                let w = g.width();
                let v = g.bv(w, depth + 1);
                let s = g.fresh_symbol(Type::BV(w));
                CmdCase::Define(s, v)
            }
        }
        10..=12 => {
            let n = g.rng.below(4);
            let es = (0..n)
                .map(|_| match g.rng.below(3) {
                    0 => g.symbol(Type::BV(1)),
                    1 => {
                        let s = g.symbol(Type::BV(1));
                        g.ctx.not(s)
                    }
                    _ => g.bv(1, depth + 1),
                })
                .collect();
            CmdCase::Csa(es)
        }
        13 | 14 => CmdCase::GetValue(g.root(depth + 1)),
        15 => {
            let n = *g.rng.pick(&[0u64, 1, 2, 10, 4294967296, u64::MAX]);
            if g.rng.chance(1, 2) { CmdCase::Push(n) } else { CmdCase::Pop(n) }
        }
        16 => CmdCase::SetLogic(match g.rng.below(4) {
            0 => Logic::All,
            1 => Logic::QfAufbv,
            2 => Logic::QfAbv,
            _ => Logic::QfBv,
        }),
        17 => {
            let k = g.rng.pick(OPTION_KEYS).to_string();
            let v = g.rng.pick(OPTION_VALUES).to_string();
            if g.rng.chance(1, 2) { CmdCase::SetOption(k, v) } else { CmdCase::SetInfo(k, v) }
        }
        18 => match g.rng.below(3) {
            0 => CmdCase::Exit,
            1 => CmdCase::CheckSat,
            _ => CmdCase::Gua,
        },
        _ => {
            if g.rng.chance(1, 3) {
                let w = g.width();
                CmdCase::DeclareNonSym(g.bv_op(w, 0))
            } else {
                CmdCase::Assert(g.bv(1, depth + 1))
            }
        }
    }
}

pub fn cmd_exprs(c: &CmdCase) -> Vec<ExprRef> {
    match c {
        CmdCase::Assert(e) | CmdCase::Declare(e) | CmdCase::DeclareNonSym(e) | CmdCase::GetValue(e) => vec![*e],
        CmdCase::Define(s, e) => vec![*s, *e],
        CmdCase::Csa(es) => es.clone(),
        _ => vec![],
    }
}

pub fn cmd_to_impl(c: &CmdCase) -> SmtCommand {
    match c {
        CmdCase::Assert(e) => SmtCommand::Assert(*e),
        CmdCase::Declare(e) | CmdCase::DeclareNonSym(e) => SmtCommand::DeclareConst(*e),
        CmdCase::Define(s, e) => SmtCommand::DefineConst(*s, *e),
        CmdCase::Csa(es) => SmtCommand::CheckSatAssuming(es.clone()),
        CmdCase::GetValue(e) => SmtCommand::GetValue(*e),
        CmdCase::Push(n) => SmtCommand::Push(*n),
        CmdCase::Pop(n) => SmtCommand::Pop(*n),
        CmdCase::SetLogic(l) => SmtCommand::SetLogic(l.clone()),
        CmdCase::SetOption(k, v) => SmtCommand::SetOption(k.clone(), v.clone()),
        CmdCase::SetInfo(k, v) => SmtCommand::SetInfo(k.clone(), v.clone()),
        CmdCase::Exit => SmtCommand::Exit,
        CmdCase::CheckSat => SmtCommand::CheckSat,
        CmdCase::Gua => SmtCommand::GetUnsatAssumptions,
    }
}

pub fn dump_cmd(ctx: &Context, c: &CmdCase) -> (String, &'static str) {
    let d = |e: &ExprRef| dump_expr(ctx, *e);
    match c {
        CmdCase::Assert(e) => (format!("(assert {})", d(e)), "assert"),
        CmdCase::Declare(e) => (format!("(declare {})", d(e)), "declare"),
        CmdCase::DeclareNonSym(e) => (format!("(declare-nonsym {})", d(e)), "declare-nonsym"),
        CmdCase::Define(s, e) => (format!("(define {} {})", d(s), d(e)), "define"),
        CmdCase::Csa(es) => (format!("(csa{})", es.iter().map(|e| format!(" {}", d(e))).collect::<String>()), "check-sat-assuming"),
        CmdCase::GetValue(e) => (format!("(getvalue {})", d(e)), "get-value"),
        CmdCase::Push(n) => (format!("(push {n})"), "push"),
        CmdCase::Pop(n) => (format!("(pop {n})"), "pop"),
        CmdCase::SetLogic(l) => (format!("(setlogic {})", logic_name(l)), "set-logic"),
        CmdCase::SetOption(k, v) => (format!("(setoption {} {})", quote(k), quote(v)), "set-option"),
        CmdCase::SetInfo(k, v) => (format!("(setinfo {} {})", quote(k), quote(v)), "set-info"),
        CmdCase::Exit => ("(exit)".into(), "exit"),
        CmdCase::CheckSat => ("(checksat)".into(), "check-sat"),
        CmdCase::Gua => ("(gua)".into(), "get-unsat-assumptions"),
    }
}

pub fn parse_cmd(ctx: &mut Context, c: &Sexp) -> CmdCase {
    let l = c.list();
    let mut e = |i: usize, ctx: &mut Context| build_expr(ctx, &l[i]);
    match l[0].atom() {
        "assert" => CmdCase::Assert(e(1, ctx)),
        "declare" => CmdCase::Declare(e(1, ctx)),
        "declare-nonsym" => CmdCase::DeclareNonSym(e(1, ctx)),
        "define" => {
            let s = e(1, ctx);
            let v = e(2, ctx);
            CmdCase::Define(s, v)
        }
        "csa" => CmdCase::Csa((1..l.len()).map(|i| build_expr(ctx, &l[i])).collect()),
        "getvalue" => CmdCase::GetValue(e(1, ctx)),
        "push" => CmdCase::Push(l[1].num()),
        "pop" => CmdCase::Pop(l[1].num()),
        "setlogic" => CmdCase::SetLogic(match l[1].atom() {
            "ALL" => Logic::All,
            "QF_AUFBV" => Logic::QfAufbv,
            "QF_ABV" => Logic::QfAbv,
            _ => Logic::QfBv,
        }),
        "setoption" => CmdCase::SetOption(l[1].atom().to_string(), l[2].atom().to_string()),
        "setinfo" => CmdCase::SetInfo(l[1].atom().to_string(), l[2].atom().to_string()),
        "exit" => CmdCase::Exit,
        "checksat" => CmdCase::CheckSat,
        _ => CmdCase::Gua,
    }
}

enum Case {
    Expr { root: ExprRef, envs: Vec<Env> },
    Cmd(CmdCase),
}

fn run_case(id: &str, ctx: &Context, case: &Case, stats: &mut Stats, batch: &mut Vec<(String, SolverBatch)>) -> String {
    match case {
        Case::Expr { root, envs } => {
            let syms = symbols_of(ctx, &[*root]);
            let mut classes: Vec<&'static str> = vec![];
            for s in syms.iter() {
                let c = name_class(ctx.get_symbol_name(*s).unwrap());
                stats.bump("name_class", c);
                if !classes.contains(&c) {
                    classes.push(c);
                }
            }
            let root_ty = root.get_type(ctx);
            match root_ty {
                Type::BV(w) => stats.bump("root_type", &format!("bv{w}")),
                Type::Array(a) => stats.bump("root_type", &format!("arr{}x{}", a.index_width, a.data_width)),
            }
            stats.bump("tree_size", &format!("{}", (tree_size(ctx, *root, 400) / 10) * 10));
            position_hist(ctx, *root, stats);
            let decl_txt: String = syms.iter().map(|s| format!(" {}", dump_sym_decl(ctx, *s))).collect();
            let (text, panicloc) = match write_cmd(ctx, &SmtCommand::GetValue(*root)) {
                Ok(t) => (t, String::new()),
                Err(_) => {
                    stats.inc("impl_panics");
                    ("<panic>".to_string(), last_panic_loc())
                }
            };
            // indices at which array-typed results are observed
            let mut indices: Vec<BitVecValue> = vec![];
            if let Type::Array(a) = root_ty {
                if a.index_width <= 6 {
                    for i in 0..(1u64 << a.index_width) {
                        indices.push(BitVecValue::from_u64(i, a.index_width));
                    }
                } else {
                    indices.push(BitVecValue::zero(a.index_width));
                    indices.push(BitVecValue::ones(a.index_width));
                }
            }
            let envs_txt: String = envs.iter().map(|e| format!(" {}", dump_env(ctx, e))).collect();
            let idx_txt: String = indices.iter().map(|i| format!(" {}", bv_tok(i))).collect();
            let mut solver_txt = String::new();
            // only cases whose names SMT-LIB can express (and that are not reserved words) go to the solvers
            let solver_ok = classes.iter().all(|c| matches!(*c, "simple" | "needs-quoting" | "nonascii" | "derived" | "ascii-char"));
            if !batch.is_empty() {
                if solver_ok && !envs.is_empty() && text.starts_with("(get-value (") {
                    let term = text.trim_end().strip_prefix("(get-value (").unwrap().strip_suffix("))").unwrap_or("");
                    let decls: Vec<String> = syms.iter().map(|s| write_cmd(ctx, &SmtCommand::DeclareConst(*s)).unwrap_or_default()).collect();
                    let few: Vec<BitVecValue> = indices.iter().take(4).cloned().collect();
                    // cvc5 only accepts values as the argument of `(as const ..)` and stops at the first error
                    let nonlit_aconst = crate::exprgen::collect_nodes(ctx, *root)
                        .iter()
                        .any(|n| matches!(&ctx[*n], Expr::ArrayConstant { e, .. } if !matches!(ctx[*e], Expr::BVLiteral(_))));
                    let has_aeq = crate::exprgen::collect_nodes(ctx, *root).iter().any(|n| matches!(&ctx[*n], Expr::ArrayEqual(..)));
                    if let Some(script) = solver_script(ctx, &decls, term, root_ty, &envs[0], &few) {
                        for (name, b) in batch.iter_mut() {
                            if name == "cvc5" && nonlit_aconst {
                                stats.inc("cvc5_skipped_nonliteral_const_array");
                                continue;
                            }
                            // z3 4.8.12's model evaluator answers some extensional array equalities with `false` although the
                            // negation is unsatisfiable (and with quantified terms): its get-value is no evidence there
                            if name == "z3" && has_aeq {
                                stats.inc("z3_skipped_array_equality");
                                continue;
                            }
                            b.add(id, &script);
                        }
                        solver_txt = format!("@@SOLVER {id}@@");
                    }
                } else {
                    stats.inc("solver_skipped_name_class");
                }
            }
            format!(
                "(case {id} (kind expr) (expr {}) (syms{decl_txt}) (text {}) (envs{envs_txt}) (indices{idx_txt}) (solver{solver_txt}) (panicloc {}) (classes {}))",
                dump_expr(ctx, *root),
                quote(&text),
                quote(&panicloc),
                classes.join(" ")
            )
        }
        Case::Cmd(c) => {
            let exprs = cmd_exprs(c);
            let syms = symbols_of(ctx, &exprs);
            // for declare / define the symbol being introduced is not part of the context
            let intro: Option<ExprRef> = match c {
                CmdCase::Declare(s) | CmdCase::Define(s, _) => Some(*s),
                _ => None,
            };
            let mut classes: Vec<&'static str> = vec![];
            for s in syms.iter() {
                let cl = name_class(ctx.get_symbol_name(*s).unwrap());
                stats.bump("name_class", cl);
                if !classes.contains(&cl) {
                    classes.push(cl);
                }
            }
            let decl_txt: String = syms.iter().filter(|s| Some(**s) != intro).map(|s| format!(" {}", dump_sym_decl(ctx, *s))).collect();
            let (ctxt, kind) = dump_cmd(ctx, c);
            stats.bump("cmd_kind", kind);
            let (text, panicloc) = match write_cmd(ctx, &cmd_to_impl(c)) {
                Ok(t) => (t, String::new()),
                Err(_) => {
                    stats.inc("impl_panics");
                    ("<panic>".to_string(), last_panic_loc())
                }
            };
            format!("(case {id} (kind cmd) (cmd {ctxt}) (syms{decl_txt}) (text {}) (panicloc {}) (classes {}))", quote(&text), quote(&panicloc), classes.join(" "))
        }
    }
}

pub fn run(args: &Args) {
    let mut rng = Rng::new(args.seed);
    let mut out = std::io::BufWriter::new(std::fs::File::create(&args.out).expect("out file"));
    let mut stats = Stats::default();
    let mut distinct = HashSet::new();
    let solvers: Vec<String> = args.get("solver").map(|s| s.split(',').map(|x| x.to_string()).collect()).unwrap_or_default();
    let scratch = format!("{}.scratch", args.out);
    let mut batch: Vec<(String, SolverBatch)> = solvers.iter().map(|s| (s.clone(), SolverBatch::default())).collect();
    let mut lines: Vec<String> = vec![];
    let key_of = |line: &str| line[line.find("(kind").unwrap_or(0)..].to_string();
    if let Some(path) = args.get("cases-in") {
        for c in read_cases(path).iter() {
            let id = c.list()[1].atom().to_string();
            let mut ctx = Context::default();
            let case = if c.field("kind").map(|k| k[0].atom() == "cmd").unwrap_or(false) {
                Case::Cmd(parse_cmd(&mut ctx, &c.field("cmd").unwrap()[0]))
            } else {
                let root = build_expr(&mut ctx, &c.field("expr").unwrap()[0]);
                let envs = c.field("envs").unwrap_or(&[]).iter().map(|e| parse_env(&mut ctx, e)).collect();
                Case::Expr { root, envs }
            };
            let line = run_case(&id, &ctx, &case, &mut stats, &mut batch);
            distinct.insert(key_of(&line));
            stats.sample(&line, 3);
            lines.push(line);
        }
    }
    let n_envs = args.get_u64("envs", 2);
    for id in 0..args.count {
        let mut r = rng.fork();
        let mut ctx = Context::default();
        let case = {
            let mut g = Gen::new(&mut ctx, &mut r);
            g.plain_names = args.get("names").map(|v| v == "plain").unwrap_or(false);
            if let Some(m) = args.get("max-iw") {
                g.max_iw = m.parse().unwrap();
            }
            let depth = 1 + g.rng.below(5) as u32;
            let case = if g.rng.chance(1, 4) && args.get("only").map(|v| v != "expr").unwrap_or(true) || args.get("only") == Some("cmd") {
                Case::Cmd(gen_cmd(&mut g, &mut stats))
            } else {
                Case::Expr { root: g.root(depth), envs: vec![] }
            };
            for (k, v) in g.ops.iter() {
                stats.bump_n("ops", k, *v);
            }
            case
        };
        let case = match case {
            Case::Expr { root, .. } => {
                let syms = symbols_of(&ctx, &[root]);
                let envs = (0..n_envs).map(|_| random_env(&ctx, &mut r, &syms)).collect();
                Case::Expr { root, envs }
            }
            c => c,
        };
        let line = run_case(&format!("{id}"), &ctx, &case, &mut stats, &mut batch);
        distinct.insert(key_of(&line));
        stats.sample(&line, 3);
        lines.push(line);
    }
    if !batch.is_empty() {
        let outs: Vec<(String, &SolverBatch, std::collections::HashMap<String, String>)> = batch.iter().map(|(s, b)| (s.clone(), b, b.run(s, &scratch))).collect();
        for line in lines.iter_mut() {
            if let Some(p) = line.find("@@SOLVER ") {
                let rest = &line[p + 9..];
                let id = rest.split("@@").next().unwrap().to_string();
                let mut txt = String::new();
                for (s, b, m) in outs.iter() {
                    if !b.ids.contains(&id) {
                        continue;
                    }
                    let o = match m.get(&id) {
                        Some(o) => {
                            stats.bump("solver_runs", s);
                            o.clone()
                        }
                        None => {
                            stats.bump("solver_no_output", s);
                            "(error \"no output for this case\")".to_string()
                        }
                    };
                    txt.push_str(&format!(" ({} {})", quote(s), quote(&o)));
                }
                *line = line.replace(&format!("@@SOLVER {id}@@"), &txt);
            }
        }
    }
    for line in lines.iter() {
        writeln!(out, "{line}").unwrap();
    }
    stats.add("distinct_cases", distinct.len() as u64);
    stats.write(&args.out);
}
