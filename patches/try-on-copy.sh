#!/bin/sh
# patches/try-on-copy.sh <Cxx> <copy-of-/repo> [tier]
# Like /verif/tools/try_mutation.sh, but for THIS branch: runs ./check Cxx against a copy of cucapra/patronus in a scratch
# worktree of /verif at the branch's HEAD (harness path dependencies redirected to the copy). Never touches /repo.
# Optional: READER=Fix2 and/or WRITER=writer_fix in the environment set the driver constants code_variant / writer_variant
# of ocaml/driver/c08.ml in the scratch worktree (to check prepared patches that are not applied in /repo yet).
set -e
P=$1; R=$2; T=${3:-quick}
V=$(cd "$(dirname "$0")/.." && pwd)
M=/work/MUT-BTOR
[ -d "$M" ] || git -C "$V" worktree add -q -f "$M" -B wt-BTOR-scratch HEAD
cd "$M"
git checkout -q wt-BTOR-scratch 2>/dev/null || true
git reset -q --hard "$(git -C "$V" rev-parse HEAD)"
sed -i "s#/repo/patronus#$R/patronus#g" harness/Cargo.toml
cp -f "$R/Cargo.lock" harness/Cargo.lock 2>/dev/null || cp -f /repo/Cargo.lock harness/Cargo.lock
[ -z "$READER" ] || sed -i "s/^let code_variant = .*/let code_variant = $READER/" ocaml/driver/c08.ml
[ -z "$WRITER" ] || sed -i "s/^let writer_variant = .*/let writer_variant = $WRITER/" ocaml/driver/c08.ml
python3 tools/gen_coqproject.py && (cd coq && timeout 3000 make -j8 theories/Props/$P.vo >/dev/null 2>&1 || true)
./check "$P" "$T" > "/tmp/btor-try-$P.log" 2>&1 || true
grep -v "^KNOWN-FINDING" "/tmp/btor-try-$P.log" | grep -v "WARNING conda" | tail -3
