#!/bin/sh
# patches/verify-btor2-0008-0011.sh [tier]
# Verifies the prepared btor2 patches 0008..0011 (against /repo HEAD, where 0001..0007 are applied) in isolation; never touches /repo:
#   1. scratch clone of /repo at HEAD with the four patches applied; the whole test suite of the patronus crate runs there;
#   2. scratch worktree of /verif at this branch with the harness pointed at the patched copy, code_variant = Fix2,
#      writer_variant = writer_fix, and the C18/C08/C09 lines of known_findings.txt replaced by
#      patches/known_findings-btor2-after-0008-0011.txt;
#   3. ./check C18|C08|C09 <tier> there must exit 0.
# The clone and the scratch worktree are removed at the end.
set -e
T=${1:-quick}
V=$(cd "$(dirname "$0")/.." && pwd)
R=/tmp/btor-fix2
M=/work/MUT-BTOR
rm -rf "$R"
git clone -q /repo "$R"
for f in 0008-fix-btor2-writer-no-array-alias 0009-fix-btor2-ext-operand-bitvector 0010-fix-btor2-writer-input-labels 0011-fix-btor2-writer-last-label-carries-name; do
  (cd "$R" && git apply "$V/patches/$f.diff")
done
cp -n /repo/Cargo.lock "$R"/ 2>/dev/null || true
echo "== test suite of the patronus crate with 0008..0011 applied"
(cd "$R" && PATRONUS_TEST_SOLVER=z3 CARGO_NET_OFFLINE=true RUST_BACKTRACE=0 timeout 3000 cargo test --offline -p patronus --no-fail-fast 2>&1 | grep -E "^test result|FAILED$")
[ -d "$M" ] || git -C "$V" worktree add -q -f "$M" -B wt-BTOR-scratch HEAD
cd "$M"
git checkout -q wt-BTOR-scratch 2>/dev/null || true
git reset -q --hard "$(git -C "$V" rev-parse HEAD)"
sed -i "s#/repo/patronus#$R/patronus#g" harness/Cargo.toml
cp -f "$R/Cargo.lock" harness/Cargo.lock 2>/dev/null || cp -f /repo/Cargo.lock harness/Cargo.lock
sed -i 's/^let code_variant = .*/let code_variant = Fix2/; s/^let writer_variant = .*/let writer_variant = writer_fix/' ocaml/driver/c08.ml
grep -v -E '^(finding|fixed):[[:space:]]+property=(C18|C08|C09)\b' known_findings.txt > known_findings.new
cat patches/known_findings-btor2-after-0008-0011.txt >> known_findings.new
mv known_findings.new known_findings.txt
python3 tools/gen_coqproject.py && (cd coq && timeout 3000 make -j8 theories/Props/C18.vo theories/Props/C08.vo theories/Props/C09.vo >/dev/null 2>&1 || true)
rc=0
for p in C18 C08 C09; do
  ./check "$p" "$T" > "/tmp/btor-fix2check-$p.log" 2>&1 || rc=1
  grep -v "^KNOWN-FINDING" "/tmp/btor-fix2check-$p.log" | grep -v "WARNING conda" | tail -2
  grep "^KNOWN-FINDING" "/tmp/btor-fix2check-$p.log" | sed 's/.*(key=/   known finding observed: key=/'
done
cd "$V"
rm -rf "$R"
git -C "$V" worktree remove --force "$M"; git -C "$V" worktree prune; git -C "$V" branch -D -q wt-BTOR-scratch 2>/dev/null || true
exit $rc
