#!/bin/sh
# patches/verify-btor2-series.sh [tier]
# (historical: this series is applied in /repo since bbc1196..23e773b; for the patches prepared on top of it see verify-btor2-0008-0011.sh)
# Verifies the btor2 patch series in isolation (never touches /repo):
#   1. scratch worktree of /repo at HEAD with patches/000N-fix-btor2-*.diff applied, the repository's btor2 tests run there;
#   2. scratch worktree of /verif at this branch with the harness pointed at the patched copy, code_variant = Fix and the
#      C18/C08/C09 lines of known_findings.txt replaced by patches/known_findings-btor2-after-series.txt;
#   3. ./check C18|C08|C09 <tier> there must exit 0.
set -e
T=${1:-quick}
V=$(cd "$(dirname "$0")/.." && pwd)
R=/tmp/btor-fix
M=/work/MUT-BTOR
if [ ! -d "$R" ]; then git -C /repo worktree add --detach "$R" HEAD >/dev/null; fi
(cd "$R" && git checkout -q -- . && for f in "$V"/patches/000?-fix-btor2-*.diff; do git apply "$f"; done && cp -n /repo/Cargo.lock . 2>/dev/null || true)
echo "== btor2 tests of the repository with the series applied"
(cd "$R" && CARGO_NET_OFFLINE=true RUST_BACKTRACE=0 timeout 3000 cargo test --offline -p patronus --test btor2_test --test btor2_witness_tests 2>&1 | grep -E "^test result|FAILED$")
(cd "$R" && CARGO_NET_OFFLINE=true timeout 3000 cargo test --offline -p patronus --lib btor2 2>&1 | grep -E "^test result|FAILED$")
[ -d "$M" ] || git -C "$V" worktree add -q -f "$M" -B wt-BTOR-fixcheck HEAD
cd "$M"
git checkout -q wt-BTOR-fixcheck 2>/dev/null || true
git reset -q --hard "$(git -C "$V" rev-parse HEAD)"
sed -i "s#/repo/patronus#$R/patronus#g" harness/Cargo.toml
cp -f "$R/Cargo.lock" harness/Cargo.lock 2>/dev/null || cp -f /repo/Cargo.lock harness/Cargo.lock
sed -i 's/^let code_variant = Cur$/let code_variant = Fix/' ocaml/driver/c08.ml
grep -v -E '^(finding|fixed):[[:space:]]+property=(C18|C08|C09)\b' known_findings.txt > known_findings.new
cat patches/known_findings-btor2-after-series.txt >> known_findings.new
mv known_findings.new known_findings.txt
python3 tools/gen_coqproject.py && (cd coq && timeout 3000 make -j8 theories/Props/C18.vo theories/Props/C08.vo theories/Props/C09.vo >/dev/null 2>&1 || true)
rc=0
for p in C18 C08 C09; do
  ./check "$p" "$T" > "/tmp/btor-fixcheck-$p.log" 2>&1 || rc=1
  grep -v "^KNOWN-FINDING" "/tmp/btor-fixcheck-$p.log" | grep -v "WARNING conda" | tail -2
  grep -c "^KNOWN-FINDING" "/tmp/btor-fixcheck-$p.log" | sed "s/^/   known findings observed: /"
done
exit $rc
