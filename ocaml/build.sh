#!/bin/sh
# Builds the extracted model + driver into /verif/.build/ocaml/driver (offline, ocamlfind ocamlopt).
set -e
V=$(cd "$(dirname "$0")/.." && pwd)
B="$V/.build/ocaml"
mkdir -p "$B"
python3 "$V/tools/gen_extract.py"
cd "$B"
# re-extract only when the extraction file or any compiled model changed
stamp="$B/.extract.stamp"
if [ ! -f model.ml ] || [ -n "$(find "$V/coq/Extract.v" "$V/coq/theories" -name '*.vo' -newer "$stamp" 2>/dev/null | head -1)" ] || [ "$V/coq/Extract.v" -nt "$stamp" ] || [ ! -f "$stamp" ]; then
  coqc -Q "$V/coq/theories/Spec" Patronus -Q "$V/coq/theories/Model" Patronus "$V/coq/Extract.v" >/dev/null
  touch "$stamp"
fi
cp "$V"/ocaml/driver/*.ml "$B"/
mods="sexp.ml registry.ml conv.ml $(cd "$V/ocaml/driver" && ls c[0-9]*.ml | sort | tr '\n' ' ') main.ml"
ocamlfind ocamlopt -O3 -w -a -package str -linkpkg model.mli model.ml $mods -o driver 2>/dev/null || \
ocamlfind ocamlopt -w -a -package str -linkpkg model.mli model.ml $mods -o driver
