#!/bin/sh
# Builds .build/ocaml/driver: one extracted model PER PROPERTY (coq/extract.d/Cxx.roots + common.roots ->
# model_cxx.ml), each with its own instance of conv.ml / evalutil.ml and its driver module cxx.ml.  Separate
# extractions keep constructor/function names stable when new models are added (no cross-property renaming).
set -e
V=$(cd "$(dirname "$0")/.." && pwd)
exec python3 "$V/tools/build_driver.py"
