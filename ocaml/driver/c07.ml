(* C07: the simulator executes the transition-system semantics.  Case:
   (case ID (sys ...) (ops OP ...))   -- see harness/src/c07.rs for OP and R
   Per operation three results are compared:
     impl   what patronus' Interpreter did (recorded by the harness),
     model  Model.exec  (Model/Sim.v, the Gallina model of interpreter.rs + SymbolValueStore),
     spec   Model.spec_exec (Spec/SimSpec.v: init_seq / next_env / upd_bv / eval), the property oracle,
            consulted while the system and the history so far lie in the property's domain
            (sim_ok, history starts with init, op_ok).
   impl <> spec inside the domain            -> fail
   impl <> model (outside the domain, or with the oracle satisfied) -> diff
   model <> spec inside the domain           -> error (contradicts theorem C07_sim_refines_semantics) *)
open Model
open Conv

let rec nat_of_int (i : int) : nat = if i <= 0 then O else S (nat_of_int (i - 1))
let rec int_of_nat = function O -> 0 | S n -> 1 + int_of_nat n

let show_bv w v = Printf.sprintf "(bv %d b%s)" (int_of_n w) (bits_of_n_loose (int_of_n w) v)
let show_arr iw dw f =
  let n = 1 lsl (int_of_n iw) in
  let b = Buffer.create 64 in
  Buffer.add_string b (Printf.sprintf "(arr %d %d" (int_of_n iw) (int_of_n dw));
  for i = 0 to n - 1 do
    Buffer.add_string b (" b" ^ bits_of_n_loose (int_of_n dw) (f (n_of_int i)))
  done;
  Buffer.add_char b ')';
  Buffer.contents b
let show_num n = Printf.sprintf "(num %s)" (dec_of_n n)

let show_obs = function
  | ONone -> "(ok)"
  | OVal (SBV (w, v)) -> show_bv w v
  | OVal (SArr (iw, dw, f)) -> show_arr iw dw f
  | ONum n -> show_num n

let show_sobs = function
  | SNone -> "(ok)"
  | SVal (VBV (w, v)) -> show_bv w v
  | SVal (VArr (iw, dw, f)) -> show_arr iw dw f
  | SNum n -> show_num n

(* the implementation's result, canonical text; panic locations are not compared *)
let show_impl (r : Sexp.t) : string * string =
  match r with
  | Sexp.List (Sexp.Atom "panic" :: rest) -> ("(panic)", (match rest with [l] -> Sexp.atom l | _ -> "?"))
  | _ -> (Sexp.to_string r, "")

let oracle_of (vs : Sexp.t list) : nat -> (n * (n -> n)) =
  let tbl = Array.of_list (List.map (function
      | Sexp.List (Sexp.Atom "arr" :: _ :: _ :: vals) ->
          let a = Array.of_list (List.map num vals) in
          (* total on every N: the extracted machine also applies array values to indices it then discards
             (strict evaluation of [run_node] in [Model.step]), and those need not fit an OCaml int *)
          let len = n_of_int (Array.length a) in
          (N0, (fun i -> if N.ltb i len then a.(int_of_n i) else N0))
      | x -> (num x, (fun _ -> N0))) vs) in
  fun pos -> let k = int_of_nat pos in if k < Array.length tbl then tbl.(k) else (N0, (fun _ -> N0))

(* one parsed operation: the model op, its kind, the implementation's result, extra flags *)
type pop = { o : op; kind : string; impl : Sexp.t; det_differs : bool; det_crashed : bool }

let last l = List.nth l (List.length l - 1)

let parse_op (x : Sexp.t) : pop =
  match x with
  | Sexp.List (Sexp.Atom "init" :: Sexp.Atom "zero" :: rest) ->
      { o = OInit KZero; kind = "init-zero"; impl = last rest; det_differs = false; det_crashed = false }
  | Sexp.List (Sexp.Atom "init" :: Sexp.Atom "random" :: _seed :: rest) ->
      let orc = Sexp.field "oracle" rest in
      let det = match Sexp.field_opt "det" rest with Some [Sexp.Atom d] -> d | _ -> "ok" in
      { o = OInit (KRandom (oracle_of orc)); kind = "init-random"; impl = last rest;
        det_differs = (det = "differs"); det_crashed = (det <> "ok" && det <> "differs") }
  | Sexp.List [Sexp.Atom "set"; s; v; r] ->
      let bits = Sexp.atom v in
      let w = n_of_int (String.length bits - 1) in
      { o = OSet (expr_of_sexp s, w, num v); kind = "set"; impl = r; det_differs = false; det_crashed = false }
  | Sexp.List [Sexp.Atom "step"; r] -> { o = OStep; kind = "step"; impl = r; det_differs = false; det_crashed = false }
  | Sexp.List [Sexp.Atom "get"; e; r] -> { o = OGet (expr_of_sexp e); kind = "get"; impl = r; det_differs = false; det_crashed = false }
  | Sexp.List [Sexp.Atom "count"; r] -> { o = OCount; kind = "count"; impl = r; det_differs = false; det_crashed = false }
  | Sexp.List [Sexp.Atom "snapshot"; r] -> { o = OSnapshot; kind = "snapshot"; impl = r; det_differs = false; det_crashed = false }
  | Sexp.List [Sexp.Atom "restore"; i; _id; r] -> { o = ORestore (num i); kind = "restore"; impl = r; det_differs = false; det_crashed = false }
  | _ -> raise (Sexp.Parse_error ("bad op " ^ Sexp.to_string x))

let root_tag (e : expr) : string =
  match sexp_of_expr e with Sexp.List (Sexp.Atom t :: _) -> t | _ -> "?"

let handle (x : Sexp.t) : string =
  let id, fs = case_fields x in
  let sy = sys_of_sexp (List.find (function Sexp.List (Sexp.Atom "sys" :: _) -> true | _ -> false) fs) in
  let ops = List.map parse_op (Sexp.field "ops" fs) in
  let well_formed_sys = sim_ok sy in
  (* kernel cross-check: the model's and the specification's observations for the whole history, computed independently of
     what the implementation did: model until it crashes / leaves the modelled part, specification while the history is in
     the property's domain (every snapshot operation counted) *)
  Registry.set_model_lazy (fun () ->
      let ms = ref (Some sim0) in
      let mtxt = List.map (fun p ->
          match !ms with
          | None -> "-"
          | Some s ->
              (match exec sy s p.o with
               | Done (s', b) -> ms := Some s'; show_obs b
               | Crash -> ms := None; "(panic)"
               | Unmodelled -> ms := None; "(unmodelled)")) ops in
      let d = ref (well_formed_sys && (match ops with { o = OInit _; _ } :: _ -> true | _ -> false)) in
      let ns = ref 0 and st = ref sstate0 and fst_op = ref true in
      let stxt = List.map (fun p ->
          if not !fst_op then d := !d && op_ok sy (nat_of_int !ns) p.o;
          fst_op := false;
          let r = if !d then begin let (s', b) = spec_exec sy !st p.o in st := s'; show_sobs b end else "-" in
          (match p.o with OSnapshot -> incr ns | _ -> ());
          r) ops in
      Printf.sprintf "(c07 %s (%s) (%s))" (if well_formed_sys then "true" else "false") (String.concat " " mtxt) (String.concat " " stxt));
  let dom = ref (well_formed_sys && (match ops with { o = OInit _; _ } :: _ -> true | _ -> false)) in
  let nsnaps = ref 0 in
  let ms = ref sim0 and ss = ref sstate0 in
  let last_mut = ref "start" in
  let verdict = ref None in            (* (status, key, detail) of the first disagreement *)
  let soft_verdict = ref None in
  let unmodelled = ref false in
  let n = ref 0 in
  let first = ref true in
  (try
     List.iter (fun p ->
         incr n;
         if not !first then dom := !dom && op_ok sy (nat_of_int !nsnaps) p.o;
         first := false;
         let impl, loc = show_impl p.impl in
         let where = Printf.sprintf "op %d (%s, after %s)" !n p.kind !last_mut in
         let model =
           match exec sy !ms p.o with
           | Done (s', b) -> ms := s'; Some (show_obs b)
           | Crash -> Some "(panic)"
           | Unmodelled -> None in
         let spec =
           if !dom then begin
             let (s', b) = spec_exec sy !ss p.o in
             ss := s'; Some (show_sobs b)
           end else None in
         let what = match p.o with OGet e -> p.kind ^ ":" ^ root_tag e | _ -> p.kind in
         (match spec with
          | Some sp ->
              if p.det_differs then begin
                verdict := Some ("fail", "random-init-not-deterministic", where); raise Exit
              end;
              if p.det_crashed then begin
                verdict := Some ("fail", "panic-reading-back-after-random-init", where); raise Exit
              end;
              if impl <> sp then begin
                let key = if impl = "(panic)" then "panic@" ^ loc else Printf.sprintf "value:%s:after-%s" what !last_mut in
                (* the property speaks of the values read (and of not crashing); the numbering of snapshot ids
                   and the step counter are compared as correspondence only *)
                let soft = impl <> "(panic)" && (p.kind = "count" || p.kind = "snapshot") in
                let d = Printf.sprintf "%s impl=%s spec=%s model=%s" where impl sp
                    (match model with Some m -> m | None -> "(unmodelled)") in
                if soft then begin
                  (* remembered, the history goes on: a wrong id numbering usually shows as a failing restore *)
                  if !soft_verdict = None then soft_verdict := Some ("diff", key, d)
                end else begin
                  verdict := Some ("fail", key, d); raise Exit
                end
              end;
              (match model with
               | Some m when m <> sp ->
                   verdict := Some ("error", "model-vs-spec", Printf.sprintf "%s model=%s spec=%s" where m sp); raise Exit
               | None -> verdict := Some ("error", "model-unmodelled-inside-domain", where); raise Exit
               | _ -> ())
          | None ->
              (match model with
               | None -> unmodelled := true; raise Exit
               | Some m ->
                   if impl <> m then begin
                     verdict := Some ("diff", Printf.sprintf "outside-domain:%s" what,
                                      Printf.sprintf "%s impl=%s%s model=%s" where impl (if loc = "" then "" else "@" ^ loc) m);
                     raise Exit
                   end));
         if impl = "(panic)" then raise Exit;
         (match p.o with
          | OSnapshot -> incr nsnaps
          | OInit _ | OSet _ | OStep | ORestore _ -> last_mut := p.kind
          | _ -> ())) ops
   with Exit -> ());
  (* the harness compared the reads of a continuation with the reads of its replay after the restore *)
  (match Sexp.field_opt "replay" fs with
   | Some [_; _; _; Sexp.Atom "differs"] when !dom && !verdict = None ->
       verdict := Some ("fail", "restore-replay-reads-differ", "the replayed continuation read other values than the first time")
   | _ -> ());
  match (match !verdict with Some v -> Some v | None -> !soft_verdict) with
  | Some (status, key, detail) -> Registry.result ~id ~status ~key ~detail ()
  | None ->
      if !unmodelled then Registry.result ~id ~status:"skip" ~key:"unmodelled-store-misuse" ()
      else Registry.result ~id ~status:"ok" ~key:(if !dom then "in-domain" else "outside-domain") ()

let () = Registry.register "C07" handle
