(* C03: every reported counterexample is a real execution that hits a bad state.
   Case format: see harness/src/c02.rs.  Oracle: the extracted Model.check_witness on every Fail
   witness (against the ORIGINAL system, also for runs on the simplified copy), plus the verdict of
   the replay through patronus::sim::Interpreter done by the harness.
   Tie of the witness extraction (Model.get_witness, Props/C03.v C03_bmc_witness_accepted): the harness records
   every get-value call of the run (queried symbol, value read back); C00mc.witness_tie checks that the model
   queries the same symbols in the same order and assembles the same witness from the recorded values. *)
open Model
open Conv
open C00mc

let handle (x : Sexp.t) : string =
  let id, fs = case_fields x in
  let sy = sys_of_case fs in
  let simp_sy = match Sexp.field_opt "simp" fs with
    | Some [Sexp.List (Sexp.Atom "sys" :: sfs)] -> Some (sys_of_sexp (Sexp.List (Sexp.Atom "sys" :: sfs)))
    | _ -> None in
  if int_of_n (sys_bits sy) > C02.max_bits then Registry.result ~id ~status:"skip" ~key:"too-large-for-oracle" ()
  else begin
    let fail = ref None in
    let set_fail key d = if !fail = None then fail := Some (key, d) in
    let n_wit = ref 0 and distinct = ref [] and n_sim_ok = ref 0 and n_sim_skip = ref 0 and n_tie = ref 0 in
    (* witnesses by entry point: pdr (BMC fallback after the restart), bmc with check_constraints = true *)
    let n_pdr = ref 0 and n_cc = ref 0 and n_pdr_runs = ref 0 in
    let nm = names_with_fallback fs in
    let diff = ref None in
    List.iter (fun r ->
        if r.r_mode = "pdr" then incr n_pdr_runs;
        match r.r_result with
        | Sexp.List (Sexp.Atom "fail" :: wx :: rest) ->
            incr n_wit;
            if r.r_mode = "pdr" then incr n_pdr;
            if contains r.r_mode "+cc" then incr n_cc;
            let w = witness_of_sexp wx in
            if not (List.mem wx !distinct) then distinct := wx :: !distinct;
            if not (check_witness sy w) then begin
              let part =
                if not (witness_shape_ok sy w) then "shape"
                else if not (is_initial_b sy (witness_env0 sy w)) then "initial-values-disagree-with-init-expressions"
                else "replay-does-not-reach-the-claimed-bad-states" in
              let only_simp = r.r_simp = "simplified" && (match simp_sy with Some s2 -> check_witness s2 w | None -> false) in
              set_fail (if only_simp then "witness:valid-for-the-simplified-system-only" else "witness:" ^ part)
                (Printf.sprintf "%s: check_witness rejects %s" (run_tag r) (Sexp.to_string wx))
            end;
            (* the model of get_witness on the recorded get-value answers *)
            (match queries_of_fail rest with
             | Some qs ->
                 incr n_tie;
                 let simp = r.r_simp = "simplified" in
                 let the_sys = if simp then (match simp_sy with Some s -> s | None -> sy) else sy in
                 (* a run in a child process rebuilds the system: its internal signal names are its own *)
                 (match witness_tie ~exact_bad_names:(not simp && r.r_session <> "child") the_sys nm wx qs with
                  | Some d -> if !diff = None then diff := Some (Printf.sprintf "%s: %s" (run_tag r) d)
                  | None -> ())
             | None -> ());
            (match List.filter (function Sexp.List (Sexp.Atom "sim" :: _) -> true | _ -> false) rest with
             | [Sexp.List [Sexp.Atom "sim"; m]] ->
                 let m = Sexp.atom m in
                 if m = "ok" then incr n_sim_ok
                 else if contains m "skipped" then incr n_sim_skip
                 else set_fail "witness:interpreter-replay" (Printf.sprintf "%s: %s on %s" (run_tag r) m (Sexp.to_string wx))
             | _ -> ())
        | _ -> ()) (runs_of_case fs);
    match !fail with
    | Some (key, d) -> Registry.result ~id ~status:"fail" ~key ~detail:d ()
    | None ->
        match !diff with
        | Some d -> Registry.result ~id ~status:"diff" ~key:"witness-differs-from-model" ~detail:d ()
        | None ->
        if !n_wit = 0 then Registry.result ~id ~status:"skip" ~key:"no-witness" ()
        else Registry.result ~id ~status:"ok" ~key:"witnesses-valid"
            ~detail:(Printf.sprintf "%d witnesses (%d distinct) accepted by check_witness (%d from pdr in %d pdr runs, %d from bmc with check_constraints); %d equal to the model's get_witness on the recorded values; simulator: %d ok, %d skipped" !n_wit (List.length !distinct) !n_pdr !n_pdr_runs !n_cc !n_tie !n_sim_ok !n_sim_skip) ()
  end

let () = Registry.register "C03" handle
