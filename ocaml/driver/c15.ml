(* C15: solver faults surface as errors, never as verdicts or hangs.
   Case (see harness/src/c15.rs):
   (case ID (engine bmc|pdr) (solver z3) (kmax K) (ind 0|1) (cc 0|1) (nbads n) (nstates n) (ninputs n) (nopts n)
         (point P|-1) (npoints N) (kind K) (fault "kind") (reply "real reply") (cmds n0 n1 ..)
         (lines "l\n" ..) (faultlines "l\n" ..) (tail eof CODE "stderr" | alive) (after n)
         (nominal OUTCOME) (impl OUTCOME) (pre OUTCOME|none) (sys ..))

   Correspondence: the extracted model (Model.SIO) is run on the very bytes the client could read
   (BMC: the whole conversation through [bmc_session]; PDR: the faulty call through [one_*]), in
   two variants - [repo_reader] (the variant that mirrors read_response of the /repo under test, see
   below) and [Cur] (the code before the repairs).
   Property oracle (independent of the model): with a fault injected the run must end with an error
   (carrying the solver's message unmangled) or with the fault-free verdict only when the faulty reply
   still delivered the answer intact (split / pad / reply-then-exit); never hang, never panic. *)
open Model
open SIO

let cl_of_string (s : string) : char list = List.init (String.length s) (String.get s)
let string_of_cl (l : char list) : string = String.of_seq (List.to_seq l)
let rec nat_of_int (n : int) : nat = if n <= 0 then O else S (nat_of_int (n - 1))
let rec int_of_nat = function O -> 0 | S n -> 1 + int_of_nat n

(* ---- outcomes, canonical form: (class, sub, text) *)
type outcome = { cls : string; sub : string; text : string; k : int }
let mk cls sub text k = { cls; sub; text; k }

let outcome_of_sexp (x : Sexp.t) : outcome =
  match x with
  | Sexp.List (Sexp.Atom "verdict" :: Sexp.Atom "fail" :: kk :: rest) ->
      mk "verdict" "fail" (match rest with [w] -> Sexp.atom w | _ -> "") (int_of_string (Sexp.atom kk))
  | Sexp.List [Sexp.Atom "verdict"; v] -> mk "verdict" (Sexp.atom v) "" 0
  | Sexp.List (Sexp.Atom "err" :: kind :: _name :: rest) ->
      mk "err" (Sexp.atom kind) (match rest with [t] -> Sexp.atom t | _ -> "") 0
  | Sexp.List (Sexp.Atom "panic" :: loc :: _) -> mk "panic" (Sexp.atom loc) "" 0
  | Sexp.List (Sexp.Atom "hang" :: _) -> mk "hang" "" "" 0
  | Sexp.List (Sexp.Atom c :: _) -> mk c "" "" 0
  | _ -> mk "?" "" "" 0

let show (o : outcome) : string =
  match o.cls with
  | "verdict" -> if o.sub = "fail" then Printf.sprintf "verdict fail@%d" o.k else "verdict " ^ o.sub
  | "err" -> Printf.sprintf "err %s %S" o.sub o.text
  | "panic" -> "panic@" ^ o.sub
  | c -> c

let outcome_of_err (e : err) : outcome =
  match e with
  | EIo -> mk "err" "io" "" 0
  | EStackUnderflow -> mk "err" "stack-underflow" "" 0
  | EFromSolver m -> mk "err" "from-solver" (string_of_cl m) 0
  | ESolverDead -> mk "err" "solver-dead" "" 0
  | EUnexpected r -> mk "err" "unexpected" (string_of_cl r) 0
  | EParser -> mk "err" "parser" "" 0

let outcome_of_res (f : 'a -> outcome) (r : 'a res) : outcome =
  match r with
  | Ok (a, _) -> f a
  | Err (e, _) -> outcome_of_err e
  | Panic loc -> mk "panic" (string_of_cl loc) "" 0
  | Blocked -> mk "hang" "blocked" "" 0
  | OutOfFuel -> mk "hang" "spinning" "" 0

let outcome_of_verdict = function
  | VSuccess -> mk "verdict" "success" "" 0
  | VUnknown -> mk "verdict" "unknown" "" 0
  | VFail (k, _) -> mk "verdict" "fail" "" (int_of_nat k)

(* same outcome?  parser/io messages and witness digests are not the model's business *)
let same (m : outcome) (i : outcome) : bool =
  m.cls = i.cls
  && (match m.cls with
      | "verdict" -> m.sub = i.sub && (m.sub <> "fail" || m.k = i.k)
      | "err" -> m.sub = i.sub && (m.sub = "parser" || m.sub = "io" || m.sub = "solver-dead" || m.text = i.text)
      | "panic" ->
          (* the location is recorded, only the FILE is compared (DESIGN section 4): line numbers drift with every edit *)
          let file x = match String.index_opt x ':' with Some k -> String.sub x 0 k | None -> x in
          file m.sub = file i.sub
      | _ -> true)

(* ---- a stand-in for smt/parser.rs on the replies that occur here (untrusted, correspondence only):
   get-value replies are ((term value)), get-unsat-assumptions replies are ( term* ) *)
type sx = A | L of sx list
exception Bad
let parse_sx (s : string) : sx =
  let n = String.length s in
  let pos = ref 0 in
  let ws c = c = ' ' || c = '\t' || c = '\n' || c = '\r' in
  let rec skip () = while !pos < n && ws s.[!pos] do incr pos done
  and item () =
    skip ();
    if !pos >= n then raise Bad;
    match s.[!pos] with
    | '(' ->
        incr pos;
        let items = ref [] in
        let rec loop () =
          skip ();
          if !pos >= n then raise Bad;
          if s.[!pos] = ')' then incr pos else (items := item () :: !items; loop ())
        in
        loop ();
        L (List.rev !items)
    | ')' -> raise Bad
    | '|' ->
        incr pos;
        while !pos < n && s.[!pos] <> '|' do incr pos done;
        if !pos >= n then raise Bad;
        incr pos;
        A
    | '"' ->
        incr pos;
        while !pos < n && s.[!pos] <> '"' do incr pos done;
        if !pos >= n then raise Bad;
        incr pos;
        A
    | _ ->
        while !pos < n && not (ws s.[!pos]) && s.[!pos] <> '(' && s.[!pos] <> ')' do incr pos done;
        A
  in
  let r = item () in
  skip ();
  if !pos <> n then raise Bad;
  r

let rec atoms_of_string (s : string) : string list =
  (* tokens: parentheses and maximal runs of other non-blank characters (|..| and ".." kept whole) *)
  let n = String.length s in
  let out = ref [] and pos = ref 0 in
  let ws c = c = ' ' || c = '\t' || c = '\n' || c = '\r' in
  while !pos < n do
    let c = s.[!pos] in
    if ws c then incr pos
    else if c = '(' || c = ')' then (out := String.make 1 c :: !out; incr pos)
    else begin
      let start = !pos in
      if c = '|' || c = '"' then begin
        incr pos;
        while !pos < n && s.[!pos] <> c do incr pos done;
        if !pos < n then incr pos
      end else
        while !pos < n && not (ws s.[!pos]) && s.[!pos] <> '(' && s.[!pos] <> ')' do incr pos done;
      out := String.sub s start (!pos - start) :: !out
    end
  done;
  List.rev !out

(* The stand-in accepts a reply iff it is well-formed AND token-for-token the reply the real solver gave at
   this point (the only accepted replies that occur here are the real one, split or padded). *)
let parse_value_as (real : string) (t : char list) : bool =
  let s = string_of_cl t in
  (not (String.contains s '"')) &&   (* smt/parser.rs has no string literals in expressions *)
  (match parse_sx s with L [L [_; _]] -> true | _ -> false | exception Bad -> false)
  && (real = "" || atoms_of_string s = atoms_of_string real)
let parse_core_as (real : string) (t : char list) : bool =
  let s = string_of_cl t in
  (not (String.contains s '"')) &&
  (match parse_sx s with L _ -> true | _ -> false | exception Bad -> false)
  && (real = "" || atoms_of_string s = atoms_of_string real)

(* naive and quote-aware parenthesis balance of the text written at the faulty point *)
let naive_balance (s : string) : int =
  let n = ref 0 in
  String.iter (fun c -> if c = '(' then incr n else if c = ')' then decr n) s;
  !n
let aware_scan (s : string) : int * bool =
  let n = ref 0 and in_str = ref false and in_bar = ref false in
  String.iter (fun c ->
      if !in_str then (if c = '"' then in_str := false)
      else if !in_bar then (if c = '|' then in_bar := false)
      else match c with '"' -> in_str := true | '|' -> in_bar := true | '(' -> incr n | ')' -> decr n | _ -> ()) s;
  (!n, !in_str || !in_bar)
let aware_balance (s : string) : int = fst (aware_scan s)
(* lexically incomplete: parentheses still open outside literals, or the text ends inside a string literal / |symbol| *)
let lexically_open (s : string) : bool = let (n, inside) = aware_scan s in n > 0 || inside

(* the message of an (error "...") reply: text between the first and the last double quote *)
let error_reply_message (line : string) : string option =
  let t = String.trim line in
  if String.length t >= 6 && String.sub t 0 6 = "(error" then
    match String.index_opt t '"', String.rindex_opt t '"' with
    | Some a, Some b when a < b -> Some (String.sub t (a + 1) (b - a - 1))
    | _ -> Some t
  else None

let via_nominal : 'a. outcome -> 'a res -> outcome = fun nominal r -> outcome_of_res (fun _ -> nominal) r

let fuel = nat_of_int 1500

(* THE SWITCH.  Which variant of Model/SolverIO.v mirrors SmtLibSolverCtx::read_response of the /repo under test:
     Fix   the lines of one reply are joined with an extra blank (self.response.push(' ')): /repo today;
     Fix2  joined as read: /repo once patches/0019-fix-read-response-no-extra-blank.diff is committed there.
   Flip this one constant to [Fix2] together with the known_findings.txt edit described in NOTES-c15ml.md. *)
let repo_reader : variant = Fix2
let repo_reader_name = match repo_reader with Cur -> "cur" | Fix -> "fix" | Fix2 -> "fix2"

let handle (c : Sexp.t) : string =
  let fields = match c with Sexp.List (_ :: _ :: f) -> f | _ -> raise (Sexp.Parse_error "case") in
  let id = match c with Sexp.List (_ :: i :: _) -> Sexp.atom i | _ -> "?" in
  let f1 k = Sexp.atom (Sexp.field1 k fields) in
  let fint k = int_of_string (f1 k) in
  let engine = f1 "engine" in
  let point = fint "point" in
  let kind = f1 "kind" in
  let fault = f1 "fault" in
  let real_reply = f1 "reply" in
  let fault_kind = match String.index_opt fault ':' with Some i -> String.sub fault 0 i | None -> fault in
  let lines = List.map Sexp.atom (Sexp.field "lines" fields) in
  let faultlines = List.map Sexp.atom (Sexp.field "faultlines" fields) in
  let cmds = List.map (fun x -> int_of_string (Sexp.atom x)) (Sexp.field "cmds" fields) in
  let tail_f = Sexp.field "tail" fields in
  let eof, exit_obs =
    match tail_f with
    | [Sexp.Atom "eof"; code; text] -> (true, Some (int_of_string (Sexp.atom code) = 0, cl_of_string (Sexp.atom text)))
    | _ -> (false, None)
  in
  let impl = outcome_of_sexp (Sexp.field1 "impl" fields) in
  let nominal = outcome_of_sexp (Sexp.field1 "nominal" fields) in
  let after = match Sexp.field_opt "after" fields with Some [x] -> int_of_string (Sexp.atom x) | _ -> 1 in
  let rec rep n x = if n <= 0 then [] else x :: rep (n - 1) x in
  let nth_cmd p = try List.nth cmds p with _ -> 0 in

  (* ---------------- the model's prediction, both variants *)
  let predict (v : variant) : outcome =
    if engine = "bmc" then begin
      let cc = fint "cc" = 1 and ind = fint "ind" = 1 in
      let nbads = fint "nbads" in
      let pps = (if cc then 1 else 0) + (if ind then nbads else 1) in
      let nopts = fint "nopts" in
      (* writes between response points, read off the fault-free run *)
      let total0 = match Sexp.field_opt "totals" fields with Some (t :: _) -> int_of_string (Sexp.atom t) | _ -> 0 in
      let ncmds = List.length cmds in
      let gap i =
        if ncmds = 0 then 0
        else if i = 0 then nth_cmd 0 - 1
        else if i < ncmds then nth_cmd i - nth_cmd (i - 1) - 1
        else if i = ncmds then max 0 (total0 - nth_cmd (ncmds - 1))   (* what follows the last response point *)
        else 0 in
      let cfg = { k_max = nat_of_int (fint "kmax"); n_bads = nat_of_int nbads; n_states = nat_of_int (fint "nstates");
                  n_inputs = nat_of_int (fint "ninputs"); chk_constraints = cc; individually = ind;
                  nw_header = nat_of_int (max 0 (gap 0 - nopts)); nw_step = (fun _ -> O);
                  nw_unroll = (fun k -> nat_of_int (gap ((int_of_nat k + 1) * pps))) } in
      let w = { w_lines = List.map cl_of_string lines; w_tail = (if eof then TEof else TAlive);
                w_waits = (if eof then rep (max 0 point) None else []); w_wait_dflt = (if eof then exit_obs else None);
                w_writes = (if eof then rep (nth_cmd point) WOk @ rep 64 WBrokenPipe else []); w_reads = O } in
      outcome_of_res outcome_of_verdict (bmc_session (parse_value_as "") v fuel (nat_of_int nopts) cfg w)
    end else begin
      (* PDR: the faulty call alone (every call of pdr.rs propagates errors with `?`) *)
      let w = { w_lines = List.map cl_of_string faultlines; w_tail = (if eof then TEof else TAlive);
                w_waits = []; w_wait_dflt = (if eof then exit_obs else None);
                w_writes = (if eof then WOk :: rep 64 WBrokenPipe else []); w_reads = O } in
      let more = after > 0 in
      match kind with
      | "check-sat" | "check-sat-assuming" -> via_nominal nominal (one_check_sat_then more v fuel w)
      | "get-value" -> via_nominal nominal (one_get (parse_value_as real_reply) more v fuel w)
      | "get-unsat-assumptions" -> via_nominal nominal (one_get_unsat (parse_core_as real_reply) more v fuel w)
      | _ -> nominal
    end
  in
  (* context-level faults (FaultyCtx in the worker: a check answers Ok(Unknown), a call returns Err) are below the
     byte-level model and above nothing we model of PDR: oracle only *)
  let is_ctx = String.length fault >= 4 && String.sub fault 0 4 = "ctx-" in
  let family = if engine = "bmc" then "bmc" else "pdr" in
  let skip_model = (engine <> "bmc" && point < 0) || is_ctx in
  let o_fix = if skip_model then impl else predict repo_reader in
  let o_cur = if skip_model then impl else predict Cur in

  (* ---------------- the property oracle on what the implementation did *)
  let emitted = String.concat "" faultlines in
  let sent_error_message : string option =
    (* the (error ..) reply the client was given: at the faulty point (injected, or a real one passed on by
       split / pad / reply-then-exit), or - fault-free run - a real one from the solver *)
    if point >= 0 then error_reply_message emitted
    else (match List.rev lines with l :: _ -> error_reply_message l | [] -> None)
  in
  let intact_kinds = ["split"; "pad"; "replyexit0"; "replyexit1"; "none"] in
  let verdict_key = "verdict-despite-fault:" ^ fault_kind in
  let ctx_error_text = "injected: solver context error" in
  let ctx_oracle () : (unit, string * string) result =
    match impl.cls with
    | "hang" -> Error ("hang:" ^ fault, "the run does not return")
    | "panic" -> Error ("panic-after-" ^ fault ^ "@" ^ impl.sub, "the run panics after a " ^ fault ^ " fault")
    | "err" ->
        if fault = "ctx-error" && not (impl.sub = "from-solver" && impl.text = ctx_error_text)
        then Error ("ctx-error-not-propagated", "a solver call returned Err(FromSolver \"" ^ ctx_error_text ^ "\"), the run returns a different error")
        else Ok ()
    | "verdict" ->
        if fault = "ctx-error" then Error ("verdict-despite-fault:ctx-error", "a verdict although a solver call returned Err")
        else if impl.sub = "unknown" then Ok ()
        else if nominal.cls = "verdict" && nominal.sub = impl.sub then
          Ok () (* the verdict of the fault-free run: an `unknown` that was treated conservatively does not carry it *)
        else Error ("wrong-verdict-after-unknown:" ^ family,
                    Printf.sprintf "one check was answered Ok(Unknown); the fault-free run says [%s], this run says [%s]" (show nominal) (show impl))
    | _ -> Error ("crash", "the worker died without an outcome")
  in
  let oracle : (unit, string * string) result =
    if is_ctx then ctx_oracle () else
    match impl.cls with
    | "hang" when (not eof) && point >= 0 && lexically_open emitted && o_fix.cls = "hang" && o_fix.sub = "blocked" ->
        (* The documented blocking class (theorem C15_blocked_only_on_open_reply): a LIVE solver has written a
           reply that is lexically incomplete - open parenthesis outside literals, or an unterminated string
           literal (an error reply whose message is a single double quote) - and says nothing more.  A reader without a timeout has to wait; the
           model of the repaired reader ([repo_reader]) says Blocked too.  Not a violation. *)
        Ok ()
    | "hang" ->
        let nb = naive_balance emitted and ab = aware_balance emitted in
        if eof && nb > 0 then Error ("hang:eof-unbalanced", "end of stream inside an unbalanced reply: the run never returns")
        else if (not eof) && nb > 0 && ab <= 0 then Error ("hang:open-paren-inside-string", "a complete reply whose string literal contains '(' is taken as unbalanced: the client waits for ever")
        else Error ("hang:other", "the run does not return")
    | "panic" ->
        (* bmc.rs:58 is the documented assertion "constraints are satisfiable" (check_constraints): when the
           fault-free run ends there too and the faulty reply was delivered intact, it is not a solver-fault issue *)
        let is_bmc_rs = String.length impl.sub >= 23 && String.sub impl.sub 0 23 = "patronus/src/mc/bmc.rs:" in
        if is_bmc_rs && nominal.cls = "panic" && same nominal impl && (point < 0 || List.mem fault_kind intact_kinds) then Ok ()
        else Error ("panic@" ^ impl.sub, "the run panics")
    | "crash" | "start-failed" | "?" -> Error ("crash", "the worker died without an outcome")
    | "err" ->
        (match sent_error_message with
         | Some m when impl.sub = "from-solver" && impl.text <> m ->
             (* read_response joins the lines of a reply with an extra blank (solver.rs pushes a blank before every further
                line): the defect repaired by patches/0019; the model variant Fix predicts it, Fix2 does not *)
             let with_blanks = String.concat "\n " (String.split_on_char '\n' m) in
             if String.contains m '\n' && impl.text = with_blanks
             then Error ("error-message-blank-after-newline", Printf.sprintf "solver said %S, the error carries %S" m impl.text)
             else Error ("error-message-mangled:len>=5", Printf.sprintf "solver said %S, the error carries %S" m impl.text)
         | Some m when impl.sub <> "from-solver" && impl.sub <> "solver-dead" ->
             Error ("error-reply-not-reported:" ^ impl.sub, Printf.sprintf "solver said %S" m)
         | Some _ -> Ok ()   (* the error reply itself is what the error carries (or the solver is reported dead) *)
         | None ->
             if (fault_kind = "exit1" || fault_kind = "replyexit1") && impl.sub = "from-solver"
                && (match exit_obs with Some (_, t) -> string_of_cl t <> impl.text | None -> false)
             then Error ("stderr-message-mangled", "the text on stderr is not what the error carries")
             else Ok ())
    | "verdict" ->
        if point < 0 then
          (match sent_error_message with Some _ -> Error ("verdict-despite-error-reply", "a verdict although the solver reported an error") | None -> Ok ())
        else if not (List.mem fault_kind intact_kinds) then Error (verdict_key, "a verdict although the reply at this point was corrupted")
        else if not (same nominal impl && nominal.text = impl.text) then Error ("verdict-changed:" ^ fault_kind, "the verdict/witness differs from the fault-free run")
        else Ok ()
    | _ -> Error ("crash", "unknown outcome class")
  in
  let detail =
    Printf.sprintf "engine=%s point=%d kind=%s fault=%S impl=[%s] model(%s)=[%s] model(cur)=[%s] nominal=[%s]" engine point kind fault
      (show impl) repo_reader_name (show o_fix) (show o_cur) (show nominal)
  in
  match oracle with
  | Error (key, what) ->
      let by_model =
        if is_ctx then " (context-level fault: observed on the real bmc/pdr, no model prediction)"
        else if same o_fix impl then " (exactly what the model of /repo's reader, variant " ^ repo_reader_name ^ ", predicts)"
        else if same o_cur impl then " (exactly what the model of the unrepaired code predicts)"
        else " (NOT predicted by the model)" in
      Registry.result ~id ~status:"fail" ~key ~detail:(what ^ by_model ^ "; " ^ detail) ()
  | Ok () ->
      if same o_fix impl then
        Registry.result ~id ~status:"ok" ~key:(if impl.cls = "hang" then "blocked:open-reply-from-live-solver" else impl.cls ^ ":" ^ impl.sub) ~detail ()
      else if same o_cur impl then Registry.result ~id ~status:"ok" ~key:("cur-only:" ^ impl.cls ^ ":" ^ impl.sub) ~detail ()
      else Registry.result ~id ~status:"diff" ~key:("model-mismatch:" ^ fault_kind) ~detail ()

let () = Registry.register "C15" handle
