(* driver <property> : reads one case per line on stdin, writes one result line per case *)
let () =
  if Array.length Sys.argv < 2 then (prerr_endline "usage: driver <property-handler>"; exit 2);
  let name = Sys.argv.(1) in
  let f =
    try Hashtbl.find Registry.handlers name
    with Not_found -> (prerr_endline ("unknown handler " ^ name); exit 2)
  in
  (try
     while true do
       let line = input_line stdin in
       if String.length line > 0 && line.[0] <> ';' then begin
         Registry.model_col := "-";
         let out =
           try f (Sexp.parse_string line)
           with
           | Sexp.Parse_error m -> Printf.sprintf "?\terror\t-\tparse error: %s" m
           | Stack_overflow -> "?\terror\t-\tstack overflow"
           | e -> Printf.sprintf "?\terror\t-\texception %s" (Printexc.to_string e)
         in
         print_endline (if Registry.emit_model then out ^ "\t" ^ !Registry.model_col else out)
       end
     done
   with End_of_file -> ());
  flush stdout
