(* C06: concrete evaluation.  Case:
   (case ID (expr E) (bvenv ...) (arrenv ...) (cut (E bits)...) (indices i ...) (impl R))
   R = (bv w bits) | (arr iw dw v_at_index...) | (panic)
   The model machine (Model.eval_impl) is the correspondence; the specification with cut-offs
   (Model.cbv / Model.carr) is the property oracle. *)
open Model
open Conv

let fmt_bv w v = Printf.sprintf "(bv %d b%s)" w (bits_of_n_loose w v)


(* ---- Labeler for the recorded finding "baa compares sparse arrays by (default, map)".
   Untrusted OCaml, used ONLY to attach a stable key to a failure that is *fully* explained by
   that finding: it recomputes the expected value with every ArrayEqual between two sparse
   array values decided the way baa decides it, by feeding those verdicts to the specification
   as extra cut-offs. *)
type repr = { dense : bool; default : n; map : (n * n) list (* sorted by index *) }

let repr_store (r : repr) (i : n) (d : n) : repr =
  let without = List.filter (fun (k, _) -> k <> i) r.map in
  if (not r.dense) && d = r.default then { r with map = without }
  else { r with map = List.sort compare ((i, d) :: without) }

let rec collect_aeq (e : expr) (acc : expr list) : expr list =
  (* bottom-up: children first *)
  let acc = List.fold_left (fun acc c -> collect_aeq c acc) acc (children e) in
  match e with
  | ArrayEqual (_, _) -> if List.exists (fun x -> expr_eqb x e) acc then acc else acc @ [e]
  | _ -> acc

let adjusted_provider (prov : provider) (rho : env) (arrs : arr_entry list) (dense_of : char list -> bool) (e : expr) : provider * bool =
  let extra : (expr * n) list ref = ref [] in
  let changed = ref false in
  let cur () = { prov with get_bv = (fun ex ->
      match prov.get_bv ex with
      | Some v -> Some v
      | None -> (match List.find_opt (fun (k, _) -> expr_eqb k ex) !extra with
          | Some (_, v) -> Some (n_of_int 1, v) | None -> None)) } in
  let rec repr (a : expr) : repr option =
    match a with
    | ArraySymbol (nm, iw, dw) ->
        (match List.find_opt (fun x -> x.a_name = nm && x.a_iw = iw && x.a_dw = dw) arrs with
         | Some x ->
             let base = { dense = dense_of nm; default = x.a_default; map = [] } in
             (* a_entries is stored latest-first *)
             Some (List.fold_left (fun r (i, d) -> repr_store r i d) base (List.rev x.a_entries))
         | None -> None)
    | ArrayConstant (d, _, _) -> Some { dense = false; default = cbv (cur ()) rho d; map = [] }
    | ArrayStore (a', i, d) ->
        (match repr a' with
         | Some r -> Some (repr_store r (cbv (cur ()) rho i) (cbv (cur ()) rho d))
         | None -> None)
    | ArrayIte (c, t, f) -> if cbv (cur ()) rho c = n_of_int 1 then repr t else repr f
    | _ -> None
  in
  List.iter (fun ae ->
      match ae with
      | ArrayEqual (a, b) ->
          (match repr a, repr b with
           | Some ra, Some rb when (not ra.dense) && (not rb.dense) ->
               let baa = ra.default = rb.default && ra.map = rb.map in
               let spec = cbv (cur ()) rho ae = n_of_int 1 in
               if baa <> spec then changed := true;
               extra := (ae, if baa then n_of_int 1 else N0) :: !extra
           | _ -> ())
      | _ -> ()) (collect_aeq e []);
  (cur (), !changed)

let handle (x : Sexp.t) : string =
  let fields = match x with Sexp.List (Sexp.Atom "case" :: id :: rest) -> (Sexp.atom id, rest) | _ -> raise (Sexp.Parse_error "case") in
  let id, fs = fields in
  let e = expr_of_sexp (Sexp.field1 "expr" fs) in
  let bvs = parse_bvenv (Sexp.field "bvenv" fs) in
  let arrs = parse_arrenv (Sexp.field "arrenv" fs) in
  let cuts = List.map (function
      | Sexp.List [ce; v] -> (expr_of_sexp ce, num v)
      | _ -> raise (Sexp.Parse_error "cut")) (match Sexp.field_opt "cut" fs with Some l -> l | None -> []) in
  (* values supplied for inner array-typed expressions: (E iw dw dense|sparse default (i v)..) *)
  let acuts = List.map (function
      | Sexp.List (ce :: iw :: dw :: Sexp.Atom ("dense" | "sparse") :: d :: es) ->
          (expr_of_sexp ce, num iw, num dw, num d,
           List.rev (List.map (function
               | Sexp.List [i; v] -> (num i, num v)
               | x -> raise (Sexp.Parse_error ("bad acut entry " ^ Sexp.to_string x))) es))
      | x -> raise (Sexp.Parse_error ("bad acut " ^ Sexp.to_string x))) (match Sexp.field_opt "acut" fs with Some l -> l | None -> []) in
  let indices = List.map num (match Sexp.field_opt "indices" fs with Some l -> l | None -> []) in
  let rho = mk_env bvs arrs in
  (* provider: cut entries first (bit-vector valued inner expressions), then bound symbols only *)
  let prov = {
    get_bv = (fun ex ->
        match List.find_opt (fun (ce, _) -> expr_eqb ce ex) cuts with
        | Some (ce, v) -> (match type_of ce with TBV w -> Some (w, v) | _ -> None)
        | None ->
            (match ex with
             | BVSymbol (nm, w) ->
                 (match List.find_opt (fun (n', w', _) -> n' = nm && w' = w) bvs with
                  | Some (_, _, v) -> Some (w, v) | None -> None)
             | _ -> None));
    get_array = (fun ex ->
        match List.find_opt (fun (ce, _, _, _, _) -> expr_eqb ce ex) acuts with
        | Some (_, iw, dw, d, es) -> Some ((iw, dw), arr_fun d es)
        | None ->
        match ex with
        | ArraySymbol (nm, iw, dw) ->
            (match List.find_opt (fun a -> a.a_name = nm && a.a_iw = iw && a.a_dw = dw) arrs with
             | Some a -> Some ((iw, dw), arr_fun a.a_default a.a_entries) | None -> None)
        | _ -> None) } in
  let show_arr iw dw f =
    Printf.sprintf "(arr %d %d%s)" (int_of_n iw) (int_of_n dw)
      (String.concat "" (List.map (fun i -> " b" ^ bits_of_n_loose (int_of_n dw) (f i)) indices)) in
  let machine =
    match eval_impl prov e with
    | RBV (w, v) -> fmt_bv (int_of_n w) v
    | RArr (iw, dw, f) -> show_arr iw dw f
    | RPanic -> "(panic)"
    | RBadStacks -> "(badstacks)"
    | ROutOfFuel -> "(outoffuel)" in
  let spec =
    if not (wt e) then "(illtyped)"
    else match type_of e with
      | TBV w -> fmt_bv (int_of_n w) (cbv prov rho e)
      | TArr (iw, dw) -> show_arr iw dw (carr prov rho e) in
  Registry.set_model (Printf.sprintf "(c06 %s %s)" machine spec);
  let impl = Sexp.to_string (Sexp.field1 "impl" fs) in
  let show_val p =
    match type_of e with
    | TBV w -> fmt_bv (int_of_n w) (cbv p rho e)
    | TArr (iw, dw) -> show_arr iw dw (carr p rho e) in
  let dense_of nm =
    List.exists (function
        | Sexp.List (n :: _ :: _ :: Sexp.Atom "dense" :: _) -> name n = nm
        | _ -> false) (Sexp.field "arrenv" fs) in
  (* does the case lie in the property's domain?  well-typed, no div/rem, every reachable symbol bound *)
  let in_domain = machine <> "(panic)" && spec <> "(illtyped)" in
  let status, detail =
    if in_domain then
      if impl = spec && machine = spec then ("ok", "")
      else if impl <> spec then ("fail", Printf.sprintf "impl=%s spec=%s machine=%s" impl spec machine)
      else ("error", Printf.sprintf "model machine disagrees with spec: machine=%s spec=%s" machine spec)
    else if impl = machine then ("ok", "outside-domain:" ^ machine)
    else ("diff", Printf.sprintf "outside property domain; impl=%s machine=%s" impl machine) in
  let root_op = Sexp.atom (List.hd (Sexp.list (Sexp.field1 "expr" fs))) in
  let key =
    if status = "ok" then root_op
    else if impl = "(panic)" then
      "panic@" ^ (match Sexp.field_opt "panicloc" fs with Some [l] -> Sexp.atom l | _ -> "?")
    else if status = "fail" && spec <> "(illtyped)" then begin
      let (p', changed) = adjusted_provider prov rho arrs dense_of e in
      if changed && show_val p' = impl then "baa-sparse-array-eq-not-extensional" else "value:" ^ root_op
    end
    else "value:" ^ root_op in
  Registry.result ~id ~status ~key ~detail ()

let () = Registry.register "C06" handle
