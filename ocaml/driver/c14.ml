(* C14: the SMT-LIB reader.  Cases (see harness/src/c14.rs):
   rt     writer output of E read back by the real parse_expr        -> model Model.parse_expr_str, oracle: same type, well-typed, same value
   text   arbitrary / malformed text through parse_expr              -> model, oracle: judged against the reference front end (Spec/Smt.v)
   val    a get-value answer through SolverContext::get_value        -> model Model.parse_get_value_response_str, oracle: the value the reference evaluator gives
   cmd    writer output of a command through parse_command           -> model Model.parse_command_str, oracle: the same command
   script lines through read_command until EOF / panic / hang        -> model Model.read_command, oracle: every command delivered, no panic, no hang
   gua    a get-unsat-assumptions answer                              -> model Model.parse_unsat_assumptions_str, oracle: the listed terms
   R = (ok E) | (err "..") | (panic "file:line" "message").
   Finding keys are semantic: a panic is keyed by WHAT panicked (class of the message / the module), never by file:line; the location
   and the message are in the detail field. *)
open Model
open Conv

(* the variant of the model that mirrors the code under test: one constant for writer and reader, see c05.ml *)
let code_variant : variant = C05.code_variant
let ser = C05.ser
let ser_cmd = C05.ser_cmd
let escape_id = C05.escape_id
let name_ok = C05.name_ok
let parse_expr_str = parse_expr_str code_variant
let parse_get_value_response_str = parse_get_value_response_str code_variant
let parse_unsat_assumptions_str = parse_unsat_assumptions_str code_variant
let parse_command_str = parse_command_str code_variant
let read_command = read_command code_variant

let s2c = coqstr
let c2s = ocamlstr
let result = C05.result
exception Verdict = C05.Verdict
let sx_to_string = C05.sx_to_string

(* ---- implementation results *)
type 'a ires = IOk of 'a | IErr of string | IPanic of string | IHang | IEof

let ires_of (f : Sexp.t list -> 'a) (x : Sexp.t) : 'a ires =
  match x with
  | Sexp.List (Sexp.Atom "ok" :: rest) -> IOk (f rest)
  | Sexp.List [Sexp.Atom "err"; m] -> IErr (Sexp.atom m)
  | Sexp.List [Sexp.Atom "panic"; l] -> IPanic (Sexp.atom l)
  | Sexp.List [Sexp.Atom "panic"; l; m] -> IPanic (Sexp.atom l ^ " | " ^ Sexp.atom m)
  | Sexp.List [Sexp.Atom "hang"] -> IHang
  | Sexp.List [Sexp.Atom "eof"] -> IEof
  | _ -> raise (Sexp.Parse_error ("impl result " ^ Sexp.to_string x))

let expr1 = function [e] -> expr_of_sexp e | _ -> raise (Sexp.Parse_error "ok expr")

let cls_name = function IOk _ -> "ok" | IErr _ -> "err" | IPanic _ -> "panic" | IHang -> "hang" | IEof -> "eof"
let pres_name = function POk _ -> "ok" | PErr -> "err" | PPanic -> "panic"

let symtab_of (st : Sexp.t list) : (char list * expr) list =
  List.map (fun s -> let e = expr_of_sexp s in (C05.sym_name e, e)) st

let ctx_of (st : Sexp.t list) : sctx =
  List.fold_left (fun g s ->
      let e = expr_of_sexp s in
      let n = C05.sym_name e in
      let so = sort_of_ty (type_of e) in
      (fun x -> if x = n then Some so else g x)) empty_ctx st

let show_expr (e : expr) : string = Sexp.to_string (sexp_of_expr e)

(* ---- deterministic assignments for cases that carry none *)
let env_of_seed (seed : int) : env =
  let h nm a b = Hashtbl.hash (seed, nm, a, b) in
  let value bits k =
    (* [bits] pseudo-random bits *)
    let acc = ref N0 in
    for i = 0 to bits - 1 do
      acc := N.mul n_two !acc;
      if (Hashtbl.hash (k, i)) land 1 = 1 then acc := N.add !acc (n_of_int 1)
    done;
    !acc in
  { rho_bv = (fun nm w -> value (int_of_n w) (h nm w N0));
    rho_arr = (fun nm iw dw -> fun i -> value (int_of_n dw) (Hashtbl.hash (h nm iw dw, i))) }

(* value of a closed or open expression, in the IR's view: (type, number, function) *)
let same_value (rho : env) (a : expr) (b : expr) (indices : n list) : bool =
  type_of a = type_of b &&
  (match type_of a with
   | TBV _ -> ebv rho a = ebv rho b
   | TArr (iw, _) ->
       let idx = if indices <> [] then indices
         else if int_of_n iw <= 6 then List.init (1 lsl int_of_n iw) n_of_int
         else [N0; n_of_int 1; N.sub (N.pow n_two iw) (n_of_int 1)] in
       let f = earr rho a and g = earr rho b in
       List.for_all (fun k -> f k = g k) idx)

(* the reference value of a term in the IR's view: Bool = 1 bit *)
let ir_view (v : sval) : (ty * n * (n -> n)) =
  let bits = function SoBool -> n_of_int 1 | SoBV w -> w | SoArr _ -> N0 in
  match v with
  | SVBool b -> (TBV (n_of_int 1), (if b then n_of_int 1 else N0), (fun _ -> N0))
  | SVBits (w, x) -> (TBV w, x, (fun _ -> N0))
  | SVArr (i, d, f) -> (TArr (bits i, bits d), N0, f)

let expr_matches_sval (rho : env) (e : expr) (v : sval) : bool =
  let (t, x, f) = ir_view v in
  type_of e = t &&
  (match t with
   | TBV _ -> ebv rho e = x
   | TArr (iw, _) ->
       let idx = if int_of_n iw <= 6 then List.init (1 lsl int_of_n iw) n_of_int
         else [N0; n_of_int 1; N.sub (N.pow n_two iw) (n_of_int 1)] in
       let g = earr rho e in
       List.for_all (fun k -> f k = g k) idx)

(* panics are keyed by what panicked: the class of the panic message and the module (never a line number).
   [loc] = "file:line | message" *)
let panic_class (loc : string) : string =
  let has sub = try ignore (Str.search_forward (Str.regexp_string sub) loc 0); true with Not_found -> false in
  if has "assertion" || has "unwrap()" then "builder-assertion"                  (* debug_assert! / assert! / get_bv_type(..).unwrap() of a Context builder or of the parser: an operand is not what the builder demands *)
  else if has "expr/context.rs" || has "expr/types.rs" || has "expr/nodes.rs" then "builder-assertion"   (* unwrap of get_bv_type .. on the wrong kind of operand *)
  else if has "not yet implemented" then "todo"
  else if has "failed to parse command" then "expect-on-parse-error"
  else if has "attempt to" && has "overflow" then "arithmetic-overflow"
  else if has "out of range" || has "slice index" || has "byte index" then "slice-out-of-range"
  else "other"
let panic_key (prefix : string) (loc : string) = prefix ^ ":panic:" ^ panic_class loc

(* the reference reading of the first complete S-expression of a text (what precedes trailing material) *)
let first_sexp (text : string) : sx option =
  match lex (s2c text) with
  | None -> None
  | Some toks ->
      let rec take depth acc = function
        | [] -> None
        | StOpen :: r -> take (depth + 1) (StOpen :: acc) r
        | StClose :: r -> if depth = 0 then None else if depth = 1 then Some (List.rev (StClose :: acc)) else take (depth - 1) (StClose :: acc) r
        | (StAtom _ as a) :: r -> if depth = 0 then Some [a] else take depth (a :: acc) r in
      (match take 0 [] toks with Some ts -> read_one ts | None -> None)

(* the same when what follows cannot even be lexed (an open quote ...): the text up to the parenthesis that closes the first one *)
let first_sexp (text : string) : sx option =
  match first_sexp text with
  | Some t -> Some t
  | None ->
      let n = String.length text in
      let depth = ref 0 and in_bar = ref false and in_str = ref false and cut = ref (-1) and i = ref 0 in
      while !cut < 0 && !i < n do
        let c = text.[!i] in
        if !in_bar then (if c = '|' then in_bar := false)
        else if !in_str then (if c = '"' then in_str := false)
        else if c = '|' then in_bar := true
        else if c = '"' then in_str := true
        else if c = '(' then incr depth
        else if c = ')' then (decr depth; if !depth = 0 then cut := !i);
        incr i
      done;
      if !cut < 0 then None else parse_text (s2c (String.sub text 0 (!cut + 1)))

let all_names_ok (st : Sexp.t list) : bool =
  List.for_all (fun s -> name_ok (C05.sym_name (expr_of_sexp s))) st

let is_numeral_name (n : char list) : bool = n <> [] && List.for_all (fun c -> c >= '0' && c <= '9') n

(* compare an implementation result with a model result *)
let corr_expr (impl : expr ires) (model : expr pres) : bool =
  match impl, model with
  | IOk a, POk b -> expr_eqb a b
  | IErr _, PErr -> true
  | IPanic _, PPanic -> true
  | _ -> false

(* ---------------------------------------------------------------- rt *)
let handle_rt id fs =
  let ex = Sexp.field1 "expr" fs in
  let e = expr_of_sexp ex in
  let st = Sexp.field "st" fs in
  let text = Sexp.atom (Sexp.field1 "text" fs) in
  let impl = ires_of expr1 (Sexp.field1 "impl" fs) in
  let indices = List.map num (match Sexp.field_opt "indices" fs with Some l -> l | None -> []) in
  let op = C05.root_tag ex in
  let top = symtab_of st in
  let model = parse_expr_str top (s2c text) in
  let corr = corr_expr impl model in
  let corr_detail = if corr then "" else
      Printf.sprintf "impl=%s model=%s text=%s" (cls_name impl) (match model with POk m -> show_expr m | m -> pres_name m) text in
  let envs = List.map C05.env_of_sexp (match Sexp.field_opt "envs" fs with Some l -> l | None -> []) in
  (* property oracle: the implementation's result is an expression of the same type with the same value *)
  let oracle_ok =
    match impl with
    | IOk e' -> wt e' && type_of e' = type_of e && List.for_all (fun rho -> same_value rho e' e indices) envs
    | _ -> false in
  if oracle_ok then
    (if corr then result ~id ~status:"ok" ~key:("rt:" ^ op) () else result ~id ~status:"diff" ~key:("rt:" ^ op) ~detail:corr_detail ())
  else if not (all_names_ok st) then
    (* the writer's text is not SMT-LIB (C05: names that cannot be expressed, reserved words written bare) *)
    (if corr then result ~id ~status:"skip" ~key:"name-outside-smtlib" () else result ~id ~status:"diff" ~key:("rt:" ^ op) ~detail:corr_detail ())
  else begin
    let numeral_sym = List.exists (fun s -> is_numeral_name (C05.sym_name (expr_of_sexp s))) st in
    let key =
      match impl with
      | IOk _ -> "rt-wrong-value:" ^ op
      | IErr _ -> if numeral_sym then "rt:numeral-named-symbol-hides-index" else "rt-rejected:" ^ op
      | IPanic l -> panic_key "rt" l
      | _ -> "rt:?" in
    result ~id ~status:"fail" ~key ~detail:(Printf.sprintf "impl=%s text=%s%s" (match impl with IOk x -> show_expr x | IErr m -> "err " ^ m | IPanic l -> "panic at " ^ l | _ -> cls_name impl) text
                                              (if corr then "" else " ALSO-DIFF model=" ^ pres_name model)) ()
  end

(* ---------------------------------------------------------------- text *)
let handle_text id fs =
  let st = Sexp.field "st" fs in
  let text = Sexp.atom (Sexp.field1 "text" fs) in
  let origin = Sexp.atom (Sexp.field1 "origin" fs) in
  let impl = ires_of expr1 (Sexp.field1 "impl" fs) in
  let top = symtab_of st in
  let model = parse_expr_str top (s2c text) in
  let corr = corr_expr impl model in
  let corr_detail = if corr then "" else
      Printf.sprintf "impl=%s model=%s text=%s" (match impl with IOk x -> show_expr x | _ -> cls_name impl) (match model with POk m -> show_expr m | m -> pres_name m) text in
  (* what the reference says about the text *)
  let reading = parse_text (s2c text) in
  let verdict =
    match reading with
    | None ->
        (* not one well-formed S-expression: the reader must answer with an error *)
        (match impl with
         | IErr _ -> `Ok "malformed:err"
         | IOk e -> `Fail ("malformed-accepted:" ^ origin, show_expr e)
         | IPanic l -> `Fail (panic_key "malformed" l, "panic at " ^ l)
         | _ -> `Ok "?")
    | Some t ->
        let g = ctx_of st in
        (match scheck g t, impl with
         | Some _, IOk e' ->
             if not (all_names_ok st) then `Ok "wellformed:outside-names"
             else
               let ok = List.for_all (fun seed ->
                   let rho = env_of_seed seed in
                   match seval (smodel_of g rho) t with
                   | Some v -> expr_matches_sval rho e' v
                   | None -> false) [1; 2; 3] in
               if ok then `Ok "wellformed:ok" else `Fail ("wrong-value:" ^ origin, show_expr e')
         | Some _, IPanic l -> `Fail (panic_key "wellformed" l, "panic at " ^ l)
         | Some _, _ -> `Ok ("wellsorted:" ^ cls_name impl)
         | None, IPanic l -> `Fail (panic_key "illsorted" l, "panic at " ^ l)     (* balanced, but not well-sorted: an error, never a panic *)
         | None, _ -> `Ok ("illsorted:" ^ cls_name impl))
  in
  match verdict with
  | `Fail (key, d) -> result ~id ~status:"fail" ~key ~detail:(Printf.sprintf "text=%s %s%s" text d (if corr then "" else " ALSO-DIFF " ^ corr_detail)) ()
  | `Ok key -> if corr then result ~id ~status:"ok" ~key:("text:" ^ key) () else result ~id ~status:"diff" ~key:("text:" ^ origin) ~detail:corr_detail ()

(* ---------------------------------------------------------------- val *)
(* the value forms the property lists: literals, true/false, stores over constant arrays, let-bound sub-terms *)
let rec in_value_grammar (bound : char list list) (t : sx) : bool =
  match t with
  | SxAtom a ->
      let s = c2s a in
      s = "true" || s = "false" || List.mem a bound
      || (String.length s > 2 && (String.sub s 0 2 = "#b" || String.sub s 0 2 = "#x") && bv_literal a <> None)
  | SxList [SxAtom l; SxList [SxList [SxAtom x; v]]; body] when c2s l = "let" ->
      in_value_grammar bound v && in_value_grammar (x :: bound) body
  | SxList [SxAtom s; a; i; d] when c2s s = "store" ->
      in_value_grammar bound a && in_value_grammar bound i && in_value_grammar bound d
  | SxList [SxList [SxAtom a; SxAtom c; _]; v] when c2s a = "as" && c2s c = "const" -> in_value_grammar bound v
  | _ -> false

let handle_val id fs =
  let response = Sexp.atom (Sexp.field1 "response" fs) in
  let via = Sexp.atom (Sexp.field1 "via" fs) in
  let impl = ires_of expr1 (Sexp.field1 "impl" fs) in
  let model = parse_get_value_response_str (s2c response) in
  let corr = corr_expr impl model in
  let corr_detail = if corr then "" else
      Printf.sprintf "impl=%s model=%s response=%s" (match impl with IOk x -> show_expr x | IErr m -> "err " ^ m | IPanic l -> "panic at " ^ l | _ -> cls_name impl)
        (match model with POk m -> show_expr m | m -> pres_name m) response in
  let empty : smodel = fun _ -> None in
  let rho = env_of_seed 1 in
  let verdict =
    match parse_text (s2c response) with
    | Some (SxList [SxList [_; v]]) ->
        (match seval empty v with
         | Some sv ->
             (match impl with
              | IOk e' -> if expr_matches_sval rho e' sv then `Ok "value:ok" else `Fail ("value-wrong:" ^ via, show_expr e')
              | IErr m -> if in_value_grammar [] v then `Fail ("value-rejected:" ^ via, m) else `Ok "value:outside-grammar:err"
              | IPanic l -> `Fail (panic_key "value" l, "panic at " ^ l)
              | _ -> `Ok "?")
         | None ->
             (* not a value for the reference (ill-sorted, unknown symbol, lambda ...) *)
             (match impl with
              | IOk e' -> `Ok "value:not-evaluable:ok"
              | IPanic _ -> `Ok "value:not-evaluable:panic"
              | _ -> `Ok "value:not-evaluable:err"))
    | Some _ ->
        (* one S-expression, but not of the shape ((term value)) *)
        (match impl with
         | IOk e' -> `Fail ("response-shape-accepted:" ^ via, show_expr e')
         | IPanic l -> `Fail (panic_key "malformed" l, "panic at " ^ l)
         | _ -> `Ok "response:bad-shape:err")
    | None ->
        (match impl with
         | IOk e' ->
             (* material after a complete answer is ignored by the reader: tolerated when the answer itself is read right *)
             (match first_sexp response with
              | Some (SxList [SxList [_; v]]) ->
                  (match seval empty v with
                   | Some sv when expr_matches_sval rho e' sv -> `Ok "response:trailing-material-ignored"
                   | None -> `Ok "response:trailing-material-ignored:not-evaluable"
                   | _ -> `Fail ("malformed-response-accepted:" ^ via, show_expr e'))
              | _ -> `Fail ("malformed-response-accepted:" ^ via, show_expr e'))
         | IPanic l -> `Fail (panic_key "malformed" l, "panic at " ^ l)
         | _ -> `Ok "response:malformed:err")
  in
  match verdict with
  | `Fail (key, d) -> result ~id ~status:"fail" ~key ~detail:(Printf.sprintf "response=%s %s%s" response d (if corr then "" else " ALSO-DIFF " ^ corr_detail)) ()
  | `Ok key -> if corr then result ~id ~status:"ok" ~key () else result ~id ~status:"diff" ~key:("val:" ^ via) ~detail:corr_detail ()

(* ---------------------------------------------------------------- commands *)
let rec sexp_of_cmd (c : smt_cmd) : string =
  let e x = show_expr x in
  match c with
  | CExit -> "(exit)" | CCheckSat -> "(checksat)"
  | CSetLogic l -> "(setlogic " ^ c2s (logic_str l) ^ ")"
  | CSetOption (k, v) -> Printf.sprintf "(setoption %s %s)" (Sexp.escape (c2s k)) (Sexp.escape (c2s v))
  | CSetInfo (k, v) -> Printf.sprintf "(setinfo %s %s)" (Sexp.escape (c2s k)) (Sexp.escape (c2s v))
  | CAssert x -> "(assert " ^ e x ^ ")"
  | CDeclareConst s -> "(declare " ^ e s ^ ")"
  | CDefineConst (s, v) -> "(define " ^ e s ^ " " ^ e v ^ ")"
  | CCheckSatAssuming es -> "(csa" ^ String.concat "" (List.map (fun x -> " " ^ e x) es) ^ ")"
  | CPush n -> "(push " ^ dec_of_n n ^ ")" | CPop n -> "(pop " ^ dec_of_n n ^ ")"
  | CGetValue x -> "(getvalue " ^ e x ^ ")"
  | CGetUnsatAssumptions -> "(gua)"

let cmd1 = function [c] -> fst (C05.cmd_of_sexp c) | _ -> raise (Sexp.Parse_error "ok cmd")

let cmd_equiv (a : smt_cmd) (b : smt_cmd) : bool =
  let eq x y = wt x && type_of x = type_of y && List.for_all (fun s -> same_value (env_of_seed s) x y []) [1; 2; 3] in
  match a, b with
  | CAssert x, CAssert y | CGetValue x, CGetValue y -> eq x y
  | CDeclareConst s, CDeclareConst s' -> expr_eqb s s'
  | CDefineConst (s, v), CDefineConst (s', v') -> expr_eqb s s' && eq v v'
  | CCheckSatAssuming xs, CCheckSatAssuming ys -> List.length xs = List.length ys && List.for_all2 eq xs ys
  | _ -> a = b

let handle_cmd id fs =
  let (c, kind) = C05.cmd_of_sexp (Sexp.field1 "cmd" fs) in
  let st = Sexp.field "st" fs in
  let text = Sexp.atom (Sexp.field1 "text" fs) in
  if text = "<panic>" then result ~id ~status:"skip" ~key:"writer-panics" ()
  else begin
    let impl = ires_of cmd1 (Sexp.field1 "impl" fs) in
    let top = symtab_of st in
    let model = parse_command_str top (s2c text) in
    let corr = match impl, model with
      | IOk a, POk b -> sexp_of_cmd a = sexp_of_cmd b
      | IErr _, PErr | IPanic _, PPanic -> true
      | _ -> false in
    let corr_detail = if corr then "" else
        Printf.sprintf "impl=%s model=%s text=%s" (match impl with IOk x -> sexp_of_cmd x | IErr m -> "err " ^ m | IPanic l -> "panic at " ^ l | _ -> cls_name impl)
          (match model with POk m -> sexp_of_cmd m | m -> pres_name m) text in
    let names = List.map (fun s -> C05.sym_name (expr_of_sexp s)) st @
                (match c with CDeclareConst s | CDefineConst (s, _) -> (match s with BVSymbol (n, _) | ArraySymbol (n, _, _) -> [n] | _ -> []) | _ -> []) in
    let names_ok = List.for_all name_ok names &&
                   (match c with CSetOption (_, v) | CSetInfo (_, v) -> symbol_name (escape_id v) = Some v | _ -> true) in
    let oracle_ok = match impl with IOk c' -> cmd_equiv c' c | _ -> false in
    if oracle_ok then
      (if corr then result ~id ~status:"ok" ~key:("cmd:" ^ kind) () else result ~id ~status:"diff" ~key:("cmd:" ^ kind) ~detail:corr_detail ())
    else if not names_ok then
      (if corr then result ~id ~status:"skip" ~key:"name-outside-smtlib" () else result ~id ~status:"diff" ~key:("cmd:" ^ kind) ~detail:corr_detail ())
    else begin
      let key =
        match c, impl with
        | CSetInfo _, IOk (CSetOption _) -> "cmd:SetInfo-written-as-set-option"
        | CCheckSatAssuming es, IErr _ when List.length es <> 1 -> "cmd:check-sat-assuming-arity-not-1-rejected"
        | CGetUnsatAssumptions, IErr _ -> "cmd:get-unsat-assumptions-rejected"
        | _, IPanic l -> panic_key ("cmd:" ^ kind) l
        | _, IErr _ ->
            if List.exists is_numeral_name names then "cmd:numeral-named-symbol-hides-index" else "cmd-rejected:" ^ kind
        | _, _ -> "cmd-wrong:" ^ kind in
      result ~id ~status:"fail" ~key ~detail:(Printf.sprintf "text=%s impl=%s%s" text (match impl with IOk x -> sexp_of_cmd x | IErr m -> "err " ^ m | IPanic l -> "panic at " ^ l | _ -> cls_name impl)
                                                (if corr then "" else " ALSO-DIFF " ^ corr_detail)) ()
    end
  end

(* ---------------------------------------------------------------- cmdtext *)
let handle_cmdtext id fs =
  let st = Sexp.field "st" fs in
  let text = Sexp.atom (Sexp.field1 "text" fs) in
  let origin = Sexp.atom (Sexp.field1 "origin" fs) in
  let impl = ires_of cmd1 (Sexp.field1 "impl" fs) in
  let model = parse_command_str (symtab_of st) (s2c text) in
  let corr = match impl, model with
    | IOk a, POk b -> sexp_of_cmd a = sexp_of_cmd b
    | IErr _, PErr | IPanic _, PPanic -> true
    | _ -> false in
  let corr_detail = if corr then "" else
      Printf.sprintf "impl=%s model=%s text=%s" (match impl with IOk x -> sexp_of_cmd x | IErr m -> "err " ^ m | IPanic l -> "panic at " ^ l | _ -> cls_name impl)
        (match model with POk m -> sexp_of_cmd m | m -> pres_name m) text in
  (* oracle: text that is not one well-formed S-expression (judged by the reference front end) must be answered with an error;
     a well-formed command accepted by the reference must not make the reader panic *)
  let verdict =
    match parse_text (s2c text) with
    | None ->
        (match impl with
         | IOk c ->
             (* trailing material after a complete command is ignored by parse_command *)
             (match first_sexp text with
              | Some _ -> `Ok "cmdtext:trailing-material-ignored"
              | None -> `Fail ("malformed-command-accepted:" ^ origin, sexp_of_cmd c))
         | IPanic l -> `Fail (panic_key "malformed" l, "panic at " ^ l)
         | _ -> `Ok "cmdtext:malformed:err")
    | Some t ->
        (match cmd_check (ctx_of st) t, impl with
         | Some _, IPanic l -> `Fail (panic_key "wellformed" l, "panic at " ^ l)
         | Some _, _ -> `Ok ("cmdtext:accepted-by-reference:" ^ cls_name impl)
         | None, IPanic l -> `Fail (panic_key "illsorted" l, "panic at " ^ l)
         | None, _ -> `Ok ("cmdtext:rejected-by-reference:" ^ cls_name impl))
  in
  match verdict with
  | `Fail (key, d) -> result ~id ~status:"fail" ~key ~detail:(Printf.sprintf "text=%s %s%s" text d (if corr then "" else " ALSO-DIFF " ^ corr_detail)) ()
  | `Ok key -> if corr then result ~id ~status:"ok" ~key () else result ~id ~status:"diff" ~key:("cmdtext:" ^ origin) ~detail:corr_detail ()

(* ---------------------------------------------------------------- script *)
let handle_script id fs =
  let st = Sexp.field "st" fs in
  let lines = List.map (fun l -> s2c (Sexp.atom l)) (Sexp.field "lines" fs) in
  let impl_steps = List.map (ires_of cmd1) (Sexp.field "impl" fs) in
  let rec model_steps top lines acc n =
    if n = 0 then List.rev acc else
      match read_command top lines with
      | RcEof -> List.rev (`Eof :: acc)
      | RcPanic -> List.rev (`Panic :: acc)
      | RcErr -> List.rev (`Err :: acc)
      | RcHang -> List.rev (`Hang :: acc)
      | RcCmd (c, top', rest) -> model_steps top' rest (`Cmd c :: acc) (n - 1) in
  let msteps = model_steps (symtab_of st) lines [] (List.length lines + 2) in
  let same = List.length msteps = List.length impl_steps &&
             List.for_all2 (fun m i ->
                 match m, i with
                 | `Cmd a, IOk b -> sexp_of_cmd a = sexp_of_cmd b
                 | `Eof, IEof | `Panic, IPanic _ | `Hang, IHang | `Err, IErr _ -> true
                 | _ -> false) msteps impl_steps in
  let show_i = String.concat " " (List.map (function IOk c -> sexp_of_cmd c | x -> cls_name x) impl_steps) in
  let show_m = String.concat " " (List.map (function `Cmd c -> sexp_of_cmd c | `Eof -> "eof" | `Panic -> "panic" | `Err -> "err" | `Hang -> "hang") msteps) in
  let corr_detail = if same then "" else Printf.sprintf "impl=[%s] model=[%s]" show_i show_m in
  (* oracle: the run never ends with a hang or a panic; it ends with an error only when the last command is a malformed variant
     (field mutated); every intact command line is delivered *)
  let last = match List.rev impl_steps with x :: _ -> x | [] -> IEof in
  let ncmds = List.length (List.filter (function IOk _ -> true | _ -> false) impl_steps) in
  let expected = match Sexp.field_opt "ncmds" fs with Some [n] -> int_of_n (num n) | _ -> 0 in
  let detail = Printf.sprintf "lines=%s impl=[%s]%s" (String.concat " / " (List.map c2s lines)) show_i (if same then "" else " ALSO-DIFF " ^ corr_detail) in
  let originals = List.map (fun c -> fst (C05.cmd_of_sexp c)) (match Sexp.field_opt "cmds" fs with Some l -> l | None -> []) in
  (* the last command was replaced by a malformed variant (older case files: no originals recorded then) *)
  let mutated = match Sexp.field_opt "mutated" fs with Some [n] -> int_of_n (num n) <> 0 | _ -> originals = [] in
  let intact = not mutated && List.length originals = expected in
  let names_ok = all_names_ok st &&
                 List.for_all (fun c -> match c with
                     | CDeclareConst s | CDefineConst (s, _) -> (match s with BVSymbol (n, _) | ArraySymbol (n, _, _) -> name_ok n | _ -> true)
                     | CSetOption (_, v) | CSetInfo (_, v) -> symbol_name (escape_id v) = Some v
                     | _ -> true) originals in
  let detail = detail ^ (match last with IPanic l -> " PANIC " ^ l | IErr m -> " ERR " ^ m | _ -> "") in
  match last with
  | IHang -> result ~id ~status:"fail" ~key:(if intact && names_ok then "read_command:intact-script:hang" else "read_command:hang-at-end-of-input") ~detail ()
  | IPanic l ->
      (* a script made of the writer's own output, names expressible: no excuse (the malformed-text finding does not cover it) *)
      result ~id ~status:"fail" ~key:(if intact && names_ok then "read_command:intact-script:panic:" ^ panic_class l else panic_key "read_command" l) ~detail ()
  | _ ->
      let delivered = List.filter_map (function IOk c -> Some c | _ -> None) impl_steps in
      let altered =
        List.length delivered = List.length originals && originals <> [] &&
        not (List.for_all2 (fun d o ->
            match o, d with
            | CSetInfo (k, v), CSetOption (k', v') -> k = k' && v = v'     (* the writer's own defect (C05) *)
            | _ -> cmd_equiv d o) delivered originals) in
      if (match last with IErr _ -> intact && names_ok | _ -> false) then result ~id ~status:"fail" ~key:"read_command:error-on-intact-script" ~detail ()
      else if ncmds < expected && names_ok then result ~id ~status:"fail" ~key:"read_command:command-lost" ~detail ()
      else if altered && names_ok && ncmds = expected then result ~id ~status:"fail" ~key:"read_command:command-altered" ~detail ()
      else if same then result ~id ~status:"ok" ~key:"script" ()
      else result ~id ~status:"diff" ~key:"script" ~detail:corr_detail ()

(* ---------------------------------------------------------------- gua *)
let handle_gua id fs =
  let st = Sexp.field "st" fs in
  let response = Sexp.atom (Sexp.field1 "response" fs) in
  let impl = ires_of (List.map expr_of_sexp) (Sexp.field1 "impl" fs) in
  let model = parse_unsat_assumptions_str (symtab_of st) (s2c response) in
  let corr = match impl, model with
    | IOk a, POk b -> List.length a = List.length b && List.for_all2 expr_eqb a b
    | IErr _, PErr | IPanic _, PPanic -> true
    | _ -> false in
  let show l = String.concat " " (List.map show_expr l) in
  let corr_detail = if corr then "" else
      Printf.sprintf "impl=%s model=%s response=%s" (match impl with IOk x -> show x | IErr m -> "err " ^ m | IPanic l -> "panic at " ^ l | _ -> cls_name impl)
        (match model with POk m -> show m | m -> pres_name m) response in
  let g = ctx_of st in
  let verdict =
    match parse_text (s2c response) with
    | Some (SxList ts) when List.for_all (fun t -> scheck g t <> None) ts ->
        (match impl with
         | IOk es ->
             let ok = List.length es = List.length ts &&
                      List.for_all2 (fun e t ->
                          List.for_all (fun seed ->
                              let rho = env_of_seed seed in
                              match seval (smodel_of g rho) t with Some v -> expr_matches_sval rho e v | None -> false) [1; 2; 3]) es ts in
             if ok then `Ok "gua:ok" else `Fail ("gua-wrong", show es)
         | IErr m -> `Fail ("gua-rejected", m)
         | IPanic l -> `Fail (panic_key "gua" l, "panic at " ^ l)
         | _ -> `Ok "?")
    | Some _ -> `Ok ("gua:not-a-list-of-known-terms:" ^ cls_name impl)
    | None ->
        (match impl with
         | IOk es ->
             (match first_sexp response with
              | Some (SxList ts) when List.length ts = List.length es &&
                                      List.for_all2 (fun e t ->
                                          match seval (smodel_of g (env_of_seed 1)) t with
                                          | Some v -> expr_matches_sval (env_of_seed 1) e v | None -> false) es ts ->
                  `Ok "gua:trailing-material-ignored"
              | _ -> `Fail ("gua-malformed-accepted", show es))
         | IPanic l -> `Fail (panic_key "malformed" l, "panic at " ^ l)
         | _ -> `Ok "gua:malformed:err")
  in
  match verdict with
  | `Fail (key, d) -> result ~id ~status:"fail" ~key ~detail:(Printf.sprintf "response=%s %s%s" response d (if corr then "" else " ALSO-DIFF " ^ corr_detail)) ()
  | `Ok key -> if corr then result ~id ~status:"ok" ~key () else result ~id ~status:"diff" ~key:"gua" ~detail:corr_detail ()

let handle (x : Sexp.t) : string =
  let (id, fs) = case_fields x in
  match Sexp.atom (Sexp.field1 "kind" fs) with
  | "rt" -> handle_rt id fs
  | "text" -> handle_text id fs
  | "val" -> handle_val id fs
  | "cmd" -> handle_cmd id fs
  | "cmdtext" -> handle_cmdtext id fs
  | "script" -> handle_script id fs
  | "gua" -> handle_gua id fs
  | k -> result ~id ~status:"error" ~key:"kind" ~detail:k ()

let () = Registry.register "C14" handle
