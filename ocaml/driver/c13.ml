(* C13: batches through one simplifier instance.
   (case ID (exprs E..) (order i..) (shared R..|(panic)) (dense same|R..) (fresh same|R..) (again same|R..) (timeout no|yes))
   property oracle : no timeout; shared = fresh (cache transparency); dense = shared (container irrelevance);
                     again = shared (idempotence)
   correspondence  : shared_i = Model.simp_default E_i *)
open Model
open Conv

(* one large Peano fuel shared by all cases (the memoising driver model consumes it structurally) *)
let big_fuel = let rec mk n acc = if n = 0 then acc else mk (n - 1) (S acc) in mk 3000000 O

let cache_entries name fs =
  match Sexp.field_opt name fs with
  | None | Some [Sexp.Atom "skipped"] -> None
  | Some l -> Some (List.map (function
      | Sexp.List [k; v] -> (expr_of_sexp k, expr_of_sexp v)
      | x -> raise (Sexp.Parse_error ("bad cache entry " ^ Sexp.to_string x))) l)

let show_sres = function
  | SOk r -> Sexp.to_string (sexp_of_expr r) | SPanic -> "(panic)" | SFuel -> "(outoffuel)"

(* the memoising driver model on the history [order]; results per member, final cache *)
let model_history (exprs : expr list) (order : int list) : (int * sres) list * (expr * expr) list =
  let es = List.map (fun i -> List.nth exprs i) order in
  let (c, rs) = simplify_batch big_fuel [] es in
  (List.combine order rs, c)

(* compare the implementation's cache (a finite map, keys unique) with the model's (newest binding first) *)
let cache_diff (impl : (expr * expr) list) (mc : (expr * expr) list) : string option =
  let bad = List.find_opt (fun (k, v) -> match lookup mc k with Some v' -> not (expr_eqb v v') | None -> true) impl in
  match bad with
  | Some (k, v) ->
      Some (Printf.sprintf "entry %s -> %s of the implementation; model has %s" (Sexp.to_string (sexp_of_expr k)) (Sexp.to_string (sexp_of_expr v))
              (match lookup mc k with Some v' -> Sexp.to_string (sexp_of_expr v') | None -> "no entry"))
  | None ->
      let keys = List.fold_left (fun acc (k, _) -> if List.exists (fun k' -> expr_eqb k k') acc then acc else k :: acc) [] mc in
      let extra = List.find_opt (fun k -> not (List.exists (fun (k', _) -> expr_eqb k k') impl)) keys in
      (match extra with
       | Some k -> Some (Printf.sprintf "the model has an entry for %s, the implementation has none" (Sexp.to_string (sexp_of_expr k)))
       | None -> None)

let handle (x : Sexp.t) : string =
  let id, fs = case_fields x in
  let timeout = match Sexp.field_opt "timeout" fs with Some [Sexp.Atom "yes"] -> true | _ -> false in
  if timeout then Registry.result ~id ~status:"fail" ~key:"timeout" ~detail:"simplification did not terminate within the watchdog" ()
  else begin
    let exprs = List.map expr_of_sexp (Sexp.field "exprs" fs) in
    let shared = Sexp.field "shared" fs in
    (* kernel cross-check: cache-free results per member; the memoising driver model's results and final cache on the recorded
       order (only when the harness dumped a cache, i.e. when the handler itself runs that model) *)
    Registry.set_model_lazy (fun () ->
        let plain = List.map (fun e -> show_sres (simp_default e)) exprs in
        let hist =
          if cache_entries "cache-sparse" fs = None then "(nohist)"
          else begin
            let order = List.map (fun a -> int_of_string (Sexp.atom a)) (Sexp.field "order" fs) in
            let (rs, mc) = model_history exprs order in
            Printf.sprintf "(hist (%s) (%s))" (String.concat " " (List.map (fun (_, r) -> show_sres r) rs))
              (String.concat " " (List.map (fun (k, v) -> Printf.sprintf "(%s %s)" (Sexp.to_string (sexp_of_expr k)) (Sexp.to_string (sexp_of_expr v))) mc))
          end in
        Printf.sprintf "(c13 (%s) %s)" (String.concat " " plain) hist);
    match shared with
    | [Sexp.List [Sexp.Atom "panic"]] ->
        let loc = match Sexp.field_opt "panicloc" fs with Some [l] -> Sexp.atom l | _ -> "?" in
        Registry.result ~id ~status:"fail" ~key:("panic@" ^ loc) ~detail:"simplifier panics on a batch member" ()
    | _ ->
        let problems = ref [] in
        let chk name msg =
          match Sexp.field_opt name fs with
          | Some [Sexp.Atom "same"] -> ()
          | Some l -> problems := (msg ^ ": " ^ String.concat " " (List.map Sexp.to_string l)) :: !problems
          | None -> problems := ("missing field " ^ name) :: !problems in
        chk "fresh" "result depends on what the simplifier instance saw before (cache not transparent)";
        chk "dense" "dense and sparse cache containers give different results";
        chk "again" "simplifying the result again gives a different reference (not idempotent)";
        if !problems <> [] then
          Registry.result ~id ~status:"fail" ~key:"not-repeatable" ~detail:(String.concat "; " !problems) ()
        else begin
          let shared_txt = List.map Sexp.to_string shared in
          let model_txt = List.map (fun e -> match simp_default e with
              | SOk r -> Sexp.to_string (sexp_of_expr r) | SPanic -> "(panic)" | SFuel -> "(outoffuel)") exprs in
          if shared_txt <> model_txt then Registry.result ~id ~status:"diff" ~key:"batch"
              ~detail:(Printf.sprintf "impl=%s model=%s" (String.concat " " shared_txt) (String.concat " " model_txt)) ()
          else begin
            (* the memoising driver model (Model.SimplifyCache) on the same two histories: results and final caches *)
            let order = List.map (fun a -> int_of_string (Sexp.atom a)) (Sexp.field "order" fs) in
            let hist name ord cache_name =
              let (rs, mc) = model_history exprs ord in
              let wrong = List.find_opt (fun (i, r) -> show_sres r <> List.nth shared_txt i) rs in
              match wrong with
              | Some (i, r) -> Some (Printf.sprintf "%s history: member %d: cached model gives %s, implementation %s" name i (show_sres r) (List.nth shared_txt i))
              | None ->
                  (match cache_entries cache_name fs with
                   | None -> None
                   | Some impl -> (match cache_diff impl mc with Some d -> Some (name ^ " cache: " ^ d) | None -> None)) in
            (* the model's cache is an association list over expression TREES: histories whose cache the harness
               found too large to dump (wide masks expanding into long concat chains) are left to the cache-free model *)
            if cache_entries "cache-sparse" fs = None then Registry.result ~id ~status:"ok" ~key:"batch" ()
            else
            match hist "sparse" order "cache-sparse" with
            | Some d -> Registry.result ~id ~status:"diff" ~key:"cached-driver" ~detail:d ()
            | None ->
                match hist "dense" (List.rev order) "cache-dense" with
                | Some d -> Registry.result ~id ~status:"diff" ~key:"cached-driver" ~detail:d ()
                | None ->
                    let compared = (cache_entries "cache-sparse" fs <> None) in
                    Registry.result ~id ~status:"ok" ~key:(if compared then "batch+cache" else "batch") ()
          end
        end
  end

let () = Registry.register "C13" handle
