(* C13: batches through one simplifier instance.
   (case ID (exprs E..) (order i..) (shared R..|(panic)) (dense same|R..) (fresh same|R..) (again same|R..) (timeout no|yes))
   property oracle : no timeout; shared = fresh (cache transparency); dense = shared (container irrelevance);
                     again = shared (idempotence)
   correspondence  : shared_i = Model.simp_default E_i *)
open Model
open Conv

(* one large Peano fuel shared by all cases (the memoising driver model consumes it structurally) *)
let big_fuel = let rec mk n acc = if n = 0 then acc else mk (n - 1) (S acc) in mk 3000000 O

let cache_entries name fs =
  match Sexp.field_opt name fs with
  | None | Some [Sexp.Atom "skipped"] -> None
  | Some l -> Some (List.map (function
      | Sexp.List [k; v] -> (expr_of_sexp k, expr_of_sexp v)
      | x -> raise (Sexp.Parse_error ("bad cache entry " ^ Sexp.to_string x))) l)

let show_sres = function
  | SOk r -> Sexp.to_string (sexp_of_expr r) | SPanic -> "(panic)" | SFuel -> "(outoffuel)"

(* the memoising driver model on the history [order]; results per member, final cache *)
let model_history (exprs : expr list) (order : int list) : (int * sres) list * (expr * expr) list =
  let es = List.map (fun i -> List.nth exprs i) order in
  let (c, rs) = simplify_batch big_fuel [] es in
  (List.combine order rs, c)

(* compare the implementation's cache (a finite map, keys unique) with the model's (newest binding first) *)
let cache_diff (impl : (expr * expr) list) (mc : (expr * expr) list) : string option =
  let bad = List.find_opt (fun (k, v) -> match lookup mc k with Some v' -> not (expr_eqb v v') | None -> true) impl in
  match bad with
  | Some (k, v) ->
      Some (Printf.sprintf "entry %s -> %s of the implementation; model has %s" (Sexp.to_string (sexp_of_expr k)) (Sexp.to_string (sexp_of_expr v))
              (match lookup mc k with Some v' -> Sexp.to_string (sexp_of_expr v') | None -> "no entry"))
  | None ->
      let keys = List.fold_left (fun acc (k, _) -> if List.exists (fun k' -> expr_eqb k k') acc then acc else k :: acc) [] mc in
      let extra = List.find_opt (fun k -> not (List.exists (fun (k', _) -> expr_eqb k k') impl)) keys in
      (match extra with
       | Some k -> Some (Printf.sprintf "the model has an entry for %s, the implementation has none" (Sexp.to_string (sexp_of_expr k)))
       | None -> None)


(* ---- stream "containers": operation histories on the containers of meta.rs against Model.ExprMeta ----
   (case ID (kind map|set) (ops OP..) (dense OBS..) (sparse OBS..) (dense-final ..) (sparse-final ..))
   property oracle : no panic; the dense and the sparse container give the same answers (container irrelevance)
   correspondence  : every observation and the final contents equal the extracted model's *)
let a s = Sexp.Atom s
let show_ov = function None -> a "none" | Some k -> a (dec_of_n k)
let parse_ov = function Sexp.Atom "none" -> None | x -> Some (n_of_dec (Sexp.atom x))
let kv (k, v) = Sexp.List [a (dec_of_n k); show_ov v]
let by_key l = List.sort (fun (k1, _) (k2, _) -> compare (int_of_n k1) (int_of_n k2)) l
let nat_len l = string_of_int (List.length l)
let eq_ov = option_N_eqb

type mstate = { d : n option list; s : (n * n option) list }

let compact (vals : n option list) : Sexp.t list =
  a (nat_len vals) :: List.map kv (List.filter (fun (_, v) -> v <> None) (dense_iter vals))

(* one map operation on both models: new state, observation of the dense model, of the sparse model *)
let map_step (st : mstate) (op : Sexp.t) : mstate * Sexp.t * Sexp.t =
  match op with
  | Sexp.List [Sexp.Atom "get"; k] ->
      let k = n_of_dec (Sexp.atom k) in
      (st, show_ov (dense_index None st.d k), show_ov (sparse_index None st.s k))
  | Sexp.List [Sexp.Atom "set"; k; v] ->
      let k = n_of_dec (Sexp.atom k) and v = parse_ov v in
      ({ d = dense_set None st.d k v; s = sparse_set None st.s k v }, a "unit", a "unit")
  | Sexp.List [Sexp.Atom "getmut"; k] ->
      let k = n_of_dec (Sexp.atom k) in
      let (d', vd) = dense_index_mut None st.d k and (s', vs) = sparse_index_mut None st.s k in
      ({ d = d'; s = s' }, show_ov vd, show_ov vs)
  | Sexp.List [Sexp.Atom "iter"] ->
      let di = dense_iter st.d in
      let ordered = List.for_all (fun x -> x) (List.mapi (fun i (k, _) -> int_of_n k = i) di) in
      let od = Sexp.List (a "iter" :: a (if ordered then "ordered" else "unordered") :: a (nat_len di)
                          :: List.map kv (List.filter (fun (_, v) -> v <> None) di)) in
      let si = sparse_iter st.s in
      let os = Sexp.List (a "iter" :: a "unordered" :: a (nat_len si) :: List.map kv (by_key si)) in
      (st, od, os)
  | Sexp.List [Sexp.Atom "ndk"] ->
      let kd = dense_non_default_value_keys eq_ov None st.d in
      let ks = List.sort (fun x y -> compare (int_of_n x) (int_of_n y)) (sparse_non_default_value_keys eq_ov None st.s) in
      (st, Sexp.List (a "ndk" :: List.map (fun k -> a (dec_of_n k)) kd), Sexp.List (a "ndk" :: List.map (fun k -> a (dec_of_n k)) ks))
  | Sexp.List [Sexp.Atom "intovec"] ->
      (st, Sexp.List (a "vec" :: compact (dense_into_vec st.d)), a "unit")
  | Sexp.List [Sexp.Atom ("gfp" | "gfpdiv"); k] ->
      let k = n_of_dec (Sexp.atom k) in
      let (d', od) = match dense_get_fixed_point st.d k with
        | GfpSome (m, v) -> (m, Sexp.List [a "some"; a (dec_of_n v)])
        | GfpNone m -> (m, a "none")
        | GfpFuel -> (st.d, a "diverges") in
      let (s', os) = match sparse_get_fixed_point st.s k with
        | GfpSome (m, v) -> (m, Sexp.List [a "some"; a (dec_of_n v)])
        | GfpNone m -> (m, a "none")
        | GfpFuel -> (st.s, a "diverges") in
      ({ d = d'; s = s' }, od, os)
  | x -> raise (Sexp.Parse_error ("bad map op " ^ Sexp.to_string x))

let set_step ((d, s) : n list * n list) (op : Sexp.t) : (n list * n list) * Sexp.t * Sexp.t =
  let b x = a (if x then "true" else "false") in
  match op with
  | Sexp.List [Sexp.Atom "contains"; k] ->
      let k = n_of_dec (Sexp.atom k) in ((d, s), b (dense_bits_contains d k), b (sparse_bits_contains s k))
  | Sexp.List [Sexp.Atom "insert"; k] ->
      let k = n_of_dec (Sexp.atom k) in
      let (d', rd) = dense_bits_insert d k and (s', rs) = sparse_bits_insert s k in ((d', s'), b rd, b rs)
  | Sexp.List [Sexp.Atom "remove"; k] ->
      let k = n_of_dec (Sexp.atom k) in
      let (d', rd) = dense_bits_remove d k and (s', rs) = sparse_bits_remove s k in ((d', s'), b rd, b rs)
  | x -> raise (Sexp.Parse_error ("bad set op " ^ Sexp.to_string x))

let is_panic = function Sexp.List (Sexp.Atom "panic" :: _) -> true | _ -> false

(* observations that must not depend on the container: everything except the shape of iter / into_vec *)
let container_free (op : Sexp.t) = match op with
  | Sexp.List (Sexp.Atom ("iter" | "intovec") :: _) -> false
  | _ -> true

let handle_containers id kind fs =
  let ops = Sexp.field "ops" fs in
  let impl_d = Sexp.field "dense" fs and impl_s = Sexp.field "sparse" fs in
  let panics = List.filter is_panic (impl_d @ impl_s) in
  if panics <> [] then
    Registry.result ~id ~status:"fail" ~key:"container-panic"
      ~detail:("a container operation panics: " ^ Sexp.to_string (List.hd panics)) ()
  else if List.length impl_d <> List.length ops || List.length impl_s <> List.length ops then
    Registry.result ~id ~status:"diff" ~key:"containers" ~detail:"observation count differs from operation count" ()
  else begin
    (* oracle: same answers from both containers *)
    let rec first_dep i ops ds ss = match ops, ds, ss with
      | op :: ro, d :: rd, s :: rs ->
          if container_free op && d <> s then
            Some (Printf.sprintf "operation %d %s: dense container answers %s, sparse container answers %s" i (Sexp.to_string op) (Sexp.to_string d) (Sexp.to_string s))
          else first_dep (i + 1) ro rd rs
      | _ -> None in
    match first_dep 0 ops impl_d impl_s with
    | Some d -> Registry.result ~id ~status:"fail" ~key:"container-dependent" ~detail:d ()
    | None ->
        let mismatch = ref None in
        let note i op which impl model =
          if !mismatch = None && impl <> model then
            mismatch := Some (Printf.sprintf "operation %d %s on the %s container: implementation %s, model %s" i (Sexp.to_string op) which (Sexp.to_string impl) (Sexp.to_string model)) in
        if kind = "map" then begin
          let st = ref { d = dense_empty; s = sparse_empty } in
          List.iteri (fun i op ->
              let (st', od, os) = map_step !st op in
              st := st';
              note i op "dense" (List.nth impl_d i) od;
              note i op "sparse" (List.nth impl_s i) os) ops;
          let fin_d = Sexp.List (Sexp.List [a "len"; a (nat_len !st.d)] :: List.map kv (List.filter (fun (_, v) -> v <> None) (dense_iter !st.d))) in
          let fin_s = Sexp.List (List.map kv (by_key (sparse_iter !st.s))) in
          note (-1) (a "final") "dense" (Sexp.List (Sexp.field "dense-final" fs)) fin_d;
          note (-1) (a "final") "sparse" (Sexp.List (Sexp.field "sparse-final" fs)) fin_s
        end else begin
          let st = ref (dense_bits_empty, sparse_bits_empty) in
          List.iteri (fun i op ->
              let (st', od, os) = set_step !st op in
              st := st';
              note i op "dense" (List.nth impl_d i) od;
              note i op "sparse" (List.nth impl_s i) os) ops;
          let (d, s) = !st in
          note (-1) (a "final") "dense" (Sexp.List (Sexp.field "dense-final" fs)) (Sexp.List (List.map (fun w -> a (dec_of_n w)) d));
          note (-1) (a "final") "sparse" (Sexp.List (Sexp.field "sparse-final" fs))
            (Sexp.List (List.map (fun w -> a (dec_of_n w)) (List.sort (fun x y -> compare (int_of_n x) (int_of_n y)) s)))
        end;
        match !mismatch with
        | Some d -> Registry.result ~id ~status:"diff" ~key:"containers" ~detail:d ()
        | None -> Registry.result ~id ~status:"ok" ~key:("containers-" ^ kind) ()
  end

let handle (x : Sexp.t) : string =
  let id, fs = case_fields x in
  match Sexp.field_opt "kind" fs with
  | Some [Sexp.Atom kind] -> handle_containers id kind fs
  | _ ->
  let timeout = match Sexp.field_opt "timeout" fs with Some [Sexp.Atom "yes"] -> true | _ -> false in
  if timeout then Registry.result ~id ~status:"fail" ~key:"timeout" ~detail:"simplification did not terminate within the watchdog" ()
  else begin
    let exprs = List.map expr_of_sexp (Sexp.field "exprs" fs) in
    let shared = Sexp.field "shared" fs in
    (* kernel cross-check: cache-free results per member; the memoising driver model's results and final cache on the recorded
       order (only when the harness dumped a cache, i.e. when the handler itself runs that model) *)
    Registry.set_model_lazy (fun () ->
        let plain = List.map (fun e -> show_sres (simp_default e)) exprs in
        let hist =
          if cache_entries "cache-sparse" fs = None then "(nohist)"
          else begin
            let order = List.map (fun a -> int_of_string (Sexp.atom a)) (Sexp.field "order" fs) in
            let (rs, mc) = model_history exprs order in
            Printf.sprintf "(hist (%s) (%s))" (String.concat " " (List.map (fun (_, r) -> show_sres r) rs))
              (String.concat " " (List.map (fun (k, v) -> Printf.sprintf "(%s %s)" (Sexp.to_string (sexp_of_expr k)) (Sexp.to_string (sexp_of_expr v))) mc))
          end in
        Printf.sprintf "(c13 (%s) %s)" (String.concat " " plain) hist);
    match shared with
    | [Sexp.List [Sexp.Atom "panic"]] ->
        let loc = match Sexp.field_opt "panicloc" fs with Some [l] -> Sexp.atom l | _ -> "?" in
        Registry.result ~id ~status:"fail" ~key:("panic@" ^ loc) ~detail:"simplifier panics on a batch member" ()
    | _ ->
        let problems = ref [] in
        let chk name msg =
          match Sexp.field_opt name fs with
          | Some [Sexp.Atom "same"] -> ()
          | Some l -> problems := (msg ^ ": " ^ String.concat " " (List.map Sexp.to_string l)) :: !problems
          | None -> problems := ("missing field " ^ name) :: !problems in
        chk "fresh" "result depends on what the simplifier instance saw before (cache not transparent)";
        chk "dense" "dense and sparse cache containers give different results";
        chk "again" "simplifying the result again gives a different reference (not idempotent)";
        if !problems <> [] then
          Registry.result ~id ~status:"fail" ~key:"not-repeatable" ~detail:(String.concat "; " !problems) ()
        else begin
          let shared_txt = List.map Sexp.to_string shared in
          let model_txt = List.map (fun e -> match simp_default e with
              | SOk r -> Sexp.to_string (sexp_of_expr r) | SPanic -> "(panic)" | SFuel -> "(outoffuel)") exprs in
          if shared_txt <> model_txt then Registry.result ~id ~status:"diff" ~key:"batch"
              ~detail:(Printf.sprintf "impl=%s model=%s" (String.concat " " shared_txt) (String.concat " " model_txt)) ()
          else begin
            (* the memoising driver model (Model.SimplifyCache) on the same two histories: results and final caches *)
            let order = List.map (fun a -> int_of_string (Sexp.atom a)) (Sexp.field "order" fs) in
            let hist name ord cache_name =
              let (rs, mc) = model_history exprs ord in
              let wrong = List.find_opt (fun (i, r) -> show_sres r <> List.nth shared_txt i) rs in
              match wrong with
              | Some (i, r) -> Some (Printf.sprintf "%s history: member %d: cached model gives %s, implementation %s" name i (show_sres r) (List.nth shared_txt i))
              | None ->
                  (* the same history through the driver model over the CONTAINER model of this instance
                     (Model.SimplifyCacheRefs over Model.ExprMeta): same results, same cache entries as the tree-keyed model *)
                  let es = List.map (fun i -> List.nth exprs i) ord in
                  let (rrs, entry) =
                    if name = "dense" then (let ((c, m), rs) = simplify_batch_dense big_fuel es in (rs, cache_entry dense_ops c m))
                    else (let ((c, m), rs) = simplify_batch_sparse big_fuel es in (rs, cache_entry sparse_ops c m)) in
                  if List.map show_sres rrs <> List.map (fun (_, r) -> show_sres r) rs then
                    Some (name ^ " history: the container-level driver model and the tree-keyed driver model give different results")
                  else match List.find_opt (fun (k, _) -> match entry k, lookup mc k with
                                                          | Some v, Some v' -> not (expr_eqb v v') | _, _ -> true) mc with
                  | Some (k, _) -> Some (name ^ " history: container-level driver model: different cache entry for " ^ Sexp.to_string (sexp_of_expr k))
                  | None ->
                  (match cache_entries cache_name fs with
                   | None -> None
                   | Some impl -> (match cache_diff impl mc with Some d -> Some (name ^ " cache: " ^ d) | None -> None)) in
            (* the model's cache is an association list over expression TREES: histories whose cache the harness
               found too large to dump (wide masks expanding into long concat chains) are left to the cache-free model *)
            if cache_entries "cache-sparse" fs = None then Registry.result ~id ~status:"ok" ~key:"batch" ()
            else
            match hist "sparse" order "cache-sparse" with
            | Some d -> Registry.result ~id ~status:"diff" ~key:"cached-driver" ~detail:d ()
            | None ->
                match hist "dense" (List.rev order) "cache-dense" with
                | Some d -> Registry.result ~id ~status:"diff" ~key:"cached-driver" ~detail:d ()
                | None ->
                    let compared = (cache_entries "cache-sparse" fs <> None) in
                    Registry.result ~id ~status:"ok" ~key:(if compared then "batch+cache" else "batch") ()
          end
        end
  end

let () = Registry.register "C13" handle
