(* C13: batches through one simplifier instance.
   (case ID (exprs E..) (order i..) (shared R..|(panic)) (dense same|R..) (fresh same|R..) (again same|R..) (timeout no|yes))
   property oracle : no timeout; shared = fresh (cache transparency); dense = shared (container irrelevance);
                     again = shared (idempotence)
   correspondence  : shared_i = Model.simp_default E_i *)
open Model
open Conv

let handle (x : Sexp.t) : string =
  let id, fs = case_fields x in
  let timeout = match Sexp.field_opt "timeout" fs with Some [Sexp.Atom "yes"] -> true | _ -> false in
  if timeout then Registry.result ~id ~status:"fail" ~key:"timeout" ~detail:"simplification did not terminate within the watchdog" ()
  else begin
    let exprs = List.map expr_of_sexp (Sexp.field "exprs" fs) in
    let shared = Sexp.field "shared" fs in
    match shared with
    | [Sexp.List [Sexp.Atom "panic"]] ->
        let loc = match Sexp.field_opt "panicloc" fs with Some [l] -> Sexp.atom l | _ -> "?" in
        Registry.result ~id ~status:"fail" ~key:("panic@" ^ loc) ~detail:"simplifier panics on a batch member" ()
    | _ ->
        let problems = ref [] in
        let chk name msg =
          match Sexp.field_opt name fs with
          | Some [Sexp.Atom "same"] -> ()
          | Some l -> problems := (msg ^ ": " ^ String.concat " " (List.map Sexp.to_string l)) :: !problems
          | None -> problems := ("missing field " ^ name) :: !problems in
        chk "fresh" "result depends on what the simplifier instance saw before (cache not transparent)";
        chk "dense" "dense and sparse cache containers give different results";
        chk "again" "simplifying the result again gives a different reference (not idempotent)";
        if !problems <> [] then
          Registry.result ~id ~status:"fail" ~key:"not-repeatable" ~detail:(String.concat "; " !problems) ()
        else begin
          let shared_txt = List.map Sexp.to_string shared in
          let model_txt = List.map (fun e -> match simp_default e with
              | SOk r -> Sexp.to_string (sexp_of_expr r) | SPanic -> "(panic)" | SFuel -> "(outoffuel)") exprs in
          if shared_txt = model_txt then Registry.result ~id ~status:"ok" ~key:"batch" ()
          else Registry.result ~id ~status:"diff" ~key:"batch"
              ~detail:(Printf.sprintf "impl=%s model=%s" (String.concat " " shared_txt) (String.concat " " model_txt)) ()
        end
  end

let () = Registry.register "C13" handle
