(* C02: bounded model checking returns the exact verdict up to the bound.
   Case format: see harness/src/c02.rs.  Oracle: the extracted explicit-state Model.bmc_spec. *)
open Model
open Conv
open C00mc

let max_bits = 15

(* (as const ..) applied to something that is not a literal: cvc5 1.0.3 refuses it *)
let has_nonvalue_aconst (e : expr) : bool =
  List.exists (function ArrayConstant (BVLiteral (_, _), _, _) -> false | ArrayConstant (_, _, _) -> true | _ -> false) (subterms e)

let nonvalue_const_array (sy : sys) : bool = List.exists has_nonvalue_aconst (all_exprs sy)

(* the same question about the script the encoding produces: a literal that is a constraint or bad
   state is a signal and is replaced by its step symbol, also below (as const ..) *)
let script_nonvalue_const_array (sy : sys) (nm : expr -> char list) (n : int) : bool =
  let sc = script code_variant (enc_new sy nm) N0 (N.to_nat (n_of_int n)) in
  List.exists (function DefineFun (_, _, b) -> has_nonvalue_aconst b | DeclareConst (_, _) -> false) sc

let event_of_sexp (x : Sexp.t) : event =
  match x with
  | Sexp.List (Sexp.Atom ("decl" | "def") :: _) -> EvCmd (cmd_of_sexp x)
  | Sexp.List [Sexp.Atom "assert"; e] -> EvAssert (expr_of_sexp e)
  | Sexp.List (Sexp.Atom "check-sat-assuming" :: es) -> EvCheckAssuming (List.map expr_of_sexp es)
  | Sexp.List [Sexp.Atom "push"] -> EvPush
  | Sexp.List [Sexp.Atom "pop"] -> EvPop
  | Sexp.List [Sexp.Atom "check-sat"] -> EvCheckSat
  | _ -> raise (Sexp.Parse_error ("bad event " ^ Sexp.to_string x))

(* the loop of bmc.rs against the model, under a solver that always answers unsat *)
let loop_check fs (sy : sys) (k : int) : string option =
  match Sexp.field_opt "loop" fs with
  | None -> None
  | Some l ->
      let ca = Sexp.atom (Sexp.field1 "check-assuming" l) = "yes" in
      let indiv = Sexp.atom (Sexp.field1 "mode" l) = "indiv" in
      let nm = names_of_case fs in
      let model = bmc_events code_variant sy nm ca indiv (N.to_nat (n_of_int k)) in
      (* patches/0002, 0003: the commands of init_at(0) in the order of Encoding.init_at2 / init_at3 *)
      let model = match model with
        | Some m when (second_repair || third_repair) && sy.s_bads <> [] ->
            let en = enc_new sy nm in
            let n0 = List.length (init_at code_variant en N0) in
            Some (List.map (fun c -> EvCmd c) (repaired_init_block en) @ List.filteri (fun i _ -> i >= n0) m)
        | m -> m in
      (match Sexp.field_opt "events" l, model with
       | Some evs, Some m ->
           let impl = List.map event_of_sexp evs in
           if impl = m then None
           else Some (Printf.sprintf "loop: %d implementation calls vs %d model calls (check-assuming=%b individually=%b)" (List.length impl) (List.length m) ca indiv)
       | None, None -> None
       | Some _, None -> Some "loop: the model panics (get_signal_at), the implementation does not"
       | None, Some _ -> Some "loop: the implementation panicked or returned early, the model does not")

let show_expected = function
  | Some j -> Printf.sprintf "fail at depth %d" (int_of_n (N.of_nat j))
  | None -> "success"

(* the first depth <= k at which NO execution satisfies the constraints at every step (explicit state, the
   fronts of Model.bmc_from): with check_constraints = true and no reachable bad state before, bmc trips
   assert_eq!(res, Sat, "Found unsatisfiable constraints in cycle d") there (C02_bmc_full_exact) *)
let constraints_dead_at (sy : sys) (k : int) : int option =
  let rec go front d =
    match List.filter (constraints_hold sy) front with
    | [] -> Some d
    | live ->
        if d >= k then None
        else go (List.concat_map (with_inputs sy) (dedup_vals (List.concat_map (succs sy) live))) (d + 1) in
  go (initial_front sy) 0

let handle (x : Sexp.t) : string =
  let id, fs = case_fields x in
  let sy = sys_of_case fs in
  let k = int_of_string (Sexp.atom (Sexp.field1 "k" fs)) in
  let simp_sy = match Sexp.field_opt "simp" fs with
    | Some [Sexp.List (Sexp.Atom "sys" :: sfs)] -> Some (sys_of_sexp (Sexp.List (Sexp.Atom "sys" :: sfs)))
    | _ -> None in
  if int_of_n (sys_bits sy) > max_bits then Registry.result ~id ~status:"skip" ~key:"too-large-for-oracle" ()
  else begin
    let knat = N.to_nat (n_of_int k) in
    let expected = bmc_spec sy knat in
    let nm = names_with_fallback fs in
    let fail = ref None in
    let set_fail key d = if !fail = None then fail := Some (key, d) in
    (* the simplified system must have the same answer *)
    (match simp_sy with
     | Some s2 ->
         let e2 = bmc_spec s2 knat in
         if e2 <> expected then
           set_fail "simplified-system-has-another-verdict"
             (Printf.sprintf "bmc_spec: original %s, simplified %s" (show_expected expected) (show_expected e2))
     | None -> ());
    let n_runs = ref 0 and n_notrun = ref 0 and n_tie = ref 0 in
    let n_cc = ref 0 and n_cc_panic = ref 0 in
    let dead = lazy (constraints_dead_at sy k) in
    let wit_diff = ref None in
    List.iter (fun r ->
        let the_sys = if r.r_simp = "simplified" then (match simp_sy with Some s -> s | None -> sy) else sy in
        let mismatch what =
          (* explain an error by the encoding defect, when there is one *)
          let cls = match script_defect the_sys nm (match expected with Some j -> int_of_n (N.of_nat j) | None -> k) with
            | Some c -> c
            | None -> (match script_defect the_sys nm k with Some c -> c | None -> "") in
          (cls, Printf.sprintf "%s: bmc_spec says %s, bmc returned %s" (run_tag r) (show_expected expected) what) in
        let cc = contains r.r_mode "+cc" in
        if cc then incr n_cc;
        match r.r_result with
        | Sexp.List [Sexp.Atom "notrun"; _] -> incr n_notrun
        | Sexp.List [Sexp.Atom "success"] ->
            incr n_runs;
            if expected <> None then set_fail "verdict:missed-counterexample" (snd (mismatch "Success"))
            else if cc then (match Lazy.force dead with
                | Some d -> set_fail "verdict:check-constraints-success-although-constraints-unsatisfiable"
                              (Printf.sprintf "%s: no execution of %d steps satisfies the constraints, bmc with check_constraints returned Success" (run_tag r) d)
                | None -> ())
        | Sexp.List [Sexp.Atom "panic"; m] when cc && expected = None && Lazy.force dead <> None
                                                && contains (Sexp.atom m) "Found unsatisfiable constraints"
                                                && contains (Sexp.atom m) (Printf.sprintf "in cycle %d" (match Lazy.force dead with Some d -> d | None -> -1)) ->
            (* the assert_eq! of check_constraints, at the step the model says (C02_bmc_full_check_constraints_panic_iff):
               a crash instead of the verdict Success - recorded finding *)
            incr n_runs; incr n_cc_panic;
            set_fail "panic:check-constraints:unsatisfiable-constraints"
              (Printf.sprintf "%s: no execution of %d steps satisfies the constraints; bmc with check_constraints = true panics (assert_eq!, bmc.rs) instead of reporting Success" (run_tag r) (match Lazy.force dead with Some d -> d | None -> -1))
        | Sexp.List [Sexp.Atom "unknown"] ->
            incr n_runs; set_fail "verdict:unknown" (snd (mismatch "Unknown"))
        | Sexp.List (Sexp.Atom "fail" :: w :: rest) ->
            incr n_runs;
            (match queries_of_fail rest with
             | Some qs ->
                 (match witness_tie ~exact_bad_names:(r.r_simp <> "simplified" && r.r_session <> "child") the_sys nm w qs with
                  | Some d -> if !wit_diff = None then wit_diff := Some (Printf.sprintf "%s: %s" (run_tag r) d)
                  | None -> incr n_tie)
             | None -> ());
            let len = List.length (witness_of_sexp w).w_inputs in
            (match expected with
             | None -> set_fail "verdict:spurious-counterexample" (snd (mismatch (Printf.sprintf "Fail with %d steps" len)))
             | Some j ->
                 if len <> int_of_n (N.of_nat j) + 1 then
                   set_fail "verdict:counterexample-length" (snd (mismatch (Printf.sprintf "Fail with %d steps" len))))
        | Sexp.List [Sexp.Atom "err"; m] ->
            incr n_runs;
            let m = Sexp.atom m in
            let (cls, d) = mismatch ("Err: " ^ String.escaped (String.sub m 0 (min 160 (String.length m)))) in
            let cls = if cls <> "" then cls
              else if contains m "expected a value" || (r.r_profile = "cvc5" && script_nonvalue_const_array the_sys nm k) then "as-const-of-non-value"
              else "other" in
            set_fail ((if r.r_profile = "cvc5" then "cvc5-rejects:" else "err:") ^ cls) d
        | Sexp.List [Sexp.Atom "hang"; m] ->
            incr n_runs;
            let (cls, d) = mismatch ("NO ANSWER (the library spins after the solver exited): " ^ Sexp.atom m) in
            let cls = if cls <> "" then cls
              else if nonvalue_const_array the_sys || script_nonvalue_const_array the_sys nm k then "as-const-of-non-value" else "other" in
            set_fail ((if r.r_profile = "cvc5" then "cvc5-rejects:" else "hang:") ^ cls) d
        | Sexp.List [Sexp.Atom "panic"; m] ->
            incr n_runs;
            let m = Sexp.atom m in
            let loc = try let i = String.rindex m '@' in String.trim (String.sub m (i + 1) (String.length m - i - 1)) with Not_found -> "?" in
            set_fail ("panic@" ^ loc) (snd (mismatch ("panic: " ^ m)))
        | y -> raise (Sexp.Parse_error ("bad result " ^ Sexp.to_string y))) (runs_of_case fs);
    match !fail with
    | Some (key, d) -> Registry.result ~id ~status:"fail" ~key ~detail:d ()
    | None ->
      match !wit_diff with
      | Some d -> Registry.result ~id ~status:"diff" ~key:"witness-differs-from-model" ~detail:d ()
      | None ->
      match loop_check fs sy k with
      | Some d -> Registry.result ~id ~status:"diff" ~key:"loop-differs-from-model" ~detail:d ()
      | None ->
        Registry.result ~id ~status:"ok" ~key:(match expected with Some _ -> "reachable" | None -> "unreachable")
          ~detail:(Printf.sprintf "%s; %d runs agree, %d not run; %d witnesses equal to the model's get_witness; %d runs with check_constraints, %d of them ended in the assert_eq! panic the model predicts (constraints unsatisfiable %s)" (show_expected expected) !n_runs !n_notrun !n_tie !n_cc !n_cc_panic
                     (match Lazy.force dead with Some d -> Printf.sprintf "from step %d" d | None -> "at no step within the bound")) ()
  end

let () = Registry.register "C02" handle
